"""Helpers for C15: obligations stated on interprocedural effects instead of on one function's call list.

  expand(E, fn, mode)        E.expand plus *local closures that are called directly* (`let f = |x| ..; f(a)`), which the
                             effect library reports as an opaque CALLBACK: the closure body is expanded with its
                             parameters bound to the call's arguments
  levels(e)                  [(Call, mapping)] from the entry function down to the effect's own call
  guards_by_level(E, e)      branch decisions at every level, substituted into the entry function's terms
  always_before / not_after  ordering of two effects, decided at the level where their call chains diverge
  error_flow(prog, e)        what happens to the failure of the effect's call at every level it is handed up through
  selection(E, e)            "e runs for every element x of collection C with P(x)": loops, for_each / map closures and
                             filter stages are the same thing (iterator algebra); `if p(x)` inside the body is a predicate
"""
from .lib import iters
from .lib.discard import result_fates, verdict
from .lib.effects import Link, guards_of
from .lib.guards import conditions, conditions_ctx
from .lib.paths import strip
from .lib.value import canon, walk

FN_CALL = ('std::ops::Fn::call', 'std::ops::FnMut::call_mut', 'std::ops::FnOnce::call_once')
IT = iters.IT


# ---- expansion ----------------------------------------------------------------------------------------
def expand(E, fn, mode='may'):
    return _open(E, E.expand(fn, mode), mode, 0)


def _open(E, effs, mode, depth):
    out = []
    for e in effs:
        clv = strip(e.path) if (e.kind == 'CALLBACK' and e.path is not None) else None
        g = E.prog.fns.get(clv[1]) if (clv is not None and clv[0] == 'closure') else None
        if g is None or depth > 4 or e.call is None or any(isinstance(l, Link) and l.call.fn is g for l in e.chain):
            out.append(e)
            continue
        if e.call.indirect:
            bind = list(e.args or ())
        else:
            tv = e.args[1] if e.args and len(e.args) > 1 else ('tuple', ())
            bind = list(tv[1]) if tv[0] == 'tuple' else None
        if bind is None:
            out.append(e)
            continue
        # bindings of everything above (the deepest Link carries them); the closure's captures are resolved by the slicer
        base = dict(e.mapping or (e.chain[-1].mapping if e.chain and isinstance(e.chain[-1], Link) else None) or {})
        base.pop('__repl__', None)
        m = dict(base)
        for i, b in enumerate(bind):
            m[(g.path, 1 + i)] = b
        sub = E.expand(g, mode, None, m, tuple(e.chain) + (Link(e.call, base),), ())
        for s in sub:
            if s.forall is None and e.forall is not None:
                s.forall = e.forall
            s.implied = tuple(e.implied) + tuple(s.implied)
        out.extend(_open(E, sub, mode, depth + 1))
    return out


def levels(e):
    return [(l.call, l.mapping or {}) for l in e.chain] + [(e.call, e.mapping or {})]


def _same(c1, c2):
    return c1 is c2 or (c1.fn.path == c2.fn.path and c1.bb == c2.bb)


def diverge(a, b):
    la, lb = levels(a), levels(b)
    i = 0
    while i < min(len(la), len(lb)) and _same(la[i][0], lb[i][0]):
        i += 1
    return i if (i < len(la) and i < len(lb)) else None


def _direct(E, call, g):
    """does `call` enter g itself, every time it runs (plain call of a workspace function, or a local closure called directly)"""
    if call.indirect:
        return False
    if g in E.prog.callee_fns(call):
        return True
    return call.decl in FN_CALL and call.res == g.path


def guards_by_level(E, e):
    """[(level, Cond, [(substituted value, outcome)..], substituted subject)]"""
    out = []
    for j, (call, m) in enumerate(levels(e)):
        for cd in conditions_ctx(E.prog, call.fn, call.bb, E.slicer):
            views = [(E.subst(v, m), oc) for v, oc in cd.views()] if cd.kind == 'bool' else [(E.subst(cd.value, m), cd.outcome)]
            subj = E.subst(cd.subject, m) if cd.subject is not None else None
            out.append((j, cd, views, subj))
    return out


def loop_headers(E, f):
    return [L.header for L in E.loops(f)]


def always_before(E, a, b, anchors=None):
    """whenever b runs, a has run before it: at the level where the two call chains part, a's call (or the anchor block
    given for that level: the switch of a tolerated `if exists` guard) strictly dominates b's call; below that level a is
    unconditional in every callee (dominates all its success sites) and every callee is entered directly"""
    anchors = anchors or {}
    i = diverge(a, b)
    if i is None:
        return False
    la, lb = levels(a), levels(b)
    ca, cb = la[i][0], lb[i][0]
    f = ca.fn
    if cb.fn is not f:
        return False
    A = anchors.get(i, ca.bb)
    if A == cb.bb or not f.dominates(A, cb.bb):
        return False
    for j in range(i + 1, len(la)):
        cj = la[j][0]
        fj = cj.fn
        if not _direct(E, la[j - 1][0], fj):
            return False
        Aj = anchors.get(j, cj.bb)
        sites = E.sites(fj)
        if not sites or not all(fj.dominates(Aj, s.bb) for s in sites):
            return False
    return True


def not_after(E, a, b):
    """a cannot run after b within the same activation / loop iteration"""
    i = diverge(a, b)
    if i is None:
        return False
    ca, cb = levels(a)[i][0], levels(b)[i][0]
    f = ca.fn
    if cb.fn is not f:
        return False
    return ca.bb not in f.reachable(cb.bb, stop=loop_headers(E, f))


# ---- failure handling ---------------------------------------------------------------------------------
def error_flow(prog, e):
    """[(level, fn, call, fates, verdict)] for the effect's own call and for every call above it whose Result can carry
    the failure on (deepest first); a level whose callee hands the error up but whose call site has no Result to carry it
    gets verdict 'unproven'"""
    ls = levels(e)
    out = []
    handed_up = False
    for j in range(len(ls) - 1, -1, -1):
        c = ls[j][0]
        is_res = (c.dty or '').startswith('std::result::Result<')
        if j == len(ls) - 1 or is_res:
            fates = result_fates(prog, c.fn, c)
            out.append((j, c.fn, c, fates, verdict(fates)))
            handed_up = any(x.kind in ('returned', 'propagated', 'matched') for x in fates)
        elif handed_up:
            out.append((j, c.fn, c, [], 'unproven'))
            handed_up = False
    return out


def tolerates_only_not_found(E, f, c, targets):
    """in f, the Err arm of the Result of call c reaches `targets` (the blocks where work goes on) only through the
    `error.kind() == ErrorKind::NotFound` edge"""
    sl = E.slicer
    site = (f.path, c.bb)
    arm = None
    sw = None
    for bi, blk in enumerate(f.blocks):
        t = blk['t']
        if t['t'] != 'switch' or t.get('oty') != 'bool':
            continue
        v = strip(sl.operand(f, t['o']))
        if not (v[0] == 'call' and v[1] in ('std::cmp::PartialEq::ne', 'std::cmp::PartialEq::eq') and len(v[2]) == 2):
            continue
        a, b = strip(v[2][0]), strip(v[2][1])
        if a[0] == 'agg':
            a, b = b, a
        if not (b[0] == 'agg' and b[2] == 'NotFound' and a[0] == 'call' and a[1] == 'std::io::Error::kind'):
            continue
        if not any(x[0] == 'call' and len(x) == 4 and x[3] == site for x in walk(a)):
            continue
        for cd in conditions(f, bi, sl):
            s = strip(cd.subject) if cd.subject is not None else None
            if cd.kind == 'variant' and cd.outcome == frozenset({'Err'}) and s is not None and s[0] == 'call' and len(s) == 4 and s[3] == site:
                arm = cd.target
                sw = (bi, v[1].endswith('::ne'), t)
    if arm is None or sw is None or not targets:
        return False
    bi, is_ne, t = sw
    zero = [tb for val, tb in t['targets'] if val == 0]
    if not zero:
        return False
    # the edge on which kind == NotFound
    fall, other = (zero[0], t['else']) if is_ne else (t['else'], zero[0])
    through = arm == bi or not (set(targets) & f.reachable(arm, stop=[bi]))
    return through and bool(set(targets) & f.reachable(fall)) and not (set(targets) & f.reachable(other))


# ---- selections ---------------------------------------------------------------------------------------
PASS_THROUGH = iters.SAME | iters.COLLECTING | {IT + 'enumerate'}


def decompose(sl, v):
    """iterated expression -> (base collection, [(filter closure, receiver of that filter)], opaque?)"""
    filters = []
    opaque = False
    for _ in range(16):
        v = strip(v)
        if v[0] != 'call' or not v[2]:
            break
        name, args = v[1], v[2]
        if name == IT + 'filter' and len(args) == 2:
            filters.append((args[1], args[0]))
            v = args[0]
        elif name in PASS_THROUGH or (iters._is_source(name) and name.endswith(iters.SAME_ELEMS) and len(args) == 1):
            v = args[0]
        elif name in iters.FEWER or name in iters.LAZY_WITH_CLOSURE or name in (IT + 'chain', IT + 'zip', IT + 'flatten'):
            opaque = True
            break
        else:
            break
    return v, filters, opaque


def _peel_not(v, oc=True):
    while isinstance(v, tuple) and v and v[0] == 'un' and v[1] == 'Not':
        v, oc = v[2], (not oc)
    return v, oc


class Iteration:
    def __init__(self, level, recv, elem, base, preds, opaque):
        self.level = level
        self.recv = recv      # the iterated expression (entry terms)
        self.elem = elem      # value of one element
        self.base = base      # the collection it ranges over, adapters peeled
        self.preds = preds    # [(value, outcome)] of filter stages
        self.opaque = opaque  # an adapter / shape whose selection we cannot state


def _iteration(E, level, recv):
    sl = E.slicer
    base, filters, opaque = decompose(sl, recv)
    al = iters.alts(sl, recv)
    elem = None
    if len(al) == 1:
        elem = al[0][0]
        if bool(al[0][2]) != bool(filters):
            opaque = True
    else:
        opaque = True
    preds = []
    for clv, rv in filters:
        ra = iters.alts(sl, rv)
        r = sl.apply_closure(clv, (ra[0][0],)) if len(ra) == 1 else None
        if r is None:
            opaque = True
            continue
        preds.append(_peel_not(r))
    return Iteration(level, recv, elem, base, preds, opaque)


class Selection:
    def __init__(self, iterations, guards):
        self.iterations = iterations
        self.guards = guards          # [(level, Cond, views)] decisions taken per element (inside the iteration)


def _is_continue(cd):
    return cd.kind == 'variant' and (cd.enum or '').startswith('std::ops::ControlFlow') and cd.outcome == frozenset({'Continue'})


def selection(E, e):
    sl = E.slicer
    ls = levels(e)
    its = []
    guards = []
    for j, (c, m) in enumerate(ls):
        f = c.fn
        inside = bool(its)
        body = None
        skip_sites = set()
        for L in sorted((L for L in E.loops(f) if c.bb in L.body and c.bb != L.header), key=lambda L: -len(L.body)):
            if L.collection is None:
                its.append(Iteration(j, None, None, None, [], True))
            else:
                its.append(_iteration(E, j, E.subst(L.collection, m)))
            body = L.body if body is None else body     # outermost loop: decisions inside it are per element
            skip_sites.add((f.path, L.header))
        for cd in conditions(f, c.bb, sl):
            if not (inside or (body is not None and cd.sw_bb in body)) or _is_continue(cd):
                continue
            s = strip(cd.subject) if cd.subject is not None else None
            if s is not None and s[0] == 'call' and len(s) == 4 and s[3] in skip_sites:
                continue        # the loop's own `next() is Some`
            views = [(E.subst(v, m), oc) for v, oc in cd.views()] if cd.kind == 'bool' else [(E.subst(cd.value, m), cd.outcome)]
            guards.append((j, cd, views))
        # a closure handed to an iterator adapter / consumer is a loop body
        if j + 1 < len(ls) and not c.indirect and (c.decl or '').startswith('std::iter::'):
            g = ls[j + 1][0].fn
            d = c.decl
            recv = None
            if d in iters.LAZY_WITH_CLOSURE and len(c.args) == 2:
                recv = sl.operand(f, c.args[0])
            elif d in iters.CONSUME_EACH or d in iters.CONSUME_ALL:
                ridx = 1 if d == 'std::iter::Extend::extend' else 0
                if ridx < len(c.args):
                    recv = sl.operand(f, c.args[ridx])
                    for name, clv, rv in iters.stages(recv):
                        if clv[0] == 'closure' and clv[1] == g.path:
                            recv = rv
                            break
            if recv is not None:
                its.append(_iteration(E, j, E.subst(recv, m)))
    return Selection(its, guards)


def predicates(sel):
    """all per-element conditions of a selection: filter stages and decisions inside the body; None if some cannot be stated"""
    if any(it.opaque for it in sel.iterations):
        return None
    out = []
    for it in sel.iterations:
        out.extend(it.preds)
    for j, cd, views in sel.guards:
        if cd.kind != 'bool':
            return None
        out.append(views[0] if len(views) == 1 else ('views', views))
    return out


def pred_views(p):
    return list(p[1]) if (isinstance(p, tuple) and p and p[0] == 'views') else [p]


def same(a, b):
    return a is not None and b is not None and canon(strip(a)) == canon(strip(b))


def returned(sl, v):
    """v with private workspace helpers made transparent: what a helper hands back on success (`Ok(x)` among early-return
    errors -> x), so that a collection filled inside a helper and returned is the same value as the one filled in place"""
    v = strip(v)
    iv = sl.inline_deep(v)
    if iv == v:
        return v
    return strip(sl.mk_unwrap(iv, 1))


def same_through_helpers(sl, a, b):
    return same(a, b) or same(returned(sl, a), returned(sl, b))


_OPT_VIEW = ('::as_ref', '::clone', '::as_deref', '::as_mut', '::as_deref_mut')


def option_arm(E, e, is_subject):
    """the arm of a decision on an Option (selected by `is_subject`) that effect e runs in, at any level of its call chain:
    'Some' / 'None' (`match` / `if let` / `is_some()` / `is_none()`), '?' when contradictory or not a plain arm, None when
    e is not under such a decision"""
    found = set()
    for cd, views, subj in guards_of(E, e):
        if cd.kind == 'variant':
            s = strip(subj) if subj is not None else None
            while s is not None and s[0] == 'call' and len(s[2]) == 1 and s[1].endswith(_OPT_VIEW):
                s = strip(s[2][0])
            if s is None or s[0] != 'field' or not is_subject(s) or is_subject(s[1]):
                continue
            oc = cd.outcome
            found.add(next(iter(oc)) if isinstance(oc, frozenset) and len(oc) == 1 and next(iter(oc)) in ('Some', 'None') else '?')
        elif cd.kind == 'bool':
            for v, oc in views:
                v, oc = _peel_not(v, oc)
                v = strip(v)
                if v[0] == 'call' and len(v[2]) == 1 and v[1].endswith(('::is_some', '::is_none')) and is_subject(v[2][0]):
                    found.add('?' if not isinstance(oc, bool) else ('Some' if (oc == v[1].endswith('::is_some')) else 'None'))
    if not found:
        return None
    return found.pop() if len(found) == 1 else '?'
