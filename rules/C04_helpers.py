"""C04 helpers — case-wise (assumption-specialised) evaluation of a function.

The CNB rules for applying a layer environment are a finite case table:

    LayerEnv::apply        per Scope variant            -> ordered list of deltas folded over the input env
    LayerEnvDelta::apply   per (behaviour of the entry,
                                previous value unset / empty / non-empty,
                                delimiter entry present / absent) -> what is inserted under the entry's name

Instead of recognising one spelling of the code, the functions are *evaluated once per case*: an assumption decides
the branch conditions it speaks about (`Engine`/`Spec.edge_state`), definitions and string/vector pushes in blocks that
are unreachable under the assumption disappear from the sliced values (`ASlicer`), and what remains is compared with the
table.  Conditions are decided on normal forms (Option algebra `opt`, boolean algebra `boolv`, string atoms `atoms`), in
the terms of the root function (parameters of private helpers are bound to what the root passes in), so that helpers,
combinators (`filter`, `map_or_else`, `then`, ..), match guards, early `continue`s and hoisted computations are all the
same thing.

  Engine(prog, root)        assumption independent: push-site aware slicer, parameter bindings, per-edge conditions
                            (env_steps: the in-place members of the delta family — an Env that is updated through
                            `&mut` by them, directly, in a loop or inside a private helper, is described in functional
                            form, so that in-place and nested / folded applications are one value)
  Spec(engine, decider)     one case: edge decisions, feasible blocks, specialised slicer, path events
  ScopeCase / ArmCase       the deciders of the two tables
"""
from . import layer_env_common as L
from .lib import iters
from .lib.guards import Cond, _discr_info, conditions
from .lib.paths import strip
from .lib.mir import op_place
from .lib.value import Slicer, canon, subst, vstr, walk, _phi

MB = L.MB
SCOPE = L.SCOPE
ENV_INSERT = 'libcnb::env::Env::insert'
ENV_GET = 'libcnb::env::Env::get'
ENV_CONTAINS = 'libcnb::env::Env::contains_key'
VEC_PUSH = 'std::vec::Vec::<T, A>::push'
PUSH, MAYBE, TAKE = '<push>', '<maybe>', '<take>'
MEM_TAKE = 'std::mem::take'
ENV_MAP_T = '&mut std::collections::HashMap<std::ffi::OsString, std::ffi::OsString'      # &mut Env.inner
HM = 'std::collections::HashMap'
HM_ENTRY = 'std::collections::hash_map::'


# ---------------------------------------------------------------------------------------------------------------
# slicers
# ---------------------------------------------------------------------------------------------------------------
class PSlicer(Slicer):
    """the library slicer, with two differences: values pushed onto a string / vector remember the block of the push
    (('call', '<push>', (value,), (fn, bb))), and Vec::push is an appender like OsString::push"""
    APPENDERS = set(Slicer.APPENDERS) | {VEC_PUSH}

    # names of the functions that apply a delta to the environment behind their `&mut Env` argument (the in-place
    # members of the delta family).  When set, an owned Env local that is handed to them by `&mut` is described in
    # functional form — `d.apply_in_place(&mut r)` makes r = apply_in_place(d, <r before>) — so that
    #     let mut r = self.all.apply(env); self.build.apply_in_place(&mut r); r
    # and self.build.apply(&self.all.apply(env)) are the same value.  None: environments are not described by content
    env_steps = None

    def __init__(self, prog, spec=None, symbolic=False, env_steps=None):
        Slicer.__init__(self, prog)
        self.spec = spec
        self.symbolic_upvars = symbolic
        self.env_steps = env_steps
        if not symbolic:
            self._sym = self.__class__(prog, spec, True, env_steps)

    def _feasible(self, fn, bb):
        return True

    def _certain(self, fn, starts, bb):
        return True

    def local(self, fn, local, _seen=None, _d=0):
        spec = self.spec
        n0 = spec.conservative if spec is not None else 0
        v = Slicer.local(self, fn, local, _seen, _d)
        if spec is not None and spec.conservative != n0:
            self._cache.pop((fn.path, local), None)    # computed while a decision was not available yet
        return v

    def _local(self, fn, local, seen, d):
        defs = [dd for dd in fn.whole_defs(local) if self._feasible(fn, dd[1])]
        is_param = 1 <= local <= fn.argc
        if is_param:
            if fn.kind == 'Closure' and local == 1:
                pv = ('closure_env', fn.path)
            else:
                pv = ('param', fn.path, local - 1, fn.local_name(local))
            if not defs:
                return pv
            vals = [pv] + [self._def_value(fn, dd, seen, d) for dd in defs]
            return _phi(vals)
        if not defs:
            if fn.whole_defs(local):
                return ('unknown', 'infeasible')
            return Slicer._local(self, fn, local, seen, d)
        vals = [self._def_value(fn, dd, seen, d) for dd in defs]
        v = self._select(fn, defs, vals) if len(defs) > 1 else None
        if v is None:
            v = _phi(vals)
        return self._with_updates2(fn, local, v, seen, d, [dd[1] for dd in defs])

    EXTEND = 'std::iter::Extend::extend'
    CONTENT_TYPES = ('std::vec::Vec', 'std::ffi::OsString', 'std::string::String', 'std::path::PathBuf')

    def _mutations(self, fn, local):
        """calls that receive `&mut local` (directly or through a reborrow), in reverse post-order:
        [(kind, Call)] with kind 'push' (an appender), 'extend', or 'other' (anything else that may change the value)"""
        key = ('mutations', fn.path)
        idx = self._cache.get(key)
        if idx is None:
            idx = {}
            refs = {}
            if self.env_steps is not None:
                # a `&mut Env` parameter stands for the environment behind it (helpers that are handed the accumulator)
                for p_ in range(1, fn.argc + 1):
                    if (fn.locals[p_].get('ty') or '') == '&mut ' + ENV_T:
                        refs[p_] = p_
            for _ in range(2):
                for b in fn.blocks:
                    for st in b['s']:
                        if st[0] == '=' and len(st[1]) == 1 and st[2]['r'] == 'ref' and st[2].get('mut'):
                            p = st[2]['p']
                            if len(p) == 1:
                                refs[st[1][0]] = p[0]
                            elif len(p) == 2 and p[1] == '*' and p[0] in refs:
                                refs[st[1][0]] = refs[p[0]]
                            elif len(p) == 2 and p[1] == '*' and not (1 <= p[0] <= fn.argc) and \
                                    (fn.locals[p[0]].get('ty') or '').startswith('&mut ') and fn.locals[p[0]].get('head') in self.CONTENT_TYPES:
                                # `slot: &mut OsString` obtained from a call (map.entry(k).or_default()): the string
                                # behind it is described by content like an owned one, `slot.push(x)` appends to it
                                refs[st[1][0]] = p[0]
            rpo = fn._rpo()
            pos = {b: i for i, b in enumerate(rpo)}
            for c in sorted(fn.calls, key=lambda c: pos.get(c.bb, 10 ** 6)):
                for i, a in enumerate(c.args):
                    pl = op_place(a)
                    if not (pl and len(pl) == 1 and pl[0] in refs):
                        continue
                    if not c.indirect and i == 0 and c.name in self.APPENDERS and len(c.args) == 2:
                        kind = 'push'
                    elif not c.indirect and i == 0 and c.decl == self.EXTEND and len(c.args) == 2:
                        kind = 'extend'
                    elif not c.indirect and i == 0 and c.name == MEM_TAKE and len(c.args) == 1 and \
                            fn.locals[refs[pl[0]]].get('head') in self.CONTENT_TYPES:
                        kind = 'take'       # the content moves out (the value of the call), an empty one stays behind
                    elif fn.locals[refs[pl[0]]].get('head') in self.CONTENT_TYPES:
                        kind = 'other'
                    elif self.env_steps is not None and fn.locals[refs[pl[0]]].get('ty') in (ENV_T, '&mut ' + ENV_T):
                        kind = 'envstep' if (not c.indirect and c.name in self.env_steps and len(c.args) == 2 and i == 1) else 'envother'
                    else:
                        continue       # iterators, maps, the environment: not values this slicer describes by content
                    idx.setdefault(refs[pl[0]], []).append((kind, c))
            self._cache[key] = idx
            self._cache[('refs', fn.path)] = refs
        return idx.get(local, [])

    def _call_value(self, fn, call, seen, d):
        if not call.indirect and call.name == MEM_TAKE and len(call.args) == 1:
            # the string as it is when taken is resolved on demand, relative to the call (ArmCase.atoms): it cannot
            # be part of its own later content (`let prev = take(slot); slot.push(x); slot.push(prev)`)
            pl = op_place(call.args[0])
            self._mutations(fn, 0)
            refs = self._cache.get(('refs', fn.path), {})
            if pl and len(pl) == 1 and pl[0] in refs and fn.locals[refs[pl[0]]].get('head') in self.CONTENT_TYPES:
                return ('call', MEM_TAKE, (('slotref', fn.path, refs[pl[0]]),), (fn.path, call.bb))
        return Slicer._call_value(self, fn, call, seen, d)

    def _with_updates2(self, fn, local, v, seen, d, def_bbs):
        muts = self._mutations(fn, local)
        if not muts:
            return Slicer._with_updates(self, fn, local, v, seen, d)
        rd = self._read_into(fn, local)
        if rd is not None:
            return rd
        muts = [(k, c) for k, c in muts if self._feasible(fn, c.bb)]
        if not muts:
            return v
        if any(k in ('envstep', 'envother') for k, _ in muts):
            return self._env_steps_value(fn, local, v, muts, seen, d, def_bbs)
        fresh = v[0] == 'call' and v[1].endswith(('::new', '::with_capacity', '::default'))
        parts = []
        for kind, c in muts:
            site = (fn.path, c.bb, tuple(def_bbs), kind)
            if kind == 'other':
                parts.append(('call', MAYBE, (('call', '<mutated-by>', (('const', c.name or 'indirect call'),), None),), site))
                continue
            if kind == 'take':
                parts.append(('call', TAKE if self._certain(fn, def_bbs, c.bb) else MAYBE, (('const', '<taken>'),), site))
                continue
            pv = self.operand(fn, c.args[1], seen, d)
            parts.append(('call', PUSH if self._certain(fn, def_bbs, c.bb) else MAYBE, (pv,), site))
        return ('concat', v, tuple(parts), fresh)


    def _env_steps_value(self, fn, local, v, muts, seen, d, def_bbs, depth=0):
        """the environment in local `local` (an owned Env, or the `&mut Env` parameter of a private helper) after the
        in-place delta applications it is handed to, in functional form (in reverse post-order; an application that is
        not on every feasible path is a phi of with / without, one inside a loop is the step of a loop over the
        accumulator, a private helper that is handed `&mut` the environment contributes what it does to its
        parameter).  The slicer is flow-insensitive: the value is that of the local once all updates are done, so it
        is only given when nothing reads the local before an update, nothing else holds a `&mut` to it, and it is
        not assigned a second time"""
        if len(def_bbs) > 1 or fn.partial_defs(local):
            return ('unknown', 'environment updated in place and assigned again')
        refs = self._cache.get(('refs', fn.path), {})
        ref_locals = {r for r, base in refs.items() if base == local and r != local}
        all_mut_bbs = {c.bb for _, c in self._mutations(fn, local)}
        mut_bbs = {c.bb for _, c in muts}

        def reborrow(bi, idx):
            st = fn.blocks[bi]['s'][idx]
            return len(st[1]) == 1 and st[1][0] in ref_locals
        for r in ref_locals:
            if fn.partial_defs(r) or len(fn.whole_defs(r)) != 1:
                return ('unknown', 'a `&mut` to the environment is reassigned')
            for bi, kind, idx, how, pl in fn.uses_of(r):
                if kind == 'drop' or not self._feasible(fn, bi):
                    continue
                if kind == 'arg' and bi in all_mut_bbs:
                    continue
                if kind == 'stmt' and how == 'refmut' and reborrow(bi, idx):
                    continue
                return ('unknown', 'environment borrowed mutably by something else than a call')
        for bi, kind, idx, how, pl in fn.uses_of(local):
            if kind == 'drop' or not self._feasible(fn, bi):
                continue
            if kind == 'stmt' and how == 'refmut' and reborrow(bi, idx):
                continue            # the `&mut` handed to one of the calls in `muts`
            if kind == 'arg' and bi in all_mut_bbs:
                continue            # a `&mut Env` parameter handed on as it is
            if how in ('refmut', 'rawptr') or (kind == 'stmt' and how == 'm' and len(pl) > 1):
                # `&mut env.inner`, `&mut *env` kept in something that is not a call argument, a field moved out: the
                # environment changes in a way that is not an application of a delta
                return ('unknown', 'environment modified directly')
            later = set()
            for s_ in fn.succs(bi):
                later |= fn.reachable(s_)
            if kind == 'stmt':
                later.add(bi)       # a statement precedes the call that ends its block
            if later & mut_bbs:
                return ('unknown', 'environment read before an in-place update')
        acc = v
        for kind, c in muts:
            site = (fn.path, c.bb)
            after = set()
            for s_ in fn.succs(c.bb):
                after |= fn.reachable(s_)
            looped = c.bb in after and not any(b in after for b in def_bbs)
            if kind == 'envstep':
                recv = self.operand(fn, c.args[0], seen, d)
                if looped:
                    # once per iteration of a loop the accumulator is defined outside of
                    acc = ('phi', (acc, ('call', c.name, (recv, ('unknown', 'cycle')), site)))
                    continue
                nxt = ('call', c.name, (recv, acc), site)
            else:
                nxt = None if looped else self._env_helper_value(fn, local, c, acc, seen, d, depth)
                if nxt is None:
                    acc = ('call', '<env-mutated-by>', (('const', c.name or 'indirect call'), acc), site)
                    continue
            acc = nxt if self._certain(fn, def_bbs, c.bb) else ('phi', (acc, nxt))
        return acc

    def _env_helper_value(self, fn, local, c, acc, seen, d, depth):
        """c hands `&mut` the environment to a private helper (`self.apply_scope_specific(scope, &mut env)`): what the
        environment is afterwards = what the helper makes of its parameter, with the arguments of this call put in.
        None: not a helper this can be said of"""
        if c.indirect or depth > 2:
            return None
        hs = [h for h in self.prog.callee_fns(c)]
        if len(hs) != 1 or hs[0].kind == 'Closure' or hs[0].crate != fn.crate or hs[0].path == fn.path or hs[0].argc != len(c.args):
            return None
        h = hs[0]
        self._mutations(fn, local)
        refs = self._cache.get(('refs', fn.path), {})
        idx = [i for i, a in enumerate(c.args) if op_place(a) and len(op_place(a)) == 1 and refs.get(op_place(a)[0]) == local]
        if len(idx) != 1 or h.args[idx[0]] != '&mut ' + ENV_T or ENV_T in (h.ret or ''):
            return None
        i = idx[0]
        pv = ('param', h.path, i, h.local_name(i + 1))
        hm = [(k, c2) for k, c2 in self._mutations(h, i + 1) if self._feasible(h, c2.bb)]
        hv = self._env_steps_value(h, i + 1, pv, hm, set(), d + 1, [], depth + 1)      # (also when there are no calls: the guards)
        if hv[0] == 'unknown':
            return hv
        bind = {(h.path, j): (acc if j == i else self.operand(fn, c.args[j], seen, d)) for j in range(h.argc)}
        return subst(hv, bind, self)


class ASlicer(PSlicer):
    """slicing under the assumption of a Spec: definitions and pushes in infeasible blocks do not exist; a push that is
    not on every feasible path from the definition of its receiver is marked '<maybe>'"""

    def _feasible(self, fn, bb):
        return self.spec.block_feasible(fn, bb)

    def _certain(self, fn, starts, bb):
        return self.spec.certain(fn, starts, bb)


# ---------------------------------------------------------------------------------------------------------------
# per-edge conditions (guards.conditions only reports edges that dominate a block)
# ---------------------------------------------------------------------------------------------------------------
def edge_conds_at(fn, sb, sl):
    """[(target block, Cond | None)] of the switch terminating block sb, values sliced with `sl`"""
    blk = fn.blocks[sb]
    t = blk['t']
    if t['t'] != 'switch':
        return None
    by_target = {}
    for v, tb in t['targets']:
        by_target.setdefault(tb, []).append(v)
    by_target.setdefault(t['else'], []).append('else')
    listed = [v for v, _ in t['targets']]
    di = _discr_info(fn, sb, t['o'])
    val0 = sl.operand(fn, t['o'])
    rows = []
    for tb, labels in by_target.items():
        cd = None
        val = val0
        if di:
            place, vmap, enum = di
            names = set()
            for lab in labels:
                if lab == 'else':
                    names |= {n for v, n in vmap.items() if v not in listed}
                else:
                    names.add(vmap.get(lab, str(lab)))
            cd = Cond(fn, sb, tb, 'variant', frozenset(names), val, sl.place(fn, place), enum)
        elif t.get('oty') == 'bool':
            outcome = None
            if labels == ['else'] and listed == [0]:
                outcome = True
            elif labels == [0]:
                outcome = False
            elif labels == [1]:
                outcome = True
            elif labels == ['else'] and listed == [1]:
                outcome = False
            if outcome is not None:
                while val[0] == 'un' and val[1] == 'Not':
                    val = val[2]
                    outcome = not outcome
                if val[0] == 'select' and all(rv[0] == 'const' and isinstance(rv[1], bool) for _, rv in val[3]):
                    names = frozenset(n for ns, rv in val[3] if rv[1] == outcome for n in ns)
                    cd = Cond(fn, sb, tb, 'variant', names, val, val[1], val[2])
                else:
                    cd = Cond(fn, sb, tb, 'bool', outcome, val)
                    cd._slicer = sl
        rows.append((tb, cd))
    return rows


def edge_conds(fn, sl):
    """{switch block: [(target block, Cond | None)]}"""
    out = {}
    for sb in range(len(fn.blocks)):
        rows = edge_conds_at(fn, sb, sl)
        if rows is not None:
            out[sb] = rows
    return out


# ---------------------------------------------------------------------------------------------------------------
# engine / spec
# ---------------------------------------------------------------------------------------------------------------
class Engine:
    def __init__(self, prog, root, env_steps=None):
        self.prog = prog
        self.root = root
        self.env_steps = env_steps
        self.psl = PSlicer(prog, env_steps=env_steps)
        self.bind = {}
        self._ec = {}
        self._has = {}
        self._propagate()

    def rebind(self, pre):
        """start over from the given bindings (parameters of a closure that visits the elements of a collection)"""
        self.bind = dict(pre)
        self._propagate()

    def edge_conds(self, fn):
        if fn.path not in self._ec:
            self._ec[fn.path] = edge_conds(fn, self.psl)
        return self._ec[fn.path]

    def to_root(self, v):
        return subst(v, self.bind, self.psl) if self.bind and v is not None else v

    def _propagate(self):
        """parameters of the private functions reached from the root, bound to what their call sites pass in, in the
        root's terms — only where all call sites in the region agree.  Iterated: a helper of a helper is expressed in
        the root's terms one round later."""
        prog, root = self.prog, self.root
        region, work = {}, [root]
        while work:
            f = work.pop()
            if f.path in region:
                continue
            region[f.path] = f
            for c in f.calls:
                if not c.indirect:
                    work.extend(h for h in prog.callee_fns(c) if h.kind != 'Closure')
            work.extend(prog.closures_of(f))
        self.region = set(region)
        pre = dict(self.bind)
        for _ in range(6):
            sites = {}
            for f in region.values():
                for c in f.calls:
                    if c.indirect:
                        continue
                    for h in prog.callee_fns(c):
                        if h.kind == 'Closure' or h.path == root.path:
                            continue
                        sites.setdefault(h.path, []).append(tuple(self.to_root(self.psl.operand(f, a)) for a in c.args[:h.argc]))
            new = dict(pre)
            for hp, ss in sites.items():
                h = prog.fns[hp]
                for i in range(h.argc):
                    if (hp, i) in pre or not all(i < len(x) for x in ss):
                        continue
                    if len({canon(x[i]) for x in ss}) == 1:
                        new[(hp, i)] = ss[0][i]
            same = set(new) == set(self.bind) and all(canon(new[k]) == canon(self.bind[k]) for k in new)
            self.bind = new
            if same:
                break

    def has_call(self, fn, name):
        """fn (or something it may enter) calls `name`"""
        key = (fn.path, name)
        if key not in self._has:
            self._has[key] = any(c.name == name for g in self.prog.reach([fn]).values() for c in g.calls)
        return self._has[key]

    def has_env_write(self, fn):
        """fn (or something it may enter) writes an environment: Env::insert, or the map inside an Env by `&mut`"""
        key = (fn.path, '<env-write>')
        if key not in self._has:
            self._has[key] = fn.path == ENV_INSERT or bool(env_write_sites(self.prog, [fn]))
        return self._has[key]


def is_env_map_write(f, c):
    """the call receives `&mut` the map inside an Env (libcnb::env::Env.inner)"""
    for a in c.args:
        pl = op_place(a)
        if pl and len(pl) == 1 and (f.locals[pl[0]].get('ty') or '').startswith(ENV_MAP_T):
            return True
    return False


def env_write_sites(prog, roots):
    """{(fn path, block)} of the primitive writes of an environment reachable from `roots`: calls of Env::insert, and —
    in the other functions that reach into an Env — calls that receive `&mut` its map"""
    out = set()
    for f in prog.reach(list(roots)).values():
        if f.path == ENV_INSERT:
            continue
        for c in f.calls:
            if c.name == ENV_INSERT or is_env_map_write(f, c):
                out.add((f.path, c.bb))
    return out


class EngineView:
    """an Engine with additional parameter bindings: one call site of a helper that is called from several places"""

    def __init__(self, base, extra):
        self.base, self.extra = base, dict(extra)
        self.prog, self.root, self.psl = base.prog, base.root, base.psl
        self.env_steps = getattr(base, 'env_steps', None)
        self.bind = dict(base.bind)
        self.bind.update(self.extra)

    def edge_conds(self, fn):
        return self.base.edge_conds(fn)

    def has_call(self, fn, name):
        return self.base.has_call(fn, name)

    def has_env_write(self, fn):
        return self.base.has_env_write(fn)

    def to_root(self, v):
        v = self.base.to_root(v)
        return subst(v, self.extra, self.psl) if v is not None else v


class Spec:
    """one case: `decider.decide(spec, fn, cond)` -> True (the edge is taken) / False (never) / None (not decided)"""

    def __init__(self, engine, decider):
        self.engine = engine
        self.prog = engine.prog
        self.root = engine.root
        self.decider = decider
        self.conservative = 0
        self._busy = set()
        self._deciding = set()
        self._estate = {}
        self._reach = {}
        self._approx = {}
        self.asl = ASlicer(self.prog, self, env_steps=getattr(engine, 'env_steps', None))
        self.seen_sites = set()
        self._subs = {}

    def to_root(self, v):
        v = self.engine.to_root(v)
        refine = getattr(self.decider, 'refine', None)
        return refine(self, v) if refine is not None and v is not None else v

    def for_call(self, h, args):
        """the Spec in which helper h is evaluated for a call with the given argument values (root terms): this one
        when h's parameters are bound already, else a copy that binds them for this call"""
        missing = {(h.path, i): a for i, a in enumerate(args[:h.argc]) if (h.path, i) not in self.engine.bind}
        if not missing or h.kind == 'Closure':
            return self
        key = (h.path, tuple(canon(a) for a in args[:h.argc]))
        if key not in self._subs:
            sub = Spec(EngineView(self.engine, missing), self.decider)
            sub.seen_sites = self.seen_sites
            sub._subs = self._subs
            self._subs[key] = sub
        return self._subs[key]

    # ---- decisions --------------------------------------------------------------------------------
    def edge_state(self, fn, sb):
        key = (fn.path, sb)
        if key in self._estate:
            return self._estate[key]
        rows = self.engine.edge_conds(fn).get(sb, [])
        if key in self._deciding:       # asked again while being decided (a value sliced under the assumption): open
            self.conservative += 1
            return {tb: None for tb, _ in rows}
        n0 = self.conservative
        self._deciding.add(key)
        try:
            st = self._edge_state(fn, sb, rows)
        finally:
            self._deciding.discard(key)
        if self.conservative == n0:     # else: decided while the feasible blocks were still being computed
            self._estate[key] = st
        return st

    def _edge_state(self, fn, sb, rows):
        st = {}
        special = None
        for tb, cd in rows:
            r = None
            if cd is not None:
                if cd.kind == 'variant' and not cd.outcome:
                    r = False      # the `otherwise -> unreachable` edge of an exhaustive match
                else:
                    r = self.decider.decide(self, fn, cd)
                    if r is None and any(x[0] == 'phi' for x in walk(cd.value)):
                        # the tested value merges definitions of several paths (`let v = match b {..}; if let Some(x)
                        # = v`): under the assumption of this case only the definitions on feasible paths exist
                        if special is None:
                            special = dict(edge_conds_at(fn, sb, self.asl) or ())
                        cd2 = special.get(tb)
                        if cd2 is not None and cd2.kind == cd.kind and cd2.outcome == cd.outcome:
                            r = self.decider.decide(self, fn, cd2)
            st[tb] = r
        if any(r is True for r in st.values()):
            st = {tb: (r is True) for tb, r in st.items()}
        else:
            open_ = [tb for tb, r in st.items() if r is not False]
            if len(open_) == 1 and len(st) > 1:
                st[open_[0]] = True
        return st

    def fsuccs(self, fn, b):
        t = fn.blocks[b]['t']
        if t['t'] == 'switch':
            st = self.edge_state(fn, b)
            return [tb for tb in dict.fromkeys(fn.succs(b)) if st.get(tb) is not False]
        return list(fn.succs(b))

    def reach(self, fn):
        if fn.path in self._reach:
            return self._reach[fn.path]
        if fn.path in self._busy:
            self.conservative += 1
            return self._approx.get(fn.path)       # None in the first round: every block counts as feasible
        self._busy.add(fn.path)
        try:
            # a decision whose tested value has to be re-sliced under the case asks for the feasible blocks while they
            # are being computed, and stays open.  The set found that way is a superset of the feasible blocks; with
            # it in hand those decisions can be made, which gives a smaller superset — repeated until nothing changes
            for _round in range(4):
                n0 = self.conservative
                seen, work = set(), [0]
                while work:
                    b = work.pop()
                    if b in seen:
                        continue
                    seen.add(b)
                    work.extend(self.fsuccs(fn, b))
                exact = self.conservative == n0
                if exact or seen == self._approx.get(fn.path):
                    break
                self._approx[fn.path] = seen
        finally:
            self._busy.discard(fn.path)
        if exact or not self._deciding:
            self._reach[fn.path] = seen
        # (else: asked for from inside a decision that is itself still open — a superset; computed again when asked for
        # from outside)
        return seen

    def block_feasible(self, fn, bb):
        r = self.reach(fn)
        return True if r is None else bb in r

    def certain(self, fn, starts, via):
        """every feasible path from the blocks `starts` (definitions of a receiver; the entry if there is none) that
        ends the function or comes back to a start passes through block `via`"""
        if self.reach(fn) is None:
            return False
        starts = list(starts)
        ends = set(fn.return_blocks())
        for s in (starts or [None]):
            if s == via:
                continue
            work = [0] if s is None else list(self.fsuccs(fn, s))
            seen = set()
            while work:
                b = work.pop()
                if b == via or b in seen:
                    continue
                seen.add(b)
                if b in starts or b in ends:
                    return False
                work.extend(self.fsuccs(fn, b))
        return True

    # ---- path events --------------------------------------------------------------------------------
    def events(self, fn, starts, ends, event_of, ret_marker=None, stack=(), marks=None):
        """set of event tuples, one per class of feasible paths from `starts` until a block of `ends` / a return.
        `event_of(spec, fn, call)` -> tuple of events of a call terminator (() for none), or None to descend into the
        workspace callee.  `marks` {block: event}: a path that arrives at such a block ends there with that event
        (the blocks behind a loop, which no feasible path of one iteration may reach: a `break`)"""
        memo, on = {}, set()
        ends = set(ends)
        marks = marks or {}

        def here(b):
            c = fn.call_at(b)
            if c is None:
                return {()}
            ev = event_of(self, fn, c)
            if ev is not None:
                return {tuple(ev)}
            out = set()
            for h in self.prog.callee_fns(c):
                if h.path in stack or h.path == fn.path or len(stack) > 6:
                    out.add((('?recursion', h.path),))
                else:
                    sub = self.for_call(h, [self.to_root(self.asl.operand(fn, a)) for a in c.args])
                    out |= sub.events(h, [0], (), event_of, None, stack + (fn.path,))
            return out or {()}

        def go(b, first=False):
            if b in marks and not first:
                return {(marks[b],)}
            if b in ends and not first:
                return {()}
            if b in on:
                return {(('?inner-loop', b),)}
            if b in memo:
                return memo[b]
            on.add(b)
            hs = here(b)
            t = fn.blocks[b]['t']['t']
            succs = self.fsuccs(fn, b)
            if t in ('ret', 'return'):
                tails = {(ret_marker,)} if ret_marker else {()}
            elif not succs:
                tails = set()      # unreachable / diverging
            else:
                tails = set()
                for s in succs:
                    tails |= go(s)
            res = {h + tl for h in hs for tl in tails}
            if len(res) > 64:
                res = {(('?too-many-paths',),)}
            on.discard(b)
            memo[b] = res
            return res

        out = set()
        for s in starts:
            out |= go(s, True)
        return out


# ---------------------------------------------------------------------------------------------------------------
# the per-delta application and its ownership variants
# ---------------------------------------------------------------------------------------------------------------
LED = 'libcnb::layer_env::LayerEnvDelta'
ENV_T = 'libcnb::env::Env'
_family_cache = {}


def delta_family(prog):
    """(core Fn, frozenset of paths): the per-delta application L.DAPPLY together with the private functions of the
    same shape `(&LayerEnvDelta, Env | &Env) -> Env` that only hand (self, env) on to it / that it only hands
    (self, env) on to — `apply(&self, env: &Env) = self.apply_owned(env.clone())`.  The *core* is the member that does
    the work (the end of the delegation chain).  A member that does anything else than cloning and delegating is not a
    thin wrapper and ends the chain."""
    if _family_cache.get('prog') is prog:
        return _family_cache['res']
    psl = Slicer(prog)
    eo = EnvObjects(prog)

    def functional(f):
        return (f.kind != 'Closure' and f.self_head == LED and f.argc == 2 and f.ret == ENV_T and
                f.args[0] == '&' + LED and f.args[1] in ('&' + ENV_T, ENV_T))

    def cand(f):
        return functional(f) or is_inplace_sig(f)

    def only_calls(f, target):
        """f does nothing but cloning and calling `target` once, without branching"""
        for c in f.calls:
            if c.indirect or not (c.name == target or (c.name or '').endswith(('Clone>::clone', 'Clone::clone'))):
                return False
        return sum(1 for c in f.calls if c.name == target) == 1 and not any(b['t']['t'] == 'switch' for b in f.blocks)

    def delegate_inplace(f):
        """the two ownership bridges between the functional and the in-place form of the application:
             fn apply(&self, env: &Env) -> Env { let mut r = env.clone(); self.apply_in_place(&mut r); r }   (or `mut env: Env`)
             fn apply_in_place(&self, env: &mut Env) { *env = self.apply(env) }
        decided on which environment *object* is handed on and handed back (EnvObjects)"""
        if functional(f):
            cs = [c for c in f.calls if not c.indirect and c.name in prog.fns and c.name != f.path and is_inplace_sig(prog.fns[c.name])]
            if len(cs) != 1 or len(cs[0].args) != 2 or not only_calls(f, cs[0].name):
                return None
            c = cs[0]
            a0 = strip(psl.operand(f, c.args[0]))
            if not (a0[0] == 'param' and a0[1] == f.path and a0[2] == 0):
                return None
            pl = op_place(c.args[1])
            if not pl or not (f.locals[pl[0]].get('ty') or '').startswith('&mut '):
                return None
            obj = eo.operand(f, c.args[1])
            if obj != eo.local(f, 0):
                return None     # what is returned is not the environment the entries were applied to
            if obj == ('param', f.path, 1) and f.args[1] == ENV_T:
                return prog.fns[c.name]
            if obj[0] == 'obj' and obj[1] == f.path and eo.cloned_from(f, obj[2]) == {('param', f.path, 1)}:
                return prog.fns[c.name]
            return None
        if is_inplace_sig(f):
            cs = [c for c in f.calls if not c.indirect and c.name in prog.fns and c.name != f.path and functional(prog.fns[c.name])]
            if len(cs) != 1 or len(cs[0].args) != 2 or not only_calls(f, cs[0].name):
                return None
            c = cs[0]
            a0 = strip(psl.operand(f, c.args[0]))
            if not (a0[0] == 'param' and a0[1] == f.path and a0[2] == 0) or eo.operand(f, c.args[1]) != ('param', f.path, 1):
                return None
            if not c.dest or (len(c.dest) != 1 and c.dest != [2, '*']):
                return None
            # the result is stored through the `&mut Env`: `*env = <result>`, on the way to every return
            tmp = {c.dest[0]} if len(c.dest) == 1 else set()
            stored = []
            for bi, b in enumerate(f.blocks):
                for st in b['s']:
                    if st[0] == '=' and st[2]['r'] == 'use' and op_place(st[2]['o']) and len(op_place(st[2]['o'])) == 1 and op_place(st[2]['o'])[0] in tmp:
                        if len(st[1]) == 1:
                            tmp.add(st[1][0])
                        elif st[1] == [2, '*']:
                            stored.append(bi)
            if c.dest == [2, '*']:
                stored.append(c.bb)
            rets = f.return_blocks()
            if len(stored) == 1 and rets and all(f.dominates(stored[0], r) for r in rets):
                return prog.fns[c.name]
        return None

    def delegate(f):
        g = delegate_inplace(f)
        if g is not None:
            return g
        if not functional(f):
            return None
        rv = strip(psl.local(f, 0))
        if not (rv[0] == 'call' and rv[1] in prog.fns and rv[1] != f.path and len(rv[2]) == 2 and functional(prog.fns[rv[1]])):
            return None
        for i, a in enumerate(rv[2]):
            a = strip(a)
            if not (a[0] == 'param' and a[1] == f.path and a[2] == i):
                return None
        for c in f.calls:
            if c.indirect or not (c.name == rv[1] or (c.name or '').endswith(('Clone>::clone', 'Clone::clone'))):
                return None
        if sum(1 for c in f.calls if c.name == rv[1]) != 1 or any(b['t']['t'] == 'switch' for b in f.blocks):
            return None
        return prog.fns[rv[1]]

    def core_of(f):
        for _ in range(4):
            g = delegate(f)
            if g is None:
                return f
            f = g
        return f

    d = prog.fns.get(L.DAPPLY)
    if d is None:
        res = (None, frozenset())
    else:
        core = core_of(d)
        fam = {core.path, d.path}
        for f in prog.fns.values():
            if f.crate == core.crate and cand(f) and f.path not in fam and core_of(f).path == core.path:
                fam.add(f.path)
        res = (core, frozenset(fam))
    _family_cache['prog'], _family_cache['res'] = prog, res
    return res


def is_dapply(prog, name):
    return name == L.DAPPLY or name in delta_family(prog)[1]


def is_inplace_sig(f):
    """(&LayerEnvDelta, &mut Env) -> (): the shape of a per-delta application that updates the environment in place"""
    return (f.kind != 'Closure' and f.self_head == LED and f.argc == 2 and f.ret == '()' and
            f.args[0] == '&' + LED and f.args[1] == '&mut ' + ENV_T)


def inplace_steps(prog):
    """the members of the delta family that apply a delta to the environment behind a `&mut Env`"""
    return frozenset(p for p in delta_family(prog)[1] if p in prog.fns and is_inplace_sig(prog.fns[p]))


# ---------------------------------------------------------------------------------------------------------------
# R1: the deltas LayerEnv::apply folds, per Scope variant
# ---------------------------------------------------------------------------------------------------------------
ORDER_CHANGING = ('rev', 'reverse', 'sort', 'sort_by', 'sort_by_key', 'sort_unstable', 'sort_unstable_by', 'sort_unstable_by_key',
                  'swap', 'rotate_left', 'rotate_right', 'swap_remove', 'dedup', 'retain')


class ScopeCase:
    def __init__(self, root, variant):
        self.root, self.variant = root, variant

    def decide(self, spec, fn, cd):
        if cd.kind == 'variant' and cd.enum == SCOPE and cd.subject is not None:
            s = strip(spec.to_root(cd.subject))
            if s[0] == 'param' and s[1] == self.root.path and s[2] == 1:
                return self.variant in cd.outcome
        return None


class ScopeEval:
    """the ordered list of delta labels applied for one Scope variant, or None (+ self.why) when the returned value is
    not a left fold of LayerEnvDelta::apply over an ordered collection starting from the input env"""

    def __init__(self, engine, variant, stack=()):
        self.engine = engine
        self.prog = engine.prog
        self.f = engine.root
        self.variant = variant
        self.stack = tuple(stack)      # the scopes LayerEnv::apply is being evaluated for when it calls itself
        self._opt_of = {}
        self.spec = Spec(engine, ScopeCase(engine.root, variant))
        self.asl = self.spec.asl
        self.why = None
        self.shape = None

    def fail(self, why):
        if self.why is None:
            self.why = why
        return None

    def is_step(self, name):
        """the per-delta application, in any of its ownership variants (apply(&env) / apply_owned(env.clone()))"""
        return name is not None and is_dapply(self.prog, name)

    def is_env(self, v):
        v = strip(v)
        return v[0] == 'param' and v[1] == self.f.path and v[2] == 2

    def run(self):
        return self.seq(self.asl.local(self.f, 0), 0)

    # the environment accumulator
    def seq(self, v, d):
        v = strip(v)
        if d > 8:
            return self.fail('too deep')
        if self.is_env(v):
            return []
        if v[0] == 'call' and self.is_step(v[1]) and len(v[2]) == 2:
            base = self.seq(v[2][1], d + 1)
            if base is None:
                return None
            return base + self.labels(v[2][0])
        if v[0] == 'call' and v[1] == 'std::iter::Iterator::fold' and len(v[2]) == 3:
            it, init, cl = v[2]
            body = self.asl.apply_closure(strip(cl), (('sym', 'ACC'), ('sym', 'ELEM')))
            body = strip(body) if body is not None else None
            if not (body is not None and body[0] == 'call' and self.is_step(body[1]) and len(body[2]) == 2
                    and strip(body[2][0]) == ('sym', 'ELEM') and strip(body[2][1]) == ('sym', 'ACC')):
                return self.fail('fold body is not delta.apply(&acc): ' + vstr(body)[:80])
            base = self.seq(init, d + 1)
            els = self.elems(it, 0)
            if base is None or els is None:
                return None
            self.shape = self.shape or 'fold'
            return base + els
        if v[0] == 'phi':
            alts = [strip(a) for a in v[1]]
            cyc = lambda a: any(x == ('unknown', 'cycle') for x in walk(a))
            steps = [a for a in alts if a[0] == 'call' and self.is_step(a[1]) and len(a[2]) == 2 and cyc(a[2][1])]
            inits = [a for a in alts if a not in steps]
            if len(steps) == 1 and inits:
                step = steps[0]
                if strip(step[2][1]) != ('unknown', 'cycle'):
                    # the accumulator itself, seen once more through the loop
                    inner = strip(step[2][1])
                    if not (inner[0] == 'phi' and all(strip(x) in inits or strip(x) == ('unknown', 'cycle') or
                                                      (strip(x)[0] == 'call' and self.is_step(strip(x)[1]) and cyc(x)) for x in inner[1])):
                        return self.fail('loop step does not apply the delta to the accumulator: ' + vstr(step)[:100])
                coll, proj = L.loop_element(step[2][0])
                if coll is None or proj != ():
                    return self.fail('loop step does not apply the loop element: ' + vstr(step[2][0])[:100])
                if not self.loop_ok(step):
                    return None
                bases = [self.seq(a, d + 1) for a in inits]
                if any(b is None for b in bases):
                    return None
                if any(b != bases[0] for b in bases):
                    return self.fail('accumulator starts from different values')
                els = self.elems(coll, 0)
                if els is None:
                    return None
                self.shape = self.shape or 'loop'
                return bases[0] + els
            if all(not cyc(a) for a in alts):
                seqs = [self.seq(a, d + 1) for a in alts]
                if all(s is not None for s in seqs):
                    if all(s == seqs[0] for s in seqs):
                        return seqs[0]
                    # `match map.get(key) { Some(delta) => delta.apply(&acc), None => acc }`
                    short = min(seqs, key=len)
                    longs = [(a, s) for a, s in zip(alts, seqs) if s != short]
                    if all(len(s) == len(short) + 1 and s[:-1] == short and self.optional_step(a, s[-1]) for a, s in longs) and \
                            len({s[-1] for _, s in longs}) == 1:
                        last = longs[0][1][-1]
                        return short + [last[:-len('!unguarded')] + '?' if last.endswith('!unguarded') else last + '!not-a-lookup']
            return self.fail('result is not one fold: ' + vstr(v)[:120])
        if v[0] == 'call' and v[1].startswith('std::option::Option::') and v[1].split('::')[-1] in ('map_or', 'map_or_else') and len(v[2]) == 3:
            # map.get(key).map_or(acc, |delta| delta.apply(&acc))
            o, dflt, cl = v[2]
            if v[1].endswith('map_or_else'):
                dflt = self.asl.apply_closure(strip(dflt), ())
            body = self.asl.apply_closure(strip(cl), (('unwrap', o),))
            if dflt is not None and body is not None:
                s0, s1 = self.seq(dflt, d + 1), self.seq(body, d + 1)
                b = strip(body)
                if s0 is not None and s1 is not None and len(s1) == len(s0) + 1 and s1[:-1] == s0 and s1[-1].endswith('!unguarded') and \
                        b[0] == 'call' and self.is_step(b[1]) and b[2][0] == ('unwrap', o):
                    return s0 + [s1[-1][:-len('!unguarded')] + '?']
            return self.fail('result is not a fold of delta applications from the input env: ' + vstr(v)[:120])
        if v[0] == 'call' and v[1] == self.f.path and len(v[2]) == 3:
            # LayerEnv::apply defined in terms of itself for another, literal scope — `self.apply(Scope::All, env)` is
            # the list of deltas of that scope (evaluated as its own case), applied to what is handed in as env
            me, sc, e = (strip(x) for x in v[2])
            if not (me[0] == 'param' and me[1] == self.f.path and me[2] == 0):
                return self.fail('apply called on another layer environment: ' + vstr(me)[:60])
            if not (sc[0] == 'agg' and sc[1] == SCOPE and sc[2] and not sc[3]):
                return self.fail('apply calls itself with a scope that is not a literal: ' + vstr(sc)[:60])
            if sc[2] == self.variant or sc[2] in self.stack:
                return self.fail('apply calls itself for Scope::%s without end' % sc[2])
            base = self.seq(e, d + 1)
            if base is None:
                return None
            sub = ScopeEval(self.engine, sc[2], self.stack + (self.variant,))
            inner = sub.run()
            if inner is None:
                return self.fail('Scope::%s: %s' % (sc[2], sub.why))
            self.shape = self.shape or sub.shape or 'recursive'
            return base + inner
        if v[0] == 'call' and v[1] in self.prog.fns and self.prog.fns[v[1]].kind != 'Closure' and not self.is_step(v[1]):
            iv = self.asl.inline_call(v)
            if iv is not None:
                return self.seq(iv, d + 1)
        return self.fail('result is not a fold of delta applications from the input env: ' + vstr(v)[:120])

    def optional_step(self, a, label=None):
        """a = delta.apply(acc) where delta is the payload of an Option and the call runs exactly when it is Some — or
        a call of a private helper that ends up applying that payload last (`Some(d) => self.all_then(env, &[d])`):
        what matters is that the alternative is computed exactly when the Option the delta comes from is Some"""
        if not (a[0] == 'call' and len(a) > 3 and a[3]):
            return False
        if self.is_step(a[1]) and a[2][0][0] == 'unwrap':
            return self.guarded_by_some(a[3], a[2][0][1])
        optv = self._opt_of.get(label)
        return optv is not None and a[1] in self.prog.fns and self.guarded_by_some(a[3], optv)

    def loop_ok(self, step):
        """the step is the only delta application inside the loop that yields its element"""
        from .lib.effects import find_loops
        site = step[3] if len(step) > 3 else None
        el = step[2][0]
        while el[0] in ('unwrap', 'updated', 'field'):
            el = el[1]
        nsite = el[3] if el[0] == 'call' and len(el) > 3 else None
        if not site or not nsite or site[0] != nsite[0] or site[0] not in self.prog.fns:
            return self.fail('loop step site not found')
        g = self.prog.fns[site[0]]
        loops = [lp for lp in find_loops(g, self.engine.psl) if lp.header == nsite[1] and site[1] in lp.body]
        if len(loops) != 1:
            return self.fail('delta application is not inside the loop over the deltas')
        inside = [c for c in g.calls if self.is_step(c.name) and c.bb in loops[0].body and self.spec.block_feasible(g, c.bb)]
        if len(inside) != 1:
            return self.fail('%d delta applications inside the loop' % len(inside))
        return True

    # elements of an ordered collection
    def elems(self, v, d):
        if d > 10:
            return self.fail('too deep')
        if v[0] in ('unwrap', 'updated'):
            return self.elems(v[1], d + 1)
        k = v[0]
        if k == 'array':
            return [l for x in v[1] for l in self.labels(x)]
        if k == 'agg' and v[1] == 'std::option::Option':
            return [self.label(v[3][0][1])] if v[2] == 'Some' else []
        if k == 'concat':
            base = self.elems(v[1], d + 1)
            if base is None:
                return None
            out = list(base)
            for p in v[2]:
                site = p[3]
                kind = site[3] if len(site) > 3 else 'push'
                if kind in ('other', 'take'):
                    return self.fail('collection changed by ' + vstr(p[2][0])[:80])
                if kind == 'extend':
                    if p[1] == MAYBE:
                        return self.fail('collection extended on some paths only')
                    more = self.elems(p[2][0], d + 1)
                    if more is None:
                        return None
                    out.extend(more)
                else:
                    out.append(self.label(p[2][0], maybe=(site if p[1] == MAYBE else None)))
            return out
        if k == 'phi':
            seqs = [self.elems(x, d + 1) for x in v[1]]
            if all(s is not None for s in seqs) and all(s == seqs[0] for s in seqs):
                return seqs[0]
            return self.fail('collection differs between paths: ' + vstr(v)[:100])
        if k == 'call':
            n, args = v[1], v[2]
            tail = n.split('::')[-1]
            if tail in ORDER_CHANGING:
                return self.fail('order changed by ' + n)
            if n in ('std::iter::empty',) or (not args and tail in ('new', 'default', 'with_capacity')) or (tail == 'with_capacity' and 'Vec' in n):
                return []
            if n == 'std::iter::once' and len(args) == 1:
                return self.labels(args[0])
            if n == iters.IT + 'chain' and len(args) == 2:
                a, b = self.elems(args[0], d + 1), self.elems(args[1], d + 1)
                return None if a is None or b is None else a + b
            if (n in iters.COLLECTING or n in (iters.IT + 'peekable', iters.IT + 'fuse', iters.IT + 'by_ref', iters.IT + 'cloned', iters.IT + 'copied')
                    or (iters._is_source(n) and n.endswith(iters.SAME_ELEMS) and len(args) == 1)) and args:
                return self.elems(args[0], d + 1)
            if n == iters.IT + 'flatten' and len(args) == 1:
                # [Some(a), map.get(k), None].into_iter().flatten(): the elements of the members, in member order
                outer = strip(args[0])
                while outer[0] == 'call' and len(outer[2]) == 1 and iters._is_source(outer[1]) and outer[1].endswith(iters.SAME_ELEMS):
                    outer = strip(outer[2][0])
                if outer[0] != 'array':
                    return self.fail('flatten over something else than a literal array: ' + vstr(outer)[:100])
                out = []
                for member in outer[1]:
                    more = self.elems(strip(member), d + 1)
                    if more is None:
                        return None
                    out.extend(more)
                return out
            if n == iters.IT + 'map' and len(args) == 2:
                r = self.asl.apply_closure(strip(args[1]), (('sym', 'ELEM'),))
                if r is not None and strip(r) == ('sym', 'ELEM'):
                    return self.elems(args[0], d + 1)
            if tail == 'get' and len(args) == 2 and L.self_field(self.f, args[0]) is not None:
                # an Option iterated: nothing, or the delta found under the key
                return [self.label(('unwrap', v), present_only=True)]
            if n in self.prog.fns and self.prog.fns[n].kind != 'Closure':
                iv = self.asl.inline_call(v)
                if iv is not None:
                    return self.elems(iv, d + 1)
        return self.fail('not an ordered literal collection: ' + vstr(v)[:120])

    def is_noop_delta(self, v):
        """v is a delta without entries that nothing was inserted into (a null object: `LayerEnvDelta::new()` kept in a
        local) — applying it is the identity (R5: every insert belongs to one entry; R6: the result is the accumulator
        that started as the input env), so it contributes no delta to the list"""
        if any(x[0] in ('updated', 'concat', 'phi', 'unknown') for x in walk(v)):
            return False
        return is_fresh_delta(self.asl, v)

    def labels(self, v):
        """the deltas one applied operand stands for: [] for the null object, [`process[..]?`] for the delta found under
        the process name with the null object as the fallback (`map.get(p).unwrap_or(&empty)` = applied when present),
        else the one label"""
        s = strip(v)
        if self.is_noop_delta(v):
            self.shape = self.shape or 'nested'
            return []
        if s[0] == 'call' and s[1].startswith('std::option::Option::') and len(s[2]) >= 2:
            t = s[1].split('::')[-1]
            o, dflt, pay = s[2][0], None, None
            if t == 'unwrap_or' and len(s[2]) == 2:
                dflt, pay = s[2][1], ('unwrap', o)
            elif t == 'unwrap_or_else' and len(s[2]) == 2:
                dflt, pay = self.asl.apply_closure(strip(s[2][1]), ()), ('unwrap', o)
            elif t in ('map_or', 'map_or_else') and len(s[2]) == 3:
                dflt = s[2][1] if t == 'map_or' else self.asl.apply_closure(strip(s[2][1]), ())
                pay = self.asl.apply_closure(strip(s[2][2]), (('unwrap', o),))
            if dflt is not None and pay is not None and self.is_noop_delta(dflt) and strip(pay) == strip(('unwrap', o)):
                so = strip(o)
                if so[0] == 'call' and so[1].split('::')[-1] == 'get' and len(so[2]) == 2 and L.self_field(self.f, so[2][0]) is not None:
                    return [self.label(('unwrap', o), present_only=True)]
        return [self.label(v)]

    def label(self, v, maybe=None, present_only=False):
        """name of a delta: the field of self, or `process[scope.process]?` for the delta found under the process name
        (`?`: skipped when there is none)"""
        s = strip(v)
        fld = L.self_field(self.f, s)
        if fld is not None and maybe is None:
            return fld
        if s[0] == 'call' and s[1].split('::')[-1] == 'get' and len(s[2]) == 2 and L.self_field(self.f, s[2][0]) is not None:
            key = strip(s[2][1])
            keyok = key[0] == 'field' and key[2] == '0' and key[1][0] == 'variant' and key[1][2] == 'Process' and \
                strip(key[1][1])[0] == 'param' and strip(key[1][1])[1] == self.f.path and strip(key[1][1])[2] == 1
            desc = '%s[%s]' % (L.self_field(self.f, s[2][0]), 'scope.process' if keyok else '?')
            if present_only:
                return desc + '?'
            if maybe is not None and v[0] == 'unwrap' and self.guarded_by_some(maybe, v[1]):
                return desc + '?'
            self._opt_of[desc + '!unguarded'] = s      # the Option the delta is the payload of
            return desc + '!unguarded'
        if maybe is not None:
            return 'maybe(%s)' % vstr(s)[:60]
        return vstr(s)[:60]

    def guarded_by_some(self, site, optv):
        """the push at `site` runs exactly when optv is Some: the only undecided decision above it"""
        g = self.prog.fns.get(site[0])
        if g is None:
            return False
        und = []
        for cd in conditions(g, site[1], self.engine.psl):
            if self.spec.decider.decide(self.spec, g, cd) is None:
                und.append(cd)
        if not (len(und) == 1 and und[0].kind == 'variant' and und[0].enum == 'std::option::Option' and und[0].outcome == frozenset({'Some'})
                and und[0].subject is not None):
            return False
        want = canon(strip(optv))
        # (inside a private helper the subject is in the helper's terms: its parameters are bound to what apply hands in)
        return canon(strip(und[0].subject)) == want or canon(strip(self.spec.to_root(und[0].subject))) == want


def order_changing_calls(prog, f):
    """calls that reorder a collection, in f and in the private functions it enters (other than the delta application)"""
    out = []
    region = prog.reach([f], stop=lambda g: is_dapply(prog, g.path))
    for g in region.values():
        if is_dapply(prog, g.path) or g.crate != f.crate:
            continue
        for c in g.calls:
            if (c.name or '').split('::')[-1] in ORDER_CHANGING:
                out.append(c)
    return out


def scope_tables(prog):
    """({variant: [labels] | None}, {variant: reason}, {variant: 'fold'|'loop'|None}) of LayerEnv::apply"""
    f = prog.fn(L.APPLY)
    eng = Engine(prog, f, env_steps=inplace_steps(prog))
    table, why, shape = {}, {}, {}
    for v in prog.adt(SCOPE)['variants']:
        name = v['name']
        ev = ScopeEval(eng, name)
        table[name] = ev.run()
        why[name] = ev.why
        shape[name] = ev.shape
    return f, table, why, shape


# ---------------------------------------------------------------------------------------------------------------
# R2: the ranks Ord for ModificationBehavior compares
# ---------------------------------------------------------------------------------------------------------------
def rank_table(prog, sl, cmpf):
    """(rank helper Fn | None, {variant: rank}, cmp is rank(self).cmp(rank(other)), rendering) from the normal form of
    Ord::cmp: private helpers inlined, `b.cmp(a).reverse()` turned around"""
    raw = strip(sl.local(cmpf, 0))
    rv = strip(sl.inline_deep(raw))
    while rv[0] == 'call' and rv[1].endswith('Ordering::reverse') and len(rv[2]) == 1 and strip(rv[2][0])[0] == 'call' \
            and strip(rv[2][0])[1].endswith('::cmp') and len(strip(rv[2][0])[2]) == 2:
        inner = strip(rv[2][0])
        rv = ('call', inner[1], (inner[2][1], inner[2][0]), inner[3] if len(inner) > 3 else None)
    shown = vstr(rv)[:160]
    if not (rv[0] == 'call' and rv[1].endswith('::cmp') and len(rv[2]) == 2):
        return None, {}, False, shown
    tables, subjects = [], []
    for a in rv[2]:
        a = strip(a)
        while a[0] == 'cast':
            a = strip(a[1])
        if a[0] == 'discr':
            # the variants compared by their discriminants (derived Ord, `*self as u8`): the rank is the discriminant
            tables.append({v['name']: v['discr'] for v in prog.adt(MB)['variants'] if isinstance(v.get('discr'), int)})
            subjects.append(strip(a[1]))
            continue
        if not (a[0] == 'select' and a[2] == MB):
            return None, {}, False, shown
        t = {}
        for names, val in a[3]:
            val = strip(val)
            while val[0] == 'cast':
                val = strip(val[1])
            for n in names:
                if val[0] == 'const' and isinstance(val[1], int) and not isinstance(val[1], bool):
                    t[n] = val[1]
        tables.append(t)
        subjects.append(strip(a[1]))
    good = tables[0] == tables[1] and all(s[0] == 'param' and s[1] == cmpf.path for s in subjects) and \
        subjects[0][2] == 0 and subjects[1][2] == 1
    ifn = None
    for x in walk(raw):
        if x[0] == 'call' and x[1] in prog.fns and prog.fns[x[1]].kind != 'Closure':
            ifn = prog.fns[x[1]]
            break
    return ifn, tables[0], good, shown


def suffix_table(prog, sl):
    """(writer Fn, {variant: file suffix}, info) — layer_env_common.writer_suffix_table, and when that does not find
    the five suffixes because the file name is not computed where the file is written: the same table read off the
    *element* of the collection of planned files the write loop ranges over (planned_suffix_table)"""
    wd, ws, winfo = L.writer_suffix_table(prog, sl)
    if len(ws) == 5:
        return wd, ws, winfo
    try:
        ws2 = planned_suffix_table(prog, sl)
    except Exception:
        ws2 = {}
    if len(ws2) == 5:
        return wd, ws2, winfo
    try:
        ws3 = lookup_suffix_table(prog, sl)
    except Exception:
        ws3 = {}
    best = max((ws, ws2, ws3), key=len)
    return wd, best, winfo


def table_lookup_select(prog, sl, v):
    """a `match` written as a lookup in a literal table of rows: `TABLE.iter().find(|row| row.i == subject)` followed by a
    projection of the row found (`.map(|row| row.j)` + unwrap / expect / `?`, `.map_or_else(|| unreachable!(), ..)`), as
    the select value ('select', subject, enum, ((variants, value)..)) the match would have been.  The key column must
    hold literal variants of one enum, pairwise distinct (find returns the first hit), compared with the enum's derived
    equality; a fallback for "not found" is only ignored when the key column covers every variant.  None: not that"""
    v = strip(v)
    if not (v[0] == 'call' and v[1].startswith('std::option::Option::')):
        return None
    t = _tail(v[1])
    if t == 'map' and len(v[2]) == 2:
        o, dflt, cl = v[2][0], None, v[2][1]
    elif t in ('map_or', 'map_or_else') and len(v[2]) == 3:
        o, dflt, cl = v[2]
    else:
        return None
    o = strip(o)
    if not (o[0] == 'call' and o[1] == iters.IT + 'find' and len(o[2]) == 2):
        return None
    src, pred = strip(o[2][0]), strip(o[2][1])
    while src[0] == 'call' and len(src[2]) == 1 and iters._is_source(src[1]) and src[1].endswith(iters.SAME_ELEMS):
        src = strip(src[2][0])
    if not (src[0] == 'array' and src[1] and all(strip(r)[0] == 'tuple' for r in src[1])) or pred[0] != 'closure' or strip(cl)[0] != 'closure':
        return None
    rows = [strip(r)[1] for r in src[1]]
    ROW = ('sym', 'ROW')
    test = sl.apply_closure(pred, (ROW,))
    proj = sl.apply_closure(strip(cl), (ROW,))
    if test is None or proj is None:
        return None
    test, proj = strip(test), conv_root(proj)
    if not (test[0] == 'call' and _tail(test[1]) == 'eq' and len(test[2]) == 2 and 'PartialEq' in test[1]):
        return None
    a, b = conv_root(test[2][0]), conv_root(test[2][1])
    if b[0] == 'field' and strip(b[1]) == ROW:
        a, b = b, a
    if not (a[0] == 'field' and strip(a[1]) == ROW and a[2].isdigit() and ROW not in list(walk(b))):
        return None
    if not (proj[0] == 'field' and strip(proj[1]) == ROW and proj[2].isdigit()):
        return None
    ki, vi = int(a[2]), int(proj[2])
    if any(ki >= len(r) or vi >= len(r) for r in rows):
        return None
    keys = [strip(r[ki]) for r in rows]
    if not all(k[0] == 'agg' and k[2] and not k[3] for k in keys) or len({k[1] for k in keys}) != 1:
        return None
    enum = keys[0][1]
    eqf = [f for f in prog.fns.values() if f.path.startswith('<%s as ' % enum) and f.path.endswith('PartialEq>::eq')]
    if any(not f.derived for f in eqf):
        return None     # a hand-written equality: the row found is not decided by the variant alone
    names = [k[2] for k in keys]
    if len(set(names)) != len(names):
        return None
    adt = prog.adt(enum)
    total = adt is not None and {x['name'] for x in adt['variants']} == set(names)
    if dflt is not None and not total:
        return None
    return ('select', b, enum, tuple(((n,), strip(r[vi])) for n, r in zip(names, rows)))


def lookup_suffix_table(prog, sl):
    """{variant: suffix} read off the file name of the writer's WRITE effect like layer_env_common.writer_suffix_table,
    with the behaviour -> suffix mapping also accepted as a lookup in a literal table (table_lookup_select) and with
    constant text between the variable name and the mapped part counted as part of the suffix (`name + "." + suffix`)"""
    from .lib.effects import Effects
    L.resolve_roles(prog, sl)
    f = prog.fn(L.W_DIR)
    E = Effects(prog, sl)
    root = L.param_pred(f, 1)
    tables = []
    for e in E.expand(f, 'may'):
        if e.kind != 'WRITE' or e.path is None:
            continue
        cs = L.comps(sl.inline_deep(e.path), root)
        if cs is None or len(cs) != 1 or isinstance(cs[0], str):
            return {}
        rendered, rows, prefix = [], {}, ''
        for x in L.string_parts(sl, cs[0]):
            x = strip(x)
            coll, proj = L.loop_element(x)
            if coll is not None and L.self_field(f, coll) == 'entries' and proj == ('0', '1'):
                rendered.append('NAME')
                continue
            if x[0] == 'const' and isinstance(x[1], str) and rendered == ['NAME']:
                prefix += x[1]
                continue
            sel = x if x[0] == 'select' else table_lookup_select(prog, sl, x)
            if sel is not None and sel[2] == MB:
                c2, p2 = L.loop_element(conv_root(sel[1]))
                if c2 is not None and L.self_field(f, c2) == 'entries' and p2 == ('0', '0'):
                    rendered.append('SUFFIX')
                    for names, val in sel[3]:
                        val = strip(val)
                        for n in names:
                            if val[0] == 'const' and isinstance(val[1], str) and n not in rows:
                                rows[n] = prefix + val[1]
                    continue
            rendered.append('?')
        if rendered != ['NAME', 'SUFFIX']:
            return {}
        tables.append(rows)
    if not tables or any(t != tables[0] for t in tables):
        return {}
    return tables[0]


def _collection_elements(psl, coll, depth=0):
    """values of the elements of an ordered collection that is built before it is iterated: what is pushed onto a
    Vec (each push site one alternative), the results of map / filter_map closures of a collected iterator chain,
    through private functions that return the collection.  None: not understood"""
    coll = strip(coll)
    if depth > 4:
        return None
    if coll[0] == 'concat':
        out = []
        for p in coll[2]:
            if not (p[0] == 'call' and p[1] in (PUSH, MAYBE) and len(p) > 3 and p[3] and (len(p[3]) < 4 or p[3][3] == 'push')):
                return None
            out.append(p[2][0])
        base = strip(coll[1])
        if not (coll[3] or (base[0] == 'call' and base[1].split('::')[-1] in ('new', 'with_capacity', 'default'))):
            more = _collection_elements(psl, base, depth + 1)
            if more is None:
                return None
            out = more + out
        return out
    if coll[0] == 'call' and coll[1] in psl.prog.fns and psl.prog.fns[coll[1]].kind != 'Closure':
        iv = psl.inline_call(coll)
        return _collection_elements(psl, iv, depth + 1) if iv is not None else None
    if coll[0] == 'call':
        al = iters.alts(psl, coll)
        if al and not iters.trivial(al, coll):
            out = []
            for e, forall, fl in al:
                if forall is not None and strip(forall)[0] == 'call' and strip(forall)[1] in psl.prog.fns:
                    more = _collection_elements(psl, forall, depth + 1)
                    if more is None:
                        return None
                    out.extend(more)
                else:
                    out.append(e)
            return out
    return None


def _name_parts(psl, v, depth=0):
    """the pieces a string is put together from, in order (PSlicer values: pushes carry their site)"""
    v = strip(v)
    if depth > 6:
        return [v]
    if v[0] == 'concat':
        out = [] if v[3] else _name_parts(psl, v[1], depth + 1)
        for p in v[2]:
            if p[0] == 'call' and p[1] == PUSH and len(p[2]) == 1:
                out.extend(_name_parts(psl, p[2][0], depth + 1))
            elif p[0] == 'call' and p[1] in (MAYBE, TAKE):
                out.append(('unknown', 'pushed on some paths only'))
            else:
                out.extend(_name_parts(psl, p, depth + 1))
        return out
    if v[0] == 'call' and len(v[2]) == 1 and v[1].endswith(KEEP):
        return _name_parts(psl, v[2][0], depth + 1)
    if v[0] == 'call' and v[1].endswith(FRESH) and not v[2]:
        return []
    if v[0] == 'call' and v[1] in psl.prog.fns and psl.prog.fns[v[1]].kind != 'Closure':
        iv = psl.inline_call(v)
        if iv is not None and canon(iv) != canon(v):
            return _name_parts(psl, iv, depth + 1)
    return [v]


def planned_suffix_table(prog, sl):
    """{variant: suffix} of the files the per-directory writer creates when it works in two phases — first the list of
    (file name, contents) for every entry, then one write per element of that list (a private function returning a Vec
    filled in a loop, or a collected map over the entries): the file name of the WRITE effect is a projection of the
    loop element; the element is what was pushed / mapped, whose name component must be
    [variable name of the entry] + select(behaviour of the same entry){variant => suffix}"""
    from .lib.effects import Effects
    L.resolve_roles(prog, sl)
    f = prog.fn(L.W_DIR)
    psl = PSlicer(prog)
    E = Effects(prog, sl)
    root = L.param_pred(f, 1)
    tables = []
    for e in E.expand(f, 'may'):
        if e.kind != 'WRITE' or e.path is None:
            continue
        cs = L.comps(e.path, root)
        if cs is None or len(cs) != 1 or isinstance(cs[0], str):
            return {}
        coll, proj = L.loop_element(cs[0])
        if coll is None:
            return {}
        if coll[0] not in ('call', 'concat'):
            return {}
        # the collection, with the pushes that fill it (the library slicer does not describe vectors by content)
        if coll[0] == 'call' and coll[1] not in prog.fns:
            site = coll[3] if len(coll) > 3 else None
            c = prog.fns[site[0]].call_at(site[1]) if site and site[0] in prog.fns else None
            if c is not None:
                coll = psl._call_value(prog.fns[site[0]], c, set(), 0)
        elems = _collection_elements(psl, coll)
        if not elems:
            return {}
        for el in elems:
            name = EntryView.proj_of(strip(el), proj)
            if name[0] == 'field':
                name = psl._field(name[1], name[2])
            rows, rendered = {}, []
            for x in _name_parts(psl, name):
                c1, p1 = L.loop_element(x)
                if c1 is not None and L.self_field(f, c1) == 'entries' and p1 == ('0', '1'):
                    rendered.append('NAME')
                elif x[0] == 'select' and x[2] == MB:
                    c2, p2 = L.loop_element(x[1])
                    if c2 is not None and L.self_field(f, c2) == 'entries' and p2 == ('0', '0'):
                        rendered.append('SUFFIX')
                        for names, val in x[3]:
                            val = strip(val)
                            for n in names:
                                if val[0] == 'const' and isinstance(val[1], str) and n not in rows:
                                    rows[n] = val[1]
                    else:
                        rendered.append('?')
                else:
                    rendered.append('?')
            if rendered != ['NAME', 'SUFFIX']:
                return {}
            tables.append(rows)
    if not tables or any(t != tables[0] for t in tables):
        return {}
    return tables[0]


# ---------------------------------------------------------------------------------------------------------------
# R5: what LayerEnvDelta::apply inserts, per (behaviour, previous value, delimiter entry)
# ---------------------------------------------------------------------------------------------------------------
BEHAVIOURS = ('Append', 'Default', 'Delimiter', 'Override', 'Prepend')
PREV_STATES = ('unset', 'empty', 'nonempty')
DELIM_STATES = ('set', 'unset')
FRESH = ('OsString::new', 'String::new', 'Default>::default', 'Default::default', 'PathBuf::new')
KEEP = ('Clone>::clone', 'Clone::clone', 'ToOwned>::to_owned', 'ToOwned::to_owned', 'to_os_string', 'to_owned', 'Into::into', 'From::from',
        'into_os_string', 'as_os_str')


def spec_case(b, p, d):
    """the CNB rule: the value inserted under the entry's name (atoms), or None when nothing is inserted"""
    delim = ('DELIM',) if d == 'set' else ()
    if b == 'Override':
        return ('VALUE',)
    if b == 'Default':
        return ('VALUE',) if p == 'unset' else None
    if b == 'Append':
        return ('PREV',) + delim + ('VALUE',) if p == 'nonempty' else ('VALUE',)
    if b == 'Prepend':
        return ('VALUE',) + delim + ('PREV',) if p == 'nonempty' else ('VALUE',)
    return None


def unknown(v):
    return ('?' + (vstr(v)[:70] if isinstance(v, tuple) else str(v)),)


class ArmCase:
    """assumption: the entry being applied has behaviour B, the variable is unset / empty / non-empty in the
    environment built so far, and the delta has / has not a Delimiter entry for the variable"""

    def __init__(self, root, b, p, d, view=None):
        self.root, self.B, self.P, self.D = root, b, p, d
        self.view = view        # EntryView of the loop being evaluated: a filter / map view of self.entries
        # a view whose element depends on the case (EntryView.bind_case): what the loop element *is* for an entry of
        # this case, in terms of ('sym', 'ENTRY'), and the parameters of the closures of the view that stand for it
        self.elem_value = None
        self.cbind = {}

    # ---- the loop element under this case ----------------------------------------------------------------
    def refine(self, spec, v):
        """v (root terms) with the element of a case-dependent view of the entries replaced by what it is in this
        case — `entries.iter().filter_map(|((b, n), v)| match b { Override => Some(Op::Set { n, v }), .. })` yields
        `Op::Set { name: ENTRY.0.1, value: ENTRY.1 }` for an Override entry — and projections of it re-normalised"""
        if self.cbind:
            v = subst(v, self.cbind, spec.engine.psl)
        if self.elem_value is not None:
            v = self._replace_elem(v, spec.engine.psl)
        return v

    def _is_view_elem(self, v):
        if v[0] != 'unwrap' or self.view is None or self.view.coll_key is None:
            return False
        coll, proj = L.loop_element(v)
        return coll is not None and proj == () and canon(coll) == self.view.coll_key

    def _replace_elem(self, v, psl):
        if not isinstance(v, tuple) or not v or v[0] in ('const', 'param', 'fnitem', 'constitem', 'unknown', 'closure_env', 'upvar', 'sym'):
            return v
        if self._is_view_elem(v):
            return self.elem_value
        out, changed = [], False
        for x in v:
            if isinstance(x, tuple):
                y = self._replace_elem(x, psl)
                changed = changed or (y is not x)
                out.append(y)
            else:
                out.append(x)
        if not changed:
            return v
        nv = tuple(out)
        if nv[0] == 'field' and nv[1][0] in ('agg', 'tuple', 'closure', 'phi', 'updated'):
            return psl._field(nv[1], nv[2])
        if nv[0] == 'variant' and nv[1][0] in ('agg', 'phi'):
            return psl._variant(nv[1], nv[2])
        return nv

    def adt(self, spec, v, d=0):
        """v as a literal enum value ('agg', adt, variant, fields) in this case, else None"""
        if d > 8 or not isinstance(v, tuple) or not v:
            return None
        if v[0] == 'updated':
            return self.adt(spec, v[1], d + 1)
        if v[0] == 'agg' and v[1] is not None and v[2] is not None:
            return v
        if v[0] == 'phi':
            rs = [self.adt(spec, x, d + 1) for x in v[1]]
            return rs[0] if all(r is not None and r[1] == rs[0][1] and r[2] == rs[0][2] for r in rs) else None
        if v[0] == 'select' and v[2] == MB and self.is_behaviour(v[1]):
            for names, val in v[3]:
                if self.B in names:
                    return self.adt(spec, val, d + 1)
            return None
        if v[0] == 'unwrap':
            o = self.opt(spec, v[1], None, d + 1)
            return self.adt(spec, o[1], d + 1) if o is not None and o[0] == 'some' else None
        if v[0] == 'call':
            iv = self.inline(spec, v)
            if iv is not None:
                return self.adt(spec, iv, d + 1)
        return None

    # ---- classification of root-level values ---------------------------------------------------------
    def entry_proj(self, v):
        coll, proj = L.loop_element(v)
        if coll is not None and L.self_field(self.root, coll) == 'entries':
            return proj
        if coll is not None and self.view is not None and self.view.mapped and canon(coll) == self.view.coll_key:
            # the element of a view of the entries (`entries.iter().filter(..).map(|((_, n), v)| (n, v))`)
            if proj == ():
                return ()
            v = self.view.project(proj)
        s = v
        projs = []
        while s[0] in ('field', 'updated', 'unwrap'):
            if s[0] == 'field':
                projs.append(s[2])
            s = s[1]
        if s == ('sym', 'ENTRY'):
            return tuple(reversed(projs))
        return None

    def is_behaviour(self, v):
        if self.entry_proj(v) == ('0', '0'):
            return True
        # a value the view of the entries being iterated only lets through entries of equal behaviour for
        # (`.filter(|((b, _), _)| b == wanted)`: inside the loop `wanted` is the entry's behaviour)
        return self.view is not None and bool(self.view.alias_keys) and canon(strip(v)) in self.view.alias_keys

    psl = None      # the engine's slicer (set by arm_cases): lets is_env look through private helpers
    overlay = None  # Overlay of a staged application: the environment built so far is the input env overlaid with it

    where = None    # staged application, variable set: 'staged' (its value is in the overlay) | 'base' (in the input env)

    def is_env(self, v, d=0, inner=False):
        """v is the environment the delta is applied to (clones are transparent to the value slicer): the parameter of
        the root, also when it is carried around a loop (`phi(env | <cycle>)`) or threaded through private helpers that
        take an environment and hand it back (`env = self.apply_entry(env, ..)`) — which *object* that is, is R6's"""
        v = strip(v)
        if v[0] == 'param' and v[1] == self.root.path and v[2] == 1:
            return True
        if d > 6:
            return False
        if v == ('unknown', 'cycle'):
            return inner
        if v[0] == 'phi':
            alts = [strip(a) for a in v[1]]
            return any(a != ('unknown', 'cycle') for a in alts) and all(self.is_env(a, d + 1, True) for a in alts)
        if v[0] == 'call' and self.psl is not None and v[1] in self.psl.prog.fns and self.psl.prog.fns[v[1]].kind != 'Closure' \
                and self.psl.prog.fns[v[1]].ret == ENV_T and v[1] != self.root.path:
            iv = self.psl.inline_call(v)
            return iv is not None and canon(iv) != canon(v) and self.is_env(iv, d + 1, inner)
        return False

    def is_name(self, spec, v, at):
        return self.atoms(spec, v, at) == ('NAME',)

    # ---- decisions -------------------------------------------------------------------------------------
    def decide(self, spec, fn, cd):
        at = (fn, cd.sw_bb)
        if cd.kind == 'variant' and cd.subject is not None:
            subj = spec.to_root(cd.subject)
            if cd.enum == MB:
                return (self.B in cd.outcome) if self.is_behaviour(subj) else None
            if cd.enum == 'std::option::Option':
                if self.entry_proj(('unwrap', subj)) == ():
                    return 'Some' in cd.outcome      # the entry exists
                o = self.opt(spec, subj, at)
                if o is None:
                    return None
                return ('Some' if o[0] == 'some' else 'None') in cd.outcome
            # a `match` on a value of some other (private) enum that is a literal variant in this case: the operation
            # an entry of this behaviour was translated into
            a = self.adt(spec, subj)
            if a is not None and a[1] == cd.enum:
                return a[2] in cd.outcome
            return None
        if cd.kind == 'bool':
            b = self.boolv(spec, spec.to_root(cd.value), at)
            return None if b is None else (b == cd.outcome)
        return None

    # ---- helpers ------------------------------------------------------------------------------------------
    def apply(self, spec, clv, args):
        clv = strip(clv) if clv[0] in ('unwrap', 'updated') else clv
        r = spec.asl.apply_closure(clv, tuple(args))
        return r

    def inline(self, spec, v):
        g = spec.prog.fns.get(v[1]) if v[0] == 'call' else None
        if g is None or g.kind == 'Closure' or g.path == self.root.path:
            return None
        return spec.for_call(g, list(v[2])).asl.inline_call(v)

    def is_delim_table(self, spec, v):
        """v is a name -> delimiter map of this delta: the (name, value) pairs of exactly the Delimiter entries"""
        cur = strip(v)
        stages = []
        for _ in range(12):
            if cur[0] != 'call' or not cur[2]:
                break
            n, args = cur[1], cur[2]
            if n in iters.COLLECTING or n in iters.SAME or (iters._is_source(n) and n.endswith(iters.SAME_ELEMS) and len(args) == 1):
                cur = strip(args[0])
            elif n in (iters.IT + 'map', iters.IT + 'filter', iters.IT + 'filter_map') and len(args) == 2:
                stages.append((n, strip(args[1])))
                cur = strip(args[0])
            else:
                break
        if L.self_field(self.root, cur) != 'entries' or not stages:
            return False
        elem = ('sym', 'ENTRY')
        preds = []
        for n, cl in reversed(stages):
            r = spec.asl.apply_closure(cl, (elem,))
            if r is None:
                return False
            if n.endswith('filter'):
                preds.append(r)
            elif n.endswith('::map'):
                elem = r
            else:
                r = strip(r) if r[0] == 'updated' else r
                if r[0] == 'call' and r[1].split('::')[-1] == 'then_some' and len(r[2]) == 2:
                    preds.append(r[2][0])
                    elem = r[2][1]
                elif r[0] == 'call' and r[1].split('::')[-1] == 'then' and len(r[2]) == 2:
                    preds.append(r[2][0])
                    elem = spec.asl.apply_closure(strip(r[2][1]), ())
                    if elem is None:
                        return False
                else:
                    return False
        if len(preds) != 1 or not self._is_delimiter_test(preds[0]):
            return False
        e = elem
        while e[0] == 'updated':
            e = e[1]
        return e[0] == 'tuple' and len(e[1]) == 2 and self.entry_proj(e[1][0]) == ('0', '1') and self.entry_proj(e[1][1]) == ('1',)

    def _is_delimiter_test(self, p):
        neg = False
        while p[0] == 'un' and p[1] == 'Not':
            p, neg = p[2], not neg
        if p[0] == 'select' and p[2] == MB and self.is_behaviour(p[1]):
            true = {n for ns, rv in p[3] if rv == ('const', not neg) for n in ns}
            rest_ok = all(rv[0] == 'const' and isinstance(rv[1], bool) for _, rv in p[3])
            return rest_ok and true == {'Delimiter'}
        if p[0] == 'call' and p[1].endswith(('::eq', '::ne')) and len(p[2]) == 2:
            if p[1].endswith('::ne'):
                neg = not neg
            a, b = strip(p[2][0]), strip(p[2][1])
            for x, y in ((a, b), (b, a)):
                if self.is_behaviour(x) and y[0] == 'agg' and y[1] == MB and y[2] == 'Delimiter':
                    return not neg
        return False

    # ---- Option algebra --------------------------------------------------------------------------------
    def _uses_payload_of_none(self, spec, v, at, d):
        if d > 10:
            return False
        for x in walk(v):
            if x[0] == 'unwrap' and isinstance(x[1], tuple) and x[1] and x[1][0] == 'call' and _tail(x[1][1]) in ('get', 'or', 'or_else') \
                    and self.opt(spec, x[1], at, d + 2) == ('none',):
                return True
        return False

    def opt(self, spec, v, at=None, d=0):
        """('none',) | ('some', payload value) | None (unknown)"""
        if d > 14 or not isinstance(v, tuple) or not v:
            return None
        k = v[0]
        if k == 'updated':
            return self.opt(spec, v[1], at, d + 1)
        if k == 'agg' and v[1] == 'std::option::Option':
            return ('some', v[3][0][1]) if v[2] == 'Some' and v[3] else ('none',)
        if k == 'phi':
            rs = [self.opt(spec, x, at, d + 1) for x in v[1]]
            if all(r is not None for r in rs) and all(canon(r) == canon(rs[0]) for r in rs):
                return rs[0]
            # an alternative that uses the payload of an Option which is None in this case belongs to a path that is
            # not taken (`match staged.get(k) { Some(v) => Some(v), None => env.get(k) }`): the others decide
            live = [r for x, r in zip(v[1], rs) if not self._uses_payload_of_none(spec, x, at, d)]
            if live and len(live) < len(rs) and all(r is not None for r in live) and all(canon(r) == canon(live[0]) for r in live):
                return live[0]
            return None
        if k == 'select' and v[2] == MB and self.is_behaviour(v[1]):
            for names, val in v[3]:
                if self.B in names:
                    return self.opt(spec, val, at, d + 1)
            return None
        if k != 'call':
            return None
        n, args = v[1], v[2]
        tail = n.split('::')[-1]
        if n == ENV_GET and len(args) == 2 and self.is_env(args[0]) and self.is_name(spec, args[1], at):
            if self.overlay is not None:
                # staged application: the environment built so far is the input env overlaid with the staging map.  A
                # variable that is unset there is unset in both layers; one that is set has its value either staged
                # (then what the input env holds for it is stale: not known) or in the input env (self.where)
                if self.P == 'unset':
                    return ('none',)
                return ('some', ('sym', 'PREV')) if self.where == 'base' else None
            return ('none',) if self.P == 'unset' else ('some', ('sym', 'PREV'))
        if self.overlay is not None and n.startswith(STAGE_MAPS) and tail == 'get' and len(args) == 2 and self.overlay.is_map(args[0]):
            if not self.is_name(spec, args[1], at):
                return None
            return ('some', ('sym', 'PREV')) if (self.P != 'unset' and self.where == 'staged') else ('none',)
        if tail == 'get' and len(args) == 2 and 'Map' in n:
            if L.self_field(self.root, args[0]) == 'entries':
                key = strip(args[1])
                if key[0] == 'tuple' and len(key[1]) == 2:
                    kb = strip(key[1][0])
                    if kb[0] == 'agg' and kb[1] == MB and kb[2] == 'Delimiter' and self.is_name(spec, key[1][1], at):
                        return ('some', ('sym', 'DELIM')) if self.D == 'set' else ('none',)
                return None
            if self.is_name(spec, args[1], at) and self.is_delim_table(spec, args[0]):
                return ('some', ('sym', 'DELIM')) if self.D == 'set' else ('none',)
            return None
        if n.startswith('std::option::Option::') and args:
            o = self.opt(spec, args[0], at, d + 1)
            if o is None:
                return None
            if tail == 'filter' and len(args) == 2:
                if o[0] == 'none':
                    return o
                r = self.apply(spec, args[1], (o[1],))
                b = self.boolv(spec, r, None, d + 1) if r is not None else None
                return None if b is None else (o if b else ('none',))
            if tail == 'map' and len(args) == 2:
                if o[0] == 'none':
                    return o
                r = self.apply(spec, args[1], (o[1],))
                return ('some', r) if r is not None else None
            if tail == 'and_then' and len(args) == 2:
                if o[0] == 'none':
                    return o
                r = self.apply(spec, args[1], (o[1],))
                return self.opt(spec, r, None, d + 1) if r is not None else None
            if tail == 'or' and len(args) == 2:
                return o if o[0] == 'some' else self.opt(spec, args[1], at, d + 1)
            if tail == 'or_else' and len(args) == 2:
                if o[0] == 'some':
                    return o
                r = self.apply(spec, args[1], ())
                return self.opt(spec, r, None, d + 1) if r is not None else None
            if tail in ('take', 'as_ref', 'as_deref', 'cloned', 'copied', 'as_mut') and len(args) == 1:
                return o
            return None
        if tail in ('then', 'then_some') and len(args) == 2 and 'bool' in n:
            b = self.boolv(spec, args[0], at, d + 1)
            if b is None:
                return None
            if not b:
                return ('none',)
            if tail == 'then_some':
                return ('some', args[1])
            r = self.apply(spec, args[1], ())
            return ('some', r) if r is not None else None
        iv = self.inline(spec, v)
        if iv is not None:
            return self.opt(spec, iv, None, d + 1)
        return None

    # ---- boolean algebra -------------------------------------------------------------------------------
    def emptiness(self, a):
        if a is None or any(x.startswith(('?', '<')) for x in a):
            return None
        if not a:
            return True
        if 'PREV' in a:
            return False       # PREV only appears as an atom when the previous value is non-empty
        return None

    def boolv(self, spec, v, at=None, d=0):
        if d > 14 or not isinstance(v, tuple) or not v:
            return None
        k = v[0]
        if k == 'const' and isinstance(v[1], bool):
            return v[1]
        if k == 'updated':
            return self.boolv(spec, v[1], at, d + 1)
        if k == 'un' and v[1] == 'Not':
            b = self.boolv(spec, v[2], at, d + 1)
            return None if b is None else (not b)
        if k == 'phi':
            rs = [self.boolv(spec, x, at, d + 1) for x in v[1]]
            return rs[0] if all(r is not None and r == rs[0] for r in rs) else None
        if k == 'select' and v[2] == MB and self.is_behaviour(v[1]):
            for names, val in v[3]:
                if self.B in names:
                    return self.boolv(spec, val, at, d + 1)
            return None
        if k == 'bin' and v[1] in ('Eq', 'Ne', 'Gt', 'Lt', 'Ge', 'Le'):
            a, b = strip(v[2]), strip(v[3])
            op = v[1]
            if a == ('const', 0) and b != ('const', 0):
                a, b = b, a
                op = {'Gt': 'Lt', 'Lt': 'Gt', 'Ge': 'Le', 'Le': 'Ge'}.get(op, op)
            if b[0] == 'const' and b[1] in (0, 1) and a[0] == 'call' and a[1].endswith('::len') and a[2]:
                e = self.emptiness(self.atoms(spec, a[2][0], at, d + 1))
                if e is None:
                    return None
                if b[1] == 0:
                    return {'Eq': e, 'Ne': not e, 'Gt': not e, 'Le': e}.get(op)
                return {'Lt': e, 'Ge': not e}.get(op)
            if op in ('Eq', 'Ne'):
                x, y = self.boolv(spec, v[2], at, d + 1), self.boolv(spec, v[3], at, d + 1)
                if x is not None and y is not None:
                    return (x == y) if op == 'Eq' else (x != y)
            return None
        if k == 'bin' and v[1] in ('BitAnd', 'BitOr'):
            x, y = self.boolv(spec, v[2], at, d + 1), self.boolv(spec, v[3], at, d + 1)
            if v[1] == 'BitAnd':
                return False if (x is False or y is False) else (True if (x and y) else None)
            return True if (x is True or y is True) else (False if (x is False and y is False) else None)
        if k != 'call':
            return None
        n, args = v[1], v[2]
        tail = n.split('::')[-1]
        if tail == 'is_empty' and len(args) == 1:
            return self.emptiness(self.atoms(spec, args[0], at, d + 1))
        if n == ENV_CONTAINS and len(args) == 2 and self.is_env(args[0]) and self.is_name(spec, args[1], at):
            if self.overlay is not None:
                return False if self.P == 'unset' else (True if self.where == 'base' else None)
            return self.P != 'unset'
        if self.overlay is not None and n.startswith(STAGE_MAPS) and tail == 'contains_key' and len(args) == 2 and self.overlay.is_map(args[0]):
            if not self.is_name(spec, args[1], at):
                return None
            return self.P != 'unset' and self.where == 'staged'
        if n.startswith('std::option::Option::') and args:
            if tail in ('is_some', 'is_none') and len(args) == 1:
                o = self.opt(spec, args[0], at, d + 1)
                return None if o is None else ((o[0] == 'some') == (tail == 'is_some'))
            if tail in ('is_some_and', 'is_none_or') and len(args) == 2:
                o = self.opt(spec, args[0], at, d + 1)
                if o is None:
                    return None
                if o[0] == 'none':
                    return tail == 'is_none_or'
                r = self.apply(spec, args[1], (o[1],))
                return self.boolv(spec, r, None, d + 1) if r is not None else None
            if tail in ('map_or', 'map_or_else') and len(args) == 3:
                o = self.opt(spec, args[0], at, d + 1)
                if o is None:
                    return None
                if o[0] == 'none':
                    r = args[1] if tail == 'map_or' else self.apply(spec, args[1], ())
                else:
                    r = self.apply(spec, args[2], (o[1],))
                return self.boolv(spec, r, None, d + 1) if r is not None else None
            if tail in ('unwrap_or', 'unwrap_or_default') and args:
                o = self.opt(spec, args[0], at, d + 1)
                if o is None:
                    return None
                if o[0] == 'some':
                    return self.boolv(spec, o[1], None, d + 1)
                return False if tail == 'unwrap_or_default' else self.boolv(spec, args[1], at, d + 1)
            return None
        if tail in ('eq', 'ne') and len(args) == 2:
            a, b = strip(args[0]), strip(args[1])
            for x, y in ((a, b), (b, a)):
                if self.is_behaviour(x) and y[0] == 'agg' and y[1] == MB and y[2]:
                    return (self.B == y[2]) == (tail == 'eq')
            return None
        iv = self.inline(spec, v)
        if iv is not None:
            return self.boolv(spec, iv, None, d + 1)
        return None

    def push_rel(self, spec, at, site):
        """does the push at `site` belong to the string as seen at `at`?  True / False / None (on some paths only).
        at = (fn, block of a test): decided by dominance; at = (fn, block of a use, 'use'): decided on the feasible
        paths from the definition of the receiver to the use"""
        fn, ubb = at[0], at[1]
        pbb, defs = site[1], tuple(site[2]) if len(site) > 2 else ()
        if len(at) < 3:
            if pbb != ubb and fn.dominates(pbb, ubb):
                return True
            if fn.dominates(ubb, pbb):
                return False
            return None

        def reaches(srcs, avoid):
            work = []
            for s_ in srcs:
                work.extend(spec.fsuccs(fn, s_))
            if not srcs:
                work = [0]
            seen = set()
            while work:
                b = work.pop()
                if b in seen or b == avoid:
                    continue
                seen.add(b)
                if b == ubb:
                    return True
                if b in defs:
                    continue
                work.extend(spec.fsuccs(fn, b))
            return False
        if not reaches(defs, pbb):
            return True
        if not reaches((pbb,), None):
            return False
        return None

    # ---- slots: `&mut` the value stored for a variable ---------------------------------------------------
    def is_env_map(self, v):
        v = strip(v)
        return v[0] == 'field' and v[2] == 'inner' and self.is_env(v[1])

    def prev_atoms(self):
        return ('PREV',) if self.P == 'nonempty' else ()

    def slot(self, spec, v, d=0):
        """v is `&mut` the string the environment built so far holds for a variable, made to exist first —
            env.inner.entry(key).or_default() / .or_insert(x) / .or_insert_with(f), possibly behind private helpers:
        (key atoms, atoms of the string right after the call in this case, site of the entry() call) else None"""
        while v[0] == 'updated':
            v = v[1]
        if v[0] != 'call' or d > 4:
            return None
        n, args = v[1], v[2]
        tail = n.split('::')[-1]
        if n.startswith(HM_ENTRY + 'Entry') and tail in ('or_default', 'or_insert', 'or_insert_with') and args:
            e = strip(args[0])
            if not (e[0] == 'call' and e[1].startswith(HM) and e[1].endswith('::entry') and len(e[2]) == 2 and self.is_env_map(e[2][0])):
                return None
            key = self.atoms(spec, e[2][1], None, d + 1)
            if self.P != 'unset':
                init = self.prev_atoms()
            elif tail == 'or_default' and len(args) == 1:
                init = ()
            elif tail == 'or_insert' and len(args) == 2:
                init = self.atoms(spec, args[1], None, d + 1)
            elif tail == 'or_insert_with' and len(args) == 2:
                r = self.apply(spec, args[1], ())
                init = self.atoms(spec, r, None, d + 1) if r is not None else unknown(args[1])
            else:
                return None
            return key, init, (e[3] if len(e) > 3 else None)
        iv = self.inline(spec, v)
        if iv is not None:
            return self.slot(spec, iv, d + 1)
        return None

    # ---- string atoms ------------------------------------------------------------------------------------
    def atoms(self, spec, v, at=None, d=0):
        """the pieces a string value consists of in this case: a tuple over NAME / VALUE / PREV / DELIM (PREV only
        when the previous value is non-empty, DELIM only when the delimiter entry exists), '?..' for anything else"""
        if d > 16 or not isinstance(v, tuple) or not v:
            return unknown(v)
        k = v[0]
        if k == 'sym':
            if v[1] == 'PREV':
                return ('PREV',) if self.P == 'nonempty' else ()
            if v[1] == 'DELIM':
                return ('DELIM',)
            return unknown(v)
        if k == 'updated':
            return self.atoms(spec, v[1], at, d + 1)
        proj = self.entry_proj(v)
        if proj is not None:
            return {('0', '1'): ('NAME',), ('1',): ('VALUE',), ('0', '0'): ('?BEHAVIOUR',)}.get(proj, unknown(v))
        if k == 'unwrap':
            o = self.opt(spec, v[1], at, d + 1)
            if o is None:
                return unknown(v)
            if o[0] == 'none':
                return ('?unwrap-of-None',)
            return self.atoms(spec, o[1], None, d + 1)
        if k == 'const' and isinstance(v[1], str):
            return () if v[1] == '' else ('?' + repr(v[1]),)
        if k == 'phi':
            rs = [self.atoms(spec, x, at, d + 1) for x in v[1]]
            return rs[0] if all(r == rs[0] for r in rs) else unknown(v)
        if k == 'select' and v[2] == MB and self.is_behaviour(v[1]):
            for names, val in v[3]:
                if self.B in names:
                    return self.atoms(spec, val, at, d + 1)
            return unknown(v)
        if k == 'concat':
            out = self.atoms(spec, v[1], at, d + 1)
            for p in v[2]:
                if p[0] == 'call' and p[1] in (PUSH, MAYBE, TAKE) and len(p) > 3 and p[3]:
                    site = p[3]
                    if at is not None and site[0] == at[0].path:
                        inc = self.push_rel(spec, at, site)
                    else:
                        inc = True if p[1] in (PUSH, TAKE) else None
                    if inc is False:
                        continue
                    if len(site) > 3 and site[3] == 'take':
                        # std::mem::take(&mut s): nothing of what was there before stays
                        out = () if inc else out + ('?taken-on-some-paths-only',)
                        continue
                    if len(site) > 3 and site[3] != 'push':
                        out = out + ('?' + vstr(p[2][0])[:60],)
                        continue
                    a = self.atoms(spec, p[2][0], None, d + 1)
                    out = out + (a if inc else ('?pushed-on-some-paths-only(%s)' % '+'.join(a),))
                else:
                    out = out + self.atoms(spec, p, at, d + 1)
            return out
        if k != 'call':
            return unknown(v)
        n, args = v[1], v[2]
        tail = n.split('::')[-1]
        if n.endswith(FRESH) and not args:
            return ()
        if tail == 'with_capacity' and len(args) == 1 and n.startswith(('std::ffi::OsString::', 'std::string::String::', 'std::path::PathBuf::')):
            return ()
        if n in iters.COLLECTING and len(args) == 1 and strip(args[0])[0] == 'array':
            out = ()
            for x in strip(args[0])[1]:
                out = out + self.atoms(spec, x, at, d + 1)
            return out
        if n.endswith(KEEP) and len(args) == 1:
            return self.atoms(spec, args[0], at, d + 1)
        if n == MEM_TAKE and len(args) == 1:
            # what the string held when it was taken: the pushes that precede the call
            site = v[3] if len(v) > 3 else None
            tf = spec.prog.fns.get(site[0]) if site else None
            if tf is None:
                return unknown(v)
            x = args[0]
            if x[0] == 'slotref':
                if x[1] != tf.path:
                    return unknown(v)
                x = spec.to_root(spec.asl.local(tf, x[2]))
            return self.atoms(spec, x, (tf, site[1]), d + 1)
        if n.startswith(HM_ENTRY):
            s = self.slot(spec, v)
            return s[1] if s is not None else unknown(v)
        if n.startswith('std::option::Option::') and args and tail in ('unwrap_or_default', 'unwrap_or', 'unwrap_or_else', 'map_or', 'map_or_else'):
            o = self.opt(spec, args[0], at, d + 1)
            if o is None:
                return unknown(v)
            if o[0] == 'some':
                if tail in ('map_or', 'map_or_else'):
                    r = self.apply(spec, args[2], (o[1],)) if len(args) == 3 else None
                    return self.atoms(spec, r, None, d + 1) if r is not None else unknown(v)
                return self.atoms(spec, o[1], None, d + 1)
            if tail == 'unwrap_or_default':
                return ()
            if tail in ('unwrap_or', 'map_or') and len(args) >= 2:
                return self.atoms(spec, args[1], at, d + 1)
            if len(args) >= 2:
                r = self.apply(spec, args[1], ())
                return self.atoms(spec, r, None, d + 1) if r is not None else unknown(v)
            return unknown(v)
        s = self.slot(spec, v) if (v[1] in spec.prog.fns and spec.engine.has_env_write(spec.prog.fns[v[1]])) else None
        if s is not None:
            return s[1]
        iv = self.inline(spec, v)
        if iv is not None:
            return self.atoms(spec, iv, None, d + 1)
        return unknown(v)


def _slot_uses_ok(fn, local, def_bb):
    """the `&mut String` local is only ever reborrowed (`&mut *slot`, `&*slot`): what happens to the string is then
    what happens through those reborrows, which the slicer follows"""
    def mentions(x, inside_ref=False):
        if isinstance(x, dict):
            for k, v in x.items():
                if k in ('p', 'c', 'm') and isinstance(v, list) and v and v[0] == local:
                    if not (k == 'p' and x.get('r') == 'ref' and v == [local, '*']):
                        return True
                elif mentions(v):
                    return True
        elif isinstance(x, list):
            return any(mentions(y) for y in x)
        return False
    for bi, b in enumerate(fn.blocks):
        for st in b['s']:
            if st[0] == '=' and (st[1] and st[1][0] == local):
                return False
            if mentions(st[2:] if st[0] == '=' else st[1:]):
                return False
        tm = dict(b['t'])
        if tm.get('t') == 'call' and bi == def_bb and tm.get('dest') == [local]:
            tm.pop('dest')
        elif tm.get('dest') and tm['dest'][0] == local:
            return False
        if mentions(tm):
            return False
    return True


def _insert_event(case, ends_of=None):
    def ends(fn):
        e = ends_of(fn) if ends_of else None
        return list(e) if e else list(fn.return_blocks())

    def slot_event(spec, fn, c, s):
        """the call hands out `&mut` the string stored for a variable (creating it when the variable is unset): what
        the string holds when the application of the entry is over is what an insert would have stored"""
        key, init, esite = s
        prog = spec.prog
        if esite is None or not c.dest or len(c.dest) != 1:
            return (('?env-write', c.name),)
        hs = [h for h in prog.callee_fns(c) if h.kind != 'Closure']
        inside = env_write_sites(prog, hs) if hs else {(fn.path, esite[1])}
        if inside != {(esite[0], esite[1])}:
            return (('?env-write', 'more than the entry() call inside ' + (c.name or '?')),)
        spec.seen_sites.add((esite[0], esite[1]))
        local = c.dest[0]
        if not _slot_uses_ok(fn, local, c.bb):
            return (('?env-write', 'the reference handed out by %s is passed on' % (c.name or '?').split('::')[-1]),)
        full = spec.to_root(spec.asl.local(fn, local))
        finals = {case.atoms(spec, full, (fn, e, 'use')) for e in ends(fn)}
        if len(finals) != 1:
            return (('?env-write', 'the stored string differs between paths'),)
        final = finals.pop()
        if key != ('NAME',):
            return (('insert', key, final),)       # some other variable: reported by the shape check
        if case.P != 'unset' and final == case.prev_atoms():
            return ()       # the variable keeps the value it had
        return (('insert', key, final),)

    def event_of(spec, fn, c):
        if c.indirect:
            return ()
        if c.name == ENV_INSERT and len(c.args) == 3:
            spec.seen_sites.add((fn.path, c.bb))
            at = (fn, c.bb, 'use')
            key = case.atoms(spec, spec.to_root(spec.asl.operand(fn, c.args[1])), at)
            val = case.atoms(spec, spec.to_root(spec.asl.operand(fn, c.args[2])), at)
            recv = strip(spec.to_root(spec.asl.operand(fn, c.args[0])))
            if not case.is_env(recv):
                return (('insert-into', vstr(recv)[:40], key, val),)
            return (('insert', key, val),)
        if case.overlay is not None and fn.path == case.overlay.g.path and c.bb in case.overlay.insert_bbs:
            # the value staged for the variable is what the flush inserts into the environment
            spec.seen_sites.add((fn.path, c.bb))
            at = (fn, c.bb, 'use')
            return (('insert', case.atoms(spec, spec.to_root(spec.asl.operand(fn, c.args[1])), at),
                     case.atoms(spec, spec.to_root(spec.asl.operand(fn, c.args[2])), at)),)
        hs = [h for h in spec.prog.callee_fns(c) if h.kind != 'Closure']
        writes = is_env_map_write(fn, c) or (c.name or '').startswith(HM_ENTRY) or any(spec.engine.has_env_write(h) for h in hs)
        if writes and (c.dty or '').startswith('&mut ') and c.dest and len(c.dest) == 1:
            v = spec.to_root(spec.asl.local(fn, c.dest[0]))
            s = case.slot(spec, v[1] if v[0] == 'concat' else v)
            if s is not None:
                return slot_event(spec, fn, c, s)
        if is_env_map_write(fn, c):
            if (c.name or '').startswith(HM) and c.name.endswith('::entry') and len(c.args) == 2:
                return ()       # no effect by itself: what is done with the entry is (Entry::or_default, ..)
            if (c.name or '').startswith(HM) and c.name.endswith('::insert') and len(c.args) == 3 and \
                    case.is_env_map(spec.to_root(spec.asl.operand(fn, c.args[0]))):
                spec.seen_sites.add((fn.path, c.bb))
                at = (fn, c.bb, 'use')
                return (('insert', case.atoms(spec, spec.to_root(spec.asl.operand(fn, c.args[1])), at),
                         case.atoms(spec, spec.to_root(spec.asl.operand(fn, c.args[2])), at)),)
            return (('?env-write', c.name),)
        if (c.name or '').startswith(HM_ENTRY) and c.args:
            # a method of an Entry / OccupiedEntry / VacantEntry of the map inside an Env that is not understood
            a0 = strip(spec.to_root(spec.asl.operand(fn, c.args[0])))
            if any(x[0] == 'field' and x[2] == 'inner' and case.is_env(x[1]) for x in walk(a0)):
                return (('?env-write', c.name),)
        if any(spec.engine.has_env_write(h) for h in hs):
            return None     # descend
        cls = [g for g in spec.prog.fn_item_args(c) if spec.engine.has_env_write(g)]
        if cls:
            return (('?insert-inside-a-closure', cls[0].path.split('::')[-1]),)
        return ()
    return event_of


ORDER_KEEPING = (iters.IT + 'peekable', iters.IT + 'by_ref', iters.IT + 'fuse', iters.IT + 'cloned', iters.IT + 'copied')


class EntryView:
    """how the collection a loop iterates relates to self.entries: the entries themselves, or a lazily filtered /
    mapped view of them in map order —

        self.entries.iter().filter(|((b, _), _)| b == wanted).map(|((_, name), value)| (name, value))

    elem     the loop element in terms of ('sym', 'ENTRY') (one (behaviour, name) -> value pair of the map)
    aliases  values that, inside the loop, equal the behaviour of the entry (the filters let nothing else through)
    table    None, or the literal behaviour table [variant names] an enclosing loop takes `wanted` from: the loop body
             then runs once per entry whose behaviour is in the table, in table order first and map order second
    why      set when the collection is a view of the entries this analysis cannot vouch for
    dynamic  the view is decided per case (bind_case): its stages (filter / map / filter_map over the entries, all of
             them lazy, per-element and order-preserving) are evaluated for one entry of the case, which tells whether
             the entry is visited at all and what the loop element is for it —
                 entries.iter().filter_map(|((b, n), v)| match b { Override => Some(Op::Set { n, v }), .., Delimiter => None })
             Nothing is assumed about the closures: a test the case does not decide leaves the view not understood"""

    def __init__(self, engine, lp):
        self.engine, self.lp = engine, lp
        self.elem, self.aliases, self.table, self.why = None, [], None, None
        self.ok = False
        self.mapped = False
        self.dynamic = False
        self.stages = []
        self.coll_key = None
        self.alias_keys = set()
        g, psl = engine.root, engine.psl
        coll, proj = L.loop_element(('unwrap', ('call', 'std::iter::Iterator::next', (lp.collection,), None)))
        if coll is None:
            return
        self.coll_key = canon(coll)
        if L.self_field(g, coll) == 'entries':
            self.elem, self.ok = ('sym', 'ENTRY'), True
            return
        cur = strip(psl.inline_deep(coll))
        stages = []
        for _ in range(12):
            if L.self_field(g, cur) == 'entries':
                break
            if cur[0] != 'call' or not cur[2]:
                return
            n, args = cur[1], cur[2]
            if (n in ORDER_KEEPING or n in iters.COLLECTING or (iters._is_source(n) and n.endswith(iters.SAME_ELEMS))) and len(args) == 1:
                cur = strip(args[0])
            elif n in (iters.IT + 'filter', iters.IT + 'map', iters.IT + 'filter_map') and len(args) == 2:
                stages.append((n, strip(args[1])))
                cur = strip(args[0])
            else:
                return
        else:
            return
        # from here on the loop does range over (some of) the entries: anything not understood is reported
        self.stages = list(reversed(stages))
        if any(cl[0] != 'closure' or cl[1] not in engine.prog.fns for _, cl in self.stages):
            self.why = 'a stage of the view of the entries is not a closure'
            return
        elem = ('sym', 'ENTRY')
        for n, cl in self.stages:
            r = psl.apply_closure(cl, (elem,)) if not n.endswith('::filter_map') else None
            if r is not None:
                while r[0] == 'updated':
                    r = r[1]
            if r is not None and n.endswith('::map'):
                elem = r
                continue
            x = self._equalled(r, elem) if r is not None else None
            if x is None:
                # not `behaviour == <value of an enclosing table loop>`: which entries get through, and as what, is
                # decided for each case on its own
                self.elem, self.aliases = None, []
                self.dynamic = self.mapped = self.ok = True
                return
            self.aliases.append(x)
        if self.reads_env(elem):
            self.why = 'the view of the entries consults the environment before the entries are applied: ' + vstr(elem)[:100]
            return
        self.elem, self.mapped = elem, True
        self.alias_keys = {canon(strip(x)) for x in self.aliases}
        if self.aliases and not self._table():
            return
        self.ok = True

    def bind_case(self, spec, case):
        """evaluate the stages of a dynamic view for one entry of the case: 'visited' (case.elem_value is the loop
        element for it) | 'skipped' (the view does not let entries of this case through) | ('why', text)"""
        elem = ('sym', 'ENTRY')
        case.elem_value, case.cbind = None, {}
        for n, cl in self.stages:
            tail = n.split('::')[-1]
            # the conditions inside the closure are decided with its parameter standing for the element it is given
            case.cbind[(cl[1], 1)] = elem
            r = spec.asl.apply_closure(cl, (elem,))
            if r is None:
                return ('why', 'closure of %s over the entries not evaluated' % tail)
            while r[0] == 'updated':
                r = r[1]
            if self.reads_env(r):
                # the stages of the view run before the entries are applied (all of them, when the view is collected
                # first): an environment consulted there is not the environment built so far
                return ('why', 'the view of the entries consults the environment before the entries are applied: ' + vstr(r)[:100])
            if tail == 'map':
                elem = r
            elif tail == 'filter':
                b = case.boolv(spec, r, None)
                if b is None:
                    return ('why', 'entries are filtered by a test the behaviour of the entry does not decide: ' + vstr(r)[:100])
                if not b:
                    return 'skipped'
            else:
                o = case.opt(spec, r, None)
                if o is None:
                    return ('why', 'filter_map over the entries: whether an entry with behaviour %s gets through is not decided: %s' % (case.B, vstr(r)[:100]))
                if o[0] == 'none':
                    return 'skipped'
                elem = o[1]
        case.elem_value = elem
        return 'visited'

    def reads_env(self, v):
        """the value mentions the environment handed to the delta application (clones are transparent to the slicer)"""
        g = self.engine.root
        return any(isinstance(x, tuple) and x and x[0] == 'param' and x[1] == g.path and x[2] == 1 for x in walk(v))

    @staticmethod
    def proj_of(elem, proj):
        for p in proj:
            while elem[0] in ('updated',):
                elem = elem[1]
            if elem[0] == 'tuple' and p.isdigit() and int(p) < len(elem[1]):
                elem = elem[1][int(p)]
            else:
                elem = ('field', elem, p)
        return elem

    def project(self, proj):
        return self.proj_of(self.elem, proj)

    @staticmethod
    def _entry_path(v):
        projs = []
        while v[0] in ('field', 'updated', 'unwrap'):
            if v[0] == 'field':
                projs.append(v[2])
            v = v[1]
        return tuple(reversed(projs)) if v == ('sym', 'ENTRY') else None

    def _equalled(self, pred, elem):
        """pred is `behaviour of the element == X` with X independent of the element: X"""
        if not (pred[0] == 'call' and pred[1].endswith('::eq') and len(pred[2]) == 2):
            return None
        a, b = pred[2]
        for x, y in ((a, b), (b, a)):
            if self._entry_path(x) == ('0', '0') and not any(z == ('sym', 'ENTRY') for z in walk(y)):
                return y
        return None

    def _table(self):
        """every alias is the element of one enclosing loop over a literal table of distinct behaviours, sorted the
        way the map sorts them (Ord for ModificationBehavior): visiting, per table row, the entries of that behaviour
        in map order is then the map order restricted to the behaviours of the table"""
        from .lib.effects import find_loops
        g, psl, prog = self.engine.root, self.engine.psl, self.engine.prog
        if len(self.alias_keys) != 1:
            self.why = 'entries filtered by several behaviour values'
            return False
        x = strip(self.aliases[0])
        coll, proj = L.loop_element(x)
        if coll is None or proj != () or coll[0] != 'array':
            self.why = 'the behaviour the entries are filtered by is not the element of a loop over a literal table: ' + vstr(x)[:80]
            return False
        names = []
        for el in coll[1]:
            el = strip(el)
            if not (el[0] == 'agg' and el[1] == MB and el[2] and not el[3]):
                self.why = 'behaviour table with a non-literal row: ' + vstr(el)[:60]
                return False
            names.append(el[2])
        site = x[3] if x[0] == 'call' and len(x) > 3 else None
        outer = [lp for lp in find_loops(g, psl) if site and site[0] == g.path and lp.header == site[1]]
        if len(outer) != 1 or outer[0].header == self.lp.header or self.lp.header not in outer[0].body or \
                not g.dominates(outer[0].header, self.lp.header):
            self.why = 'the loop over the behaviour table does not enclose the loop over the entries'
            return False
        why = self._every_row_every_entry(g, outer[0], self.lp)
        if why:
            self.why = why
            return False
        cmpf = prog.fns.get('<%s as std::cmp::Ord>::cmp' % MB)
        ranks = rank_table(prog, psl, cmpf)[1] if cmpf is not None else {}
        if len(set(names)) != len(names) or any(n not in ranks for n in names) or \
                any(ranks[a] >= ranks[b] for a, b in zip(names, names[1:])):
            self.why = 'behaviour table %s is not in the order the entries are sorted in (ranks %s)' % (names, ranks)
            return False
        self.table = names
        return True


    @staticmethod
    def _every_row_every_entry(g, outer, inner):
        """the table loop is only left when the table is exhausted, every one of its iterations runs the loop over the
        entries, and that one is only left when the entries are exhausted (no break / return / continue around it):
        None, or what is wrong"""
        dead = lambda b: g.blocks[b]['t']['t'] in ('unreachable', 'resume', 'abort')
        def next_switch(lp):
            tb = lp.next_call.target
            return tb if tb is not None and g.blocks[tb]['t']['t'] == 'switch' else None
        osw, isw = next_switch(outer), next_switch(inner)
        if osw is None or isw is None:
            return 'loop exits not understood'
        for b in outer.body:
            for s in g.succs(b):
                if s not in outer.body and not dead(s) and b != osw:
                    return 'the loop over the behaviour table can be left before the table is exhausted (bb%d -> bb%d)' % (b, s)
        # every iteration of the table loop reaches the loop over the entries
        work = [s for s in g.succs(osw) if s in outer.body]
        seen = set()
        while work:
            b = work.pop()
            if b in seen or b == inner.header:
                continue
            seen.add(b)
            if b == outer.header:
                return 'an iteration of the loop over the behaviour table can skip the loop over the entries'
            work.extend(s for s in g.succs(b) if s in outer.body)
        # the blocks of the inner loop proper: on a cycle through its header that avoids the outer header
        fwd, work = set(), [inner.header]
        while work:
            b = work.pop()
            if b in fwd or b == outer.header:
                continue
            fwd.add(b)
            work.extend(g.succs(b))
        preds = g.preds()
        bwd, work = set(), [inner.header]
        while work:
            b = work.pop()
            if b in bwd or b == outer.header:
                continue
            bwd.add(b)
            work.extend(preds[b])
        proper = fwd & bwd
        for b in proper:
            for s in g.succs(b):
                if s not in proper and not dead(s) and b != isw:
                    return 'the loop over the entries can be left before the entries are exhausted (bb%d -> bb%d)' % (b, s)
        return None


# ---------------------------------------------------------------------------------------------------------------
# staged application: the new values are collected in a map of their own and written out afterwards
# ---------------------------------------------------------------------------------------------------------------
STAGE_MAPS = ('std::collections::HashMap', 'std::collections::BTreeMap')


def _stage_local(f, pl):
    """the place is a local that holds a map NAME -> OsString (not the map inside an Env behind `&mut`)"""
    if not pl or len(pl) != 1:
        return False
    lo = f.locals[pl[0]]
    ty = lo.get('ty') or ''
    return lo.get('head') in STAGE_MAPS and ty.startswith(STAGE_MAPS) and ty.rstrip('>').endswith(', std::ffi::OsString')


def _is_stage_insert(f, c):
    """a call `map.insert(k, v)` on a name -> string map that lives in a local of f (syntactic candidate)"""
    if c.indirect or not (c.name or '').startswith(STAGE_MAPS) or not c.name.endswith('::insert') or len(c.args) != 3:
        return False
    pl = op_place(c.args[0])
    if not pl or len(pl) != 1:
        return False
    for d in f.whole_defs(pl[0]):
        if d[0] == 'stmt' and d[3]['r'] == 'ref' and _stage_local(f, d[3]['p']):
            return True
    return False


class Overlay:
    """Copy-on-write spelling of the delta application: the values the entries give their variables are staged in a
    map of their own (`overlay`), looked up overlay-first (`overlay.get(k).or_else(|| env.get(k))` is the lookup in the
    environment built so far = input env overlaid with what was staged), and written into a copy of the input env once
    every entry has been applied.  Admitted only when
      - the overlay is a local name -> string map that starts empty before the entry loop,
      - inside the entry loop it is only consulted with get / contains_key and changed with insert (nothing is removed),
      - it is then moved / borrowed into exactly one loop behind the entry loop that inserts (key, value) of *every*
        element into one environment (no condition, no early exit), and every return of the function lies behind it.
    Keys of a map are unique, so the order in which the flush visits them does not matter.
    .ok / .why; .local; .value (PSlicer value of the empty map); .flush_site (fn path, block of the Env::insert);
    .insert_bbs (blocks of the staging inserts)"""

    def __init__(self, engine, lp):
        from .lib.effects import find_loops
        self.ok, self.why = False, None
        g, psl = engine.root, engine.psl
        self.g = g
        cands = set()
        for c in g.calls:
            if c.bb in lp.body and _is_stage_insert(g, c):
                for d in g.whole_defs(op_place(c.args[0])[0]):
                    if d[0] == 'stmt' and d[3]['r'] == 'ref':
                        cands.add(d[3]['p'][0])
        if len(cands) != 1:
            self.why = '%d staging maps are written inside the entry loop' % len(cands)
            return
        n = self.local = cands.pop()
        name = g.local_name(n) or '_%d' % n
        defs = g.whole_defs(n)
        if not (len(defs) == 1 and defs[0][0] == 'call' and not defs[0][3].args and _tail(defs[0][3].name) in ('new', 'default')
                and defs[0][3].bb not in lp.body and g.dominates(defs[0][3].bb, lp.header)):
            self.why = 'the staging map `%s` does not start empty before the entry loop' % name
            return
        self.value = strip(psl.local(g, n))
        self.psl = psl
        # every use of the map
        self.insert_bbs, flush_calls = set(), []
        for bi, b in enumerate(g.blocks):
            if b.get('cleanup'):
                continue
            tmps = []
            for st in b['s']:
                if st[0] != '=':
                    continue
                rv = st[2]
                if rv.get('r') == 'ref' and rv.get('p') == [n]:
                    tmps.append((st[1], bool(rv.get('mut'))))
                elif rv.get('r') == 'use' and (rv['o'].get('m') == [n] or rv['o'].get('c') == [n]):
                    tmps.append((st[1], True))
                elif _mentions_local(rv, n):
                    self.why = 'the staging map `%s` is used in a way that is not understood' % name
                    return
            t = b['t']
            c = g.call_at(bi) if t.get('t') == 'call' else None
            direct = t.get('t') == 'call' and any(op_place(a) == [n] for a in (c.args if c else []))
            if not tmps and not direct:
                if t.get('t') not in ('drop',) and _mentions_local({k: v for k, v in t.items() if k != 'dest'}, n):
                    self.why = 'the staging map `%s` is used in a way that is not understood' % name
                    return
                continue
            if c is None or c.indirect or not c.args or not (direct and op_place(c.args[0]) == [n] or
                                                               any(op_place(c.args[0]) == list(tl) for tl, _ in tmps)) or len(tmps) > 1:
                self.why = 'the staging map `%s` is handed to something else than one of its own methods' % name
                return
            tail = _tail(c.name)
            inside = bi in lp.body
            if (c.name or '').startswith(STAGE_MAPS) and tail in ('get', 'contains_key') and len(c.args) == 2:
                continue
            if (c.name or '').startswith(STAGE_MAPS) and tail == 'insert' and len(c.args) == 3 and inside:
                self.insert_bbs.add(bi)
                continue
            if not inside and (iters._is_source(c.name) or c.decl == 'std::iter::IntoIterator::into_iter' or tail in ('into_iter', 'iter', 'drain')) \
                    and len(c.args) == 1:
                flush_calls.append(c)
                continue
            self.why = 'the staging map `%s` is changed by %s' % (name, (c.name or '?').split('::')[-1])
            return
        if len(flush_calls) != 1:
            self.why = 'the staging map `%s` is written out %d times' % (name, len(flush_calls))
            return
        fc = flush_calls[0]
        if lp.header not in [b for b in range(len(g.blocks)) if fc.bb in g.reachable(b)] or fc.bb in lp.body or not g.dominates(lp.header, fc.bb):
            self.why = 'the staging map is not written out behind the entry loop'
            return
        flush = [l2 for l2 in find_loops(g, psl) if l2.collection is not None and l2.header not in lp.body
                 and L.loop_element(('unwrap', ('call', 'std::iter::Iterator::next', (l2.collection,), None)))[0] is not None
                 and canon(L.loop_element(('unwrap', ('call', 'std::iter::Iterator::next', (l2.collection,), None)))[0]) == canon(self.value)]
        if len(flush) != 1:
            self.why = 'no single loop over the staging map `%s` behind the entry loop' % name
            return
        l2 = flush[0]
        body_calls = [c for c in g.calls if c.bb in l2.body and c.bb != l2.header and not g.blocks[c.bb].get('cleanup')]
        switches = [b for b in l2.body if g.blocks[b]['t'].get('t') == 'switch']
        if len(body_calls) != 1 or body_calls[0].name != ENV_INSERT or len(body_calls[0].args) != 3 or len(switches) != 1 or l2.exhaust is None:
            self.why = 'the loop that writes the staged values out does more than one unconditional Env::insert per element'
            return
        ic = body_calls[0]
        k = L.loop_element(psl.operand(g, ic.args[1]))
        v = L.loop_element(psl.operand(g, ic.args[2]))
        if not (k[0] is not None and v[0] is not None and canon(k[0]) == canon(self.value) and canon(v[0]) == canon(self.value)
                and k[1] == ('0',) and v[1] == ('1',)):
            self.why = 'the loop that writes the staged values out does not insert (key, value) of its element'
            return
        if not all(g.dominates(l2.header, r) and g.dominates(l2.exhaust[1], r) for r in g.return_blocks()):
            self.why = 'a return of %s is not behind the loop that writes the staged values out' % g.path.split('::')[-1]
            return
        self.flush_site = (g.path, ic.bb)
        self.flush_call = ic
        self.ok = True

    def is_map(self, v):
        return canon(strip(v)) == canon(self.value)


def _mentions_local(x, n):
    if isinstance(x, dict):
        for k, v in x.items():
            if k in ('p', 'c', 'm') and isinstance(v, list) and v and v[0] == n:
                return True
            if _mentions_local(v, n):
                return True
    elif isinstance(x, (list, tuple)):
        return any(_mentions_local(y, n) for y in x)
    return False


def entry_loops(engine):
    """loops of the root over self.entries — or over an order-preserving filter / map view of them (EntryView) — that
    contain (possibly through helpers) an insert into the environment"""
    from .lib.effects import find_loops
    g = engine.root
    out = []
    engine.views = {}
    for lp in find_loops(g, engine.psl):
        if lp.collection is None:
            continue
        view = EntryView(engine, lp)
        if not view.ok:
            if view.why:
                engine.view_why = view.why
            continue
        engine.views[lp.header] = view
        body_calls = [c for c in g.calls if c.bb in lp.body and c.bb != lp.header]
        if any(c.name == ENV_INSERT or any(engine.has_env_write(h) for h in engine.prog.callee_fns(c)) or
               any(engine.has_env_write(h) for h in engine.prog.fn_item_args(c)) for c in body_calls):
            out.append(lp)
        elif any(_is_stage_insert(g, c) for c in body_calls):
            # no environment is written inside the loop, but a name -> string map is: a staged application (Overlay)
            out.append(lp)
            engine.staged = getattr(engine, 'staged', set()) | {lp.header}
    return out


def entry_closures(engine):
    """closures of the root run once per element of self.entries (`for_each`, `fold`) that insert into the environment:
    [(closure Fn, {parameter bindings}, returns-the-accumulator?)]"""
    g = engine.root
    prog = engine.prog
    psl = engine.psl
    entries = ('field', ('param', g.path, 0, g.local_name(1)), 'entries')
    elem = ('unwrap', ('call', 'std::iter::Iterator::next', (entries,), None))
    out = []
    for c in g.calls:
        if c.indirect or c.decl not in (iters.IT + 'for_each', iters.IT + 'fold') or len(c.args) < 2:
            continue
        coll, proj = L.loop_element(('unwrap', ('call', 'std::iter::Iterator::next', (psl.operand(g, c.args[0]),), None)))
        if coll is None or L.self_field(g, coll) != 'entries':
            continue
        clv = strip(psl.operand(g, c.args[-1]))
        cl = prog.fns.get(clv[1]) if clv[0] == 'closure' else None
        if cl is None or not engine.has_env_write(cl):
            continue
        if c.decl.endswith('for_each'):
            out.append((cl, {(cl.path, 1): elem}, True))
        else:
            init = strip(psl.operand(g, c.args[1]))
            pre = {(cl.path, 2): elem}
            ok = init[0] == 'param' and init[1] == g.path and init[2] == 1
            if ok:
                pre[(cl.path, 1)] = init
            # what the closure hands back is the accumulator it was given — also when it is threaded through private
            # helpers that take the environment by value and return it (`|acc, e| self.apply_entry(acc, e)`); that the
            # helper returns the very object it was handed is R6's (running_env)
            rv = strip(psl.local(cl, 0))
            if not (rv[0] == 'param' and rv[1] == cl.path):
                rv = strip(psl.inline_deep(rv))
            returns_acc = ok and rv[0] == 'param' and rv[1] == cl.path and rv[2] == 1 and \
                strip(psl.local(g, 0)) == strip(psl._call_value(g, c, set(), 0))
            out.append((cl, pre, returns_acc))
    return out


_ARM_MEMO = {}


def arm_cases(prog):
    """memoised _arm_cases (R5, R6 and C10 ask for the same evaluation)"""
    key = id(prog)
    if key not in _ARM_MEMO or _ARM_MEMO[key][0] is not prog:
        _ARM_MEMO[key] = (prog, _arm_cases(prog))
    return _ARM_MEMO[key][1]


def _arm_cases(prog):
    """{(B, P, D): set of event tuples} of the application of one entry by LayerEnvDelta::apply (one iteration of its
    loop over self.entries, or one run of the closure handed to for_each / fold over them), the insert call sites
    seen, and diagnostics"""
    g = delta_family(prog)[0] or prog.fn(L.DAPPLY)      # the member of the family that does the work
    eng = Engine(prog, g)
    loops = entry_loops(eng)
    closures = entry_closures(eng) if not loops else []
    info = {'engine': eng, 'loops': loops + closures, 'fn': g}
    if len(loops) + len(closures) != 1:
        if not loops and not closures and getattr(eng, 'view_why', None):
            info['why'] = 'the loop over the entries was not understood: ' + eng.view_why
        return g, None, set(), info
    view = None
    ends_of = None
    overlay = None
    if loops and loops[0].header in getattr(eng, 'staged', ()):
        overlay = Overlay(eng, loops[0])
        if not overlay.ok:
            info['why'] = 'the entry loop writes no environment, and is not a staged application either: %s' % overlay.why
            return g, None, set(), info
        info['overlay'] = overlay
    if loops:
        lp = loops[0]
        view = eng.views.get(lp.header)
        ends_of = lambda fn, _g=g, _h=lp.header: [_h] if fn.path == _g.path else None
        # one iteration ends where the next one starts.  Under every case the entry exists (`next()` is Some), so no
        # feasible path takes the exhaustion edge: a path that arrives behind the loop has left it by a `break`, and
        # the entries that sort after this one are never applied
        rets = set(g.return_blocks())
        goes_on = {b for b in lp.exit_bb if b != lp.header and (rets & set(g.reachable(b)))}
        walk_fn, starts, ends, marker = g, [lp.header], [lp.header] + [b for b in lp.exit_bb if b not in goes_on], ('?early-return',)
        marks = {b: ('?loop-left-early',) for b in goes_on}
    else:
        cl, pre, ok = closures[0]
        if not ok:
            info['why'] = 'the closure folded over the entries does not start from the input env / return its accumulator'
            return g, None, set(), info
        eng.rebind(pre)
        walk_fn, starts, ends, marker = cl, [0], [], None
        marks = None
    res = {}
    seen = set()
    for b in BEHAVIOURS:
        for p in PREV_STATES:
            for d in DELIM_STATES:
                if view is not None and view.table is not None and b not in view.table:
                    res[(b, p, d)] = {()}       # entries of this behaviour are never visited: nothing is inserted
                    continue
                # (staged application: a variable that is set has its value in the overlay or in the input env — both
                # are evaluated, the rule must hold for either)
                layers = (None,) if overlay is None or p == 'unset' else ('staged', 'base')
                evs = set()
                for layer in layers:
                    case = ArmCase(g, b, p, d, view)
                    case.psl = eng.psl
                    case.overlay = overlay
                    case.where = layer
                    spec = Spec(eng, case)
                    if view is not None and view.dynamic:
                        st = view.bind_case(spec, case)
                        if st == 'skipped':
                            evs |= {()}       # the view never yields an entry of this case: nothing is inserted
                            continue
                        if st != 'visited':
                            info['why'] = 'the loop over the entries was not understood: ' + st[1]
                            return g, None, seen, info
                    evs |= set(spec.events(walk_fn, starts, ends, _insert_event(case, ends_of), ret_marker=marker, marks=marks))
                    seen |= spec.seen_sites
                res[(b, p, d)] = evs
    if overlay is not None:
        seen.add(overlay.flush_site)       # (what it inserts is what was staged: Overlay)
    return g, res, seen, info


def all_insert_sites(prog, engine):
    out = set()
    roots = [engine.root] + [prog.fns[p] for p in sorted(delta_family(prog)[1]) if p in prog.fns and p != engine.root.path]
    for fp, bb in env_write_sites(prog, roots):
        if prog.fns[fp].crate == engine.root.crate:
            out.add((fp, bb))
    return out


# ---------------------------------------------------------------------------------------------------------------
# R6: one environment — what the per-entry rules read is the environment built so far
# ---------------------------------------------------------------------------------------------------------------
# The value slicer sees through `clone()`: `env.get(name)` and `result_env.get(name)` are the same *value* when
# `result_env = env.clone()`, but not the same *object* once an earlier entry of the delta has been applied.  Objects
# are told apart here by where a reference comes from (the MIR local / parameter / captured variable it borrows).
CLONE_NAMES = ('Clone>::clone', 'Clone::clone')
FOLD = iters.IT + 'fold'


def _is_clone(c):
    return not c.indirect and (c.name or '').endswith(CLONE_NAMES) and len(c.args) == 1


def _env_place(f, pl):
    """the place denotes an Env (owned or behind references): an Env-typed local, possibly dereferenced"""
    return bool(pl) and f.locals[pl[0]].get('head') == ENV_T and all(p == '*' for p in pl[1:])


class EnvObjects:
    """which environment object an Env-typed place of a function denotes:
        ('param', fn, i)      the i-th parameter (an `Env`, `&Env` or `&mut Env` handed in)
        ('upvar', fn, k)      the k-th captured variable of a closure
        ('obj', fn, local)    an environment that lives in a local of fn (made by a call: a clone, Env::new(), ..)
        ('phi', {roots})      different ones on different paths
        ('?', why)            not understood
    A clone made once per entry (inside a loop / inside a closure run per element) is a snapshot of what it was cloned
    from and denotes the same environment; a clone made before the loop is an object of its own."""

    def __init__(self, prog):
        self.prog = prog
        self._memo = {}

    def place(self, f, pl, seen=()):
        if f.kind == 'Closure' and pl[0] == 1:
            flds = [p for p in pl[1:] if p != '*']
            if len(flds) == 1 and flds[0].startswith('.') and flds[0][1:].isdigit():
                return ('upvar', f.path, int(flds[0][1:]))
            return ('?', 'captured place %s' % (pl,))
        if any(p != '*' for p in pl[1:]):
            return ('?', 'environment stored inside %s' % (f.locals[pl[0]].get('ty') or '?'))
        return self.local(f, pl[0], seen)

    def operand(self, f, op, seen=()):
        pl = op_place(op)
        return self.place(f, pl, seen) if pl else ('?', 'constant')

    def local(self, f, n, seen=()):
        key = (f.path, n)
        if key in self._memo:
            return self._memo[key]
        if key in seen:
            return ('?', 'cycle')
        seen = seen + (key,)
        defs = f.whole_defs(n)
        rs = set()
        if 1 <= n <= f.argc:
            rs.add(('param', f.path, n - 1))
        elif not defs:
            rs.add(('?', 'no definition of _%d' % n))
        for d in defs:
            if d[0] == 'stmt':
                rv = d[3]
                if rv['r'] in ('ref', 'cfd', 'rawptr'):
                    rs.add(self.place(f, rv['p'], seen))
                elif rv['r'] in ('use', 'cast') and op_place(rv['o']):
                    rs.add(self.place(f, op_place(rv['o']), seen))
                elif rv['r'] == 'agg' and rv.get('kind') == 'adt' and rv.get('adt') == ENV_T:
                    rs.add(('obj', f.path, n))
                else:
                    rs.add(('?', 'definition of _%d' % n))
            elif d[0] == 'call':
                c = d[3]
                ty = f.locals[n].get('ty') or ''
                if _is_clone(c) and _env_place(f, op_place(c.args[0])):
                    if f.kind == 'Closure' or f.in_loop(c.bb):
                        rs.add(self.operand(f, c.args[0], seen))      # a snapshot per entry
                    else:
                        rs.add(('obj', f.path, n))
                elif ty.startswith('&') and c.args and _env_place(f, op_place(c.args[0])):
                    rs.add(self.operand(f, c.args[0], seen))          # `env.insert(..)` hands its receiver back
                elif ty == ENV_T and len(self._owned_args(f, c)) == 1:
                    # an environment moved into a call that gives an environment back is threaded through it
                    # (`delta.apply_owned(env)`, `entries.fold(env, step)`); that the callee does hand back what it
                    # was given is checked where the callee is analysed (running_env)
                    rs.add(self.operand(f, self._owned_args(f, c)[0], seen))
                else:
                    rs.add(('obj', f.path, n))
            else:
                rs.add(('?', 'definition of _%d' % n))
        rs = {x for r in rs for x in (r[1] if r[0] == 'phi' else (r,))}
        cyc = ('?', 'cycle')
        if cyc in rs and len(rs) > 1:
            # a loop-carried accumulator (`for e in es { env = step(env, e) }`): on the back edge it is itself
            rs.discard(cyc)
        res = rs.pop() if len(rs) == 1 else ('phi', frozenset(rs))
        if cyc not in (res[1] if res[0] == 'phi' else (res,)):
            self._memo[key] = res       # (a result cut short by the cycle is recomputed when asked for from outside)
        return res

    @staticmethod
    def _owned_args(f, c):
        return [a for a in c.args if op_place(a) and len(op_place(a)) == 1 and f.locals[op_place(a)[0]].get('ty') == ENV_T]

    def uses(self, f):
        """[(Call, argument index, root, may the callee change it?)] of the Env-typed arguments of the calls of f
        (clones aside: they make a new object, which is followed from its own uses)"""
        out = []
        for c in f.calls:
            if _is_clone(c):
                continue
            for i, a in enumerate(c.args):
                pl = op_place(a)
                if pl and _env_place(f, pl):
                    ty = f.locals[pl[0]].get('ty') or ''
                    out.append((c, i, self.place(f, pl), len(pl) == 1 and not ty.startswith('&') or ty.startswith('&mut')))
        return out

    def cloned_from(self, f, n):
        """roots of what the environment living in local n of f is a (top level) clone of"""
        out = set()
        for d in f.whole_defs(n):
            if d[0] == 'call' and _is_clone(d[3]) and _env_place(f, op_place(d[3].args[0])):
                out.add(self.operand(f, d[3].args[0]))
            elif d[0] == 'call' and not _is_clone(d[3]) and (f.locals[n].get('ty') or '') == ENV_T and len(self._owned_args(f, d[3])) == 1 and \
                    self.operand(f, self._owned_args(f, d[3])[0]) == ('obj', f.path, n):
                continue        # the environment itself, moved into a call that hands it back: not where it starts
            elif d[0] == 'stmt' and d[3]['r'] == 'use' and op_place(d[3]['o']) and self.place(f, op_place(d[3]['o'])) == ('obj', f.path, n):
                continue        # .. and moved back (`env = step(env, e)` inside the entry loop)
            else:
                out.add(('?', 'not a clone'))
        return out

    def describe(self, r):
        if r[0] == 'param':
            f = self.prog.fns[r[1]]
            return 'parameter `%s` of %s' % (f.local_name(r[2] + 1) or '_%d' % (r[2] + 1), r[1].split('::')[-1])
        if r[0] == 'obj':
            f = self.prog.fns[r[1]]
            return 'local `%s` of %s' % (f.local_name(r[2]) or '_%d' % r[2], r[1].split('::')[-1])
        if r[0] == 'upvar':
            return 'captured variable #%d of %s' % (r[2], r[1].split('::')[-1])
        if r[0] == 'phi':
            return ' / '.join(sorted(self.describe(x) for x in r[1]))
        return 'unknown (%s)' % (r[1],)


def _empty_delta_copy(prog, g, eo, r, env_i):
    """r is an environment of g that is a top-level clone of the input env, made (and only made) where the delta is
    known to have no entries (`self.entries.is_empty()` / `len() == 0` holds), and that nothing is done with"""
    if not (r[0] == 'obj' and r[1] == g.path):
        return False
    if any(r in (x[1] if x[0] == 'phi' else (x,)) for _, _, x, _ in eo.uses(g)):
        return False
    psl = PSlicer(prog)
    defs = g.whole_defs(r[2])
    if not defs:
        return False
    ncalls = 0
    for d in defs:
        if d[0] == 'stmt' and d[3]['r'] == 'use' and op_place(d[3]['o']) and eo.place(g, op_place(d[3]['o'])) != r:
            continue        # (the return local: on other paths another environment is moved into it — judged on its own)
        if not (d[0] == 'call' and _is_clone(d[3]) and _env_place(g, op_place(d[3].args[0]))
                and eo.operand(g, d[3].args[0]) == ('param', g.path, env_i) and not g.in_loop(d[3].bb)):
            return False
        ncalls += 1
        ok = False
        for cd in conditions(g, d[3].bb, psl):
            if cd.kind != 'bool':
                continue
            for view in cd.views():
                v, pol = (view if isinstance(view, tuple) and len(view) == 2 and isinstance(view[1], bool) else (view, cd.value))
                v = strip(v)
                if v[0] == 'bin' and v[1] in ('Eq', 'Ne') and strip(v[3]) == ('const', 0) and pol is (v[1] == 'Eq'):
                    v, pol = strip(v[2]), True       # `self.entries.len() == 0`
                if pol is True and v[0] == 'call' and _tail(v[1]) in ('is_empty', 'len') and len(v[2]) == 1:
                    x = strip(v[2][0])
                    if x[0] == 'field' and x[2] == 'entries' and _is_param(x[1], g, 0):
                        ok = True
        if not ok:
            return False
    return ncalls > 0


def running_env(prog):
    """[(kind 'violated'|'unproven', where, message)] for the obligation: inside the per-delta application (its core
    function, the closures and private helpers it enters) every call that is handed an environment is handed *the*
    environment being built — the one that starts as the (clone of the) input env, receives the inserts and is
    returned.  ([] = holds), plus a description of the accumulator"""
    g = delta_family(prog)[0] or prog.fn(L.DAPPLY)
    eo = EnvObjects(prog)
    region = {p: f for p, f in prog.reach([g]).items() if f.crate == g.crate}
    out = []
    R = {}
    F_written = {}
    try:
        _g, arm_res, _seen, arm_info = arm_cases(prog)
    except Exception:
        arm_res, arm_info = None, {}
    overlay = arm_info.get('overlay') if arm_res is not None else None
    gw = '%s:%d' % (g.file, g.line)

    def short(c):
        return (c.name or 'indirect call').split('::<')[0].split('::')[-1]

    for f in sorted(region.values(), key=lambda f: f.path):
        by_root, written = {}, []
        for c, i, r, mut in eo.uses(f):
            for x in (r[1] if r[0] == 'phi' else (r,)):
                by_root.setdefault(x, []).append(c)
                if mut and x not in written:
                    written.append(x)
        if not by_root:
            continue
        unknown_ = [r for r in by_root if r[0] == '?']
        if unknown_:
            c = by_root[unknown_[0]][0]
            out.append(('unproven', c.where(), 'the environment handed to %s is not understood: %s' % (short(c), unknown_[0][1])))
            continue
        if len(by_root) > 1 and overlay is not None and f.path == g.path:
            # staged application: no environment is written while the entries are applied; the input env is the lower
            # layer of the environment built so far, and R5 evaluates every lookup in it as exactly that (stale for a
            # variable whose value has been staged) — reading it is not reading a second environment
            base = ('param', g.path, 1)
            if base in by_root and base not in written and all(c.name in (ENV_GET, ENV_CONTAINS) for c in by_root[base]):
                del by_root[base]
        if len(by_root) > 1:
            # the environment that is written is the one being built; anything else that is consulted is stale
            others = [r for r in by_root if r not in written] or list(by_root)[1:]
            c = by_root[others[0]][0]
            out.append(('violated', c.where(), '%s works on two environments: %s is applied to the %s while the environment being built '
                        'is the %s — entries of the same delta that were applied before are not seen' %
                        (f.path.split('::')[-1], short(c), eo.describe(others[0]), eo.describe((written or list(by_root))[0]))))
            continue
        R[f.path] = next(iter(by_root))
        F_written[f.path] = list(written)

    # the accumulator of the core function: starts from the input env, is what is returned
    acc = None
    rg = R.get(g.path)
    ret = eo.local(g, 0)
    env_i = 1
    acc = rg if rg is not None else ret
    inplace = is_inplace_sig(g)
    if inplace:
        # the core updates the environment behind its `&mut Env`: that one is the environment being built.  That it
        # starts as a copy of the input env and is what is returned is a fact about the functional members of the
        # family, which delta_family only admits as `{ let mut r = env.clone(); core(self, &mut r); r }`; the in-place
        # calls of LayerEnv::apply are put into functional form and followed back to the input env by R1
        if rg is None:
            acc = ('param', g.path, env_i)      # (the core itself hands it to closures / helpers only)
        ret = ('param', g.path, env_i)          # what the caller sees afterwards
        if acc != ret:
            out.append(('violated' if acc[0] in ('param', 'obj') else 'unproven', gw,
                        'the entries are applied to the %s, not to the environment behind the `&mut Env` the application is handed — '
                        'the caller does not see them' % eo.describe(acc)))
    elif acc[0] == 'param' and acc[1] == g.path:
        if not (acc[2] == env_i and g.args[env_i] == ENV_T):
            out.append(('violated' if acc[2] == env_i else 'unproven', gw,
                        'the environment the entries are applied to is the %s, not a copy of the input env' % eo.describe(acc)))
    elif acc[0] == 'obj' and acc[1] == g.path:
        if eo.cloned_from(g, acc[2]) != {('param', g.path, env_i)}:
            out.append(('unproven', gw, 'the environment the entries are applied to (%s) does not start as a clone of the input env' % eo.describe(acc)))
    else:
        out.append(('unproven', gw, 'the environment the entries are applied to is the %s' % eo.describe(acc)))
    if not inplace and rg is not None and ret != rg and ret[0] == 'phi' and rg in ret[1]:
        # `if self.entries.is_empty() { return env.clone() }`: on a path taken only when the delta has no entry, a copy
        # of the input env *is* the environment the (zero) entries were applied to
        rest = frozenset(r for r in ret[1] if r != rg and not _empty_delta_copy(prog, g, eo, r, env_i))
        if not rest:
            ret = rg
    if not inplace and rg is not None and ret != rg:
        out.append(('violated' if ret[0] in ('param', 'obj') else 'unproven', gw,
                    'the environment returned (%s) is not the one the entries were applied to (%s)' % (eo.describe(ret), eo.describe(rg))))

    # helpers and closures: what they work on is what their caller hands them
    def closure_site(F):
        P = prog.fns.get(F.parent) if F.parent else None
        cands = [P] if P is not None else []
        cands += [f for f in region.values() if F.path.startswith(f.path + '::{closure#')]
        for P in cands:
            for bi, b in enumerate(P.blocks):
                for s in b['s']:
                    if s[0] == '=' and s[2]['r'] == 'agg' and s[2].get('kind') == 'closure' and s[2].get('def') == F.path:
                        return P, bi, s
        return None, None, None

    for fp, r in sorted(R.items()):
        F = region[fp]
        if F.path == g.path:
            continue
        fw = '%s:%d' % (F.file, F.line)
        if r[0] == 'obj':
            out.append(('unproven', fw, '%s works on an environment of its own (%s)' % (fp.split('::')[-1], eo.describe(r))))
            continue
        if r[0] == 'upvar':
            P, bi, s = closure_site(F)
            if P is None or r[2] >= len(s[2]['ops']):
                out.append(('unproven', fw, 'creation of closure %s not found' % fp.split('::')[-1]))
                continue
            cr = eo.operand(P, s[2]['ops'][r[2]])
            want = R.get(P.path) or (ret if P.path == g.path else None)
            if want is not None and cr != want and overlay is not None and cr == ('param', g.path, env_i) and r not in F_written.get(fp, ()) and \
                    all(c.name in (ENV_GET, ENV_CONTAINS) for c, i, x, m in eo.uses(F) if x == r):
                # staged application: the closure looks a variable up in the lower layer of the environment built so far
                # (`overlay.get(k).or_else(|| env.get(k))`); R5 evaluates such lookups as lookups in the input env
                continue
            if want is None or cr != want:
                out.append(('violated' if want is not None and cr[0] in ('param', 'obj') else 'unproven', fw,
                            'closure %s works on the %s, not on the environment being built%s' %
                            (fp.split('::')[-1], eo.describe(cr), (' (%s)' % eo.describe(want)) if want else '')))
            continue
        if r[0] == 'param' and F.kind == 'Closure':
            # the accumulator of a fold over the entries: handed on from call to call, started from the caller's
            P, bi, s = closure_site(F)
            folds = [c for c in (P.calls if P is not None else []) if not c.indirect and c.decl == FOLD and len(c.args) == 3
                     and any(h.path == F.path for h in prog.fn_item_args(c))]
            if r[2] != 1 or len(folds) != 1 or eo.local(F, 0) != r:
                out.append(('unproven', fw, 'closure %s is handed an environment as a parameter, and is not the step of one fold that '
                            'returns its accumulator' % fp.split('::')[-1]))
                continue
            init = eo.operand(P, folds[0].args[1])
            want = R.get(P.path)
            if want is not None:
                ok = init == want
            else:
                ok = P.path == g.path and ((init == ('param', g.path, env_i) and g.args[env_i] == ENV_T) or
                                           (init[0] == 'obj' and init[1] == g.path and eo.cloned_from(g, init[2]) == {('param', g.path, env_i)})) \
                    and folds[0].dest and len(folds[0].dest) == 1 and ret == ('obj', g.path, folds[0].dest[0])
            if not ok:
                out.append(('unproven', fw, 'the fold over the entries does not start from the environment being built / is not what is returned'))
            continue
        if r[0] == 'param':
            if F.args[r[2]] == ENV_T and F.ret == ENV_T and eo.local(F, 0) != r:
                out.append(('unproven', fw, '%s takes the environment by value and returns another one (%s)' % (fp.split('::')[-1], eo.describe(eo.local(F, 0)))))
            sites = [(f, c) for f in region.values() for c in f.calls if not c.indirect and any(h.path == fp for h in prog.callee_fns(c))]
            if not sites:
                out.append(('unproven', fw, 'no call of %s found' % fp.split('::')[-1]))
            for f, c in sites:
                if r[2] >= len(c.args) or not op_place(c.args[r[2]]):
                    out.append(('unproven', c.where(), 'argument of %s not understood' % short(c)))
                    continue
                cr = eo.place(f, op_place(c.args[r[2]]))
                want = R.get(f.path) or (ret if f.path == g.path else None)
                if overlay is not None and cr == ('param', g.path, env_i) and cr != want and (F.args[r[2]] or '').startswith('&') and \
                        not (F.args[r[2]] or '').startswith('&mut') and r not in F_written.get(fp, ()):
                    continue        # staged application: a read-only look into the lower layer (see above)
                if want is None or cr != want:
                    out.append(('violated' if want is not None and cr[0] in ('param', 'obj') else 'unproven', c.where(),
                                '%s is handed the %s, not the environment being built%s' %
                                (short(c), eo.describe(cr), (' (%s)' % eo.describe(want)) if want else '')))
            continue
        out.append(('unproven', fw, '%s works on %s' % (fp.split('::')[-1], eo.describe(r))))
    if arm_res is None and any(p[0] == 'violated' for p in out):
        # "entries applied before are not seen" presupposes that the reads and writes in question happen once per entry
        # of self.entries, in map order.  When the per-entry loop itself was not understood (R5 says what was met) the
        # iteration may range over something else (e.g. one round per variable), and a second environment is not
        # known to be stale: not decided, rather than a breach
        out = [(('unproven', p[1], p[2] + ' — not decided: the per-entry loop of the delta application was not understood (see R5), so it '
                 'is not known that an earlier entry for the same variable can have been applied at that point') if p[0] == 'violated' else p)
               for p in out]
    return g, out, eo.describe(acc)


# ---------------------------------------------------------------------------------------------------------------
# R7: the Env primitives mean what the case analysis of R5 takes them to mean
# ---------------------------------------------------------------------------------------------------------------
# R5 evaluates the per-entry rules over a model of the environment: `get(NAME)` is None exactly when the variable is
# unset and the stored string otherwise, `contains_key(NAME)` is "the variable is set" (an empty string is set),
# `insert(k, v)` stores v under k whatever was there and whatever v is.  Those are facts about libcnb/src/env.rs.
CONVERSIONS = ('Into::into', 'From::from', 'Clone>::clone', 'Clone::clone', 'ToOwned>::to_owned', 'ToOwned::to_owned', 'AsRef::as_ref',
               'Borrow::borrow', 'Deref::deref', '::as_os_str', '::to_os_string', '::into_os_string', '::as_ref', '::borrow', '::into',
               '::to_owned', '::clone')
ENV_INNER = 'inner'


def conv_root(v):
    """v with value-preserving conversions (into / as_ref / clone / borrow ..) peeled"""
    v = strip(v)
    for _ in range(8):
        if v[0] == 'call' and len(v[2]) == 1 and v[1].endswith(CONVERSIONS):
            v = strip(v[2][0])
        else:
            break
    return v


def _is_param(v, f, i):
    v = conv_root(v)
    return v[0] == 'param' and v[1] == f.path and v[2] == i


def env_map_field(prog):
    """name of the field of Env that holds the variables (its only field, a map from OsString to OsString)"""
    try:
        flds = [fl for v in prog.adt(ENV_T)['variants'] for fl in v['fields']]
    except Exception:
        return ENV_INNER
    maps = [fl['name'] for fl in flds if 'Map<std::ffi::OsString, std::ffi::OsString' in fl['ty']]
    return maps[0] if len(flds) == 1 and len(maps) == 1 else ENV_INNER


def _is_inner_of(v, f, i=0):
    v = strip(v)
    return v[0] == 'field' and v[2] == env_map_field(f.prog) and _is_param(v[1], f, i)


class EnvModel:
    """normal forms of the values the Env accessors return, in terms of the map inside the Env"""

    def __init__(self, prog, sl):
        self.prog, self.sl = prog, sl

    def lookup(self, f, v, d=0):
        """v as an Option of the stored string of parameter 1 (the key) in self.inner:
        'exact' (Some(stored) iff present) | 'narrowed' (None although present, for some stored values) |
        'mapped' (Some iff present, of something else) | None (not understood)"""
        v = strip(v)
        if d > 8 or v[0] != 'call':
            return None
        n, args = v[1], v[2]
        tail = n.split('::')[-1]
        if n.startswith(HM) and tail.split('<')[0] == 'get' and len(args) == 2:
            return 'exact' if _is_inner_of(args[0], f) and _is_param(args[1], f, 1) else None
        if n.startswith('std::option::Option::') and args:
            o = self.lookup(f, args[0], d + 1)
            if o is None:
                return None
            if tail in ('filter', 'take_if') and len(args) == 2:
                return 'narrowed' if o in ('exact', 'narrowed') else o
            if tail in ('as_ref', 'as_deref', 'copied', 'cloned', 'as_mut') and len(args) == 1:
                return o
            if tail == 'map' and len(args) == 2:
                return 'mapped' if o == 'exact' else o       # Some exactly when it was, another payload
            return None
        if n in self.prog.fns:
            iv = self.sl.inline_call(v)
            if iv is not None and iv != v:
                return self.lookup(f, iv, d + 1)
        return None

    def presence(self, f, v, d=0):
        """v as a boolean about the key (parameter 1): 'exact' (true iff present) | 'narrowed' (false although
        present, for some stored values) | 'negated' | None"""
        v = strip(v)
        if d > 8:
            return None
        if v[0] == 'un' and v[1] == 'Not':
            p = self.presence(f, v[2], d + 1)
            return {'exact': 'negated', 'negated': 'exact'}.get(p)
        if v[0] == 'bin' and v[1] == 'BitAnd':
            ps = [self.presence(f, v[2], d + 1), self.presence(f, v[3], d + 1)]
            if 'exact' in ps or 'narrowed' in ps:
                return 'narrowed'
            return None
        if v[0] != 'call':
            return None
        n, args = v[1], v[2]
        tail = n.split('::')[-1]
        if n.startswith(HM) and tail.split('<')[0] == 'contains_key' and len(args) == 2:
            return 'exact' if _is_inner_of(args[0], f) and _is_param(args[1], f, 1) else None
        if n.startswith('std::option::Option::') and args:
            o = self.lookup(f, args[0], d + 1)
            if o is None:
                return None
            if tail == 'is_some' and len(args) == 1:
                return {'mapped': 'exact'}.get(o, o)
            if tail == 'is_none' and len(args) == 1:
                return 'negated' if o == 'exact' else None
            if tail == 'is_some_and' and len(args) == 2:
                return 'narrowed' if o in ('exact', 'narrowed') else None
            return None
        if n in self.prog.fns:
            iv = self.sl.inline_call(v)
            if iv is not None and iv != v:
                return self.presence(f, iv, d + 1)
        return None


def map_writes(f):
    """calls of f that are handed `&mut` the map inside its Env"""
    return [c for c in f.calls if is_env_map_write(f, c)]


def on_every_path(f, bb):
    """every path from the entry of f to a return passes through block bb"""
    rets = f.return_blocks()
    return bool(rets) and all(f.dominates(bb, r) for r in rets)


def env_primitives(prog, sl):
    """[(subject, status 'holds'|'violated'|'unproven', where, message)] for Env::insert / get / contains_key and the
    derived Clone the delta application starts from"""
    out = []
    m = EnvModel(prog, sl)

    def fn(path):
        return prog.fns.get(path)

    # ---- insert: stores value under key, always --------------------------------------------------------------
    f = fn(ENV_INSERT)
    if f is None or f.argc != 3:
        out.append(('env-insert', 'unproven', 'libcnb/src/env.rs', 'Env::insert(&mut self, key, value) not found'))
    else:
        w = '%s:%d' % (f.file, f.line)
        ws = map_writes(f)
        deeper = [c for c in f.calls if not c.indirect and any(h.kind != 'Closure' and h.path != f.path and env_write_sites(prog, [h])
                                                               for h in prog.callee_fns(c))]
        cls = [h for h in prog.closures_of(f) if map_writes(h)]
        if deeper or cls or len(ws) != 1 or not (ws[0].name or '').startswith(HM) or \
                (ws[0].name or '').split('::')[-1].split('<')[0] != 'insert' or len(ws[0].args) != 3:
            out.append(('env-insert', 'unproven', w, 'Env::insert is not one HashMap::insert into self.inner: %s' %
                        ([(c.name or '?').split('::')[-1] for c in ws + deeper] or 'no write of the map')))
        else:
            c = ws[0]
            recv = sl.operand(f, c.args[0])
            k, v = sl.operand(f, c.args[1]), sl.operand(f, c.args[2])
            if not _is_inner_of(recv, f):
                out.append(('env-insert', 'unproven', c.where(), 'Env::insert writes %s' % vstr(recv)[:80]))
            elif _is_param(k, f, 2) and _is_param(v, f, 1):
                out.append(('env-insert', 'violated', c.where(), 'Env::insert stores the key under the value'))
            elif not (_is_param(k, f, 1) and _is_param(v, f, 2)):
                out.append(('env-insert', 'unproven', c.where(), 'Env::insert stores %s under %s, not the value under the key as given' %
                            (vstr(v)[:60], vstr(k)[:60])))
            elif not on_every_path(f, c.bb):
                conds = [('' if cd.outcome else 'not ') + vstr(cd.value)[:80] if cd.kind == 'bool' else
                         '%s is %s' % (vstr(cd.value)[:60], '|'.join(sorted(cd.outcome)) if cd.kind == 'variant' else cd.outcome)
                         for cd in conditions(f, c.bb, sl) if cd.kind != 'variant' or cd.outcome]
                out.append(('env-insert', 'violated', c.where(), 'Env::insert does not store the value on every path (only when %s): an override / append '
                            'with such a value leaves the previous value in place' % (' and '.join(conds) or 'some condition holds')))
            else:
                out.append(('env-insert', 'holds', w, 'Env::insert = self.inner.insert(key.into(), value.into()), unconditionally'))
    # ---- get: the stored string, None exactly when there is none ------------------------------------------------
    f = fn(ENV_GET)
    if f is None or f.argc != 2:
        out.append(('env-get', 'unproven', 'libcnb/src/env.rs', 'Env::get(&self, key) not found'))
    else:
        w = '%s:%d' % (f.file, f.line)
        rv = sl.local(f, 0)
        r = m.lookup(f, rv)
        if r == 'exact' and not map_writes(f):
            out.append(('env-get', 'holds', w, 'Env::get = self.inner.get(key)'))
        elif r == 'narrowed':
            out.append(('env-get', 'violated', w, 'Env::get returns None for some variables that are set (the lookup is filtered by the stored '
                        'value): a set variable is reported as unset: ' + vstr(rv)[:120]))
        else:
            out.append(('env-get', 'unproven', w, 'Env::get is not the lookup of the key in self.inner: ' + vstr(rv)[:120]))
    # ---- contains_key: set, whatever the value -------------------------------------------------------------------
    f = fn(ENV_CONTAINS)
    if f is None or f.argc != 2:
        out.append(('env-contains-key', 'unproven', 'libcnb/src/env.rs', 'Env::contains_key(&self, key) not found'))
    else:
        w = '%s:%d' % (f.file, f.line)
        rv = sl.local(f, 0)
        r = m.presence(f, rv)
        if r == 'exact' and not map_writes(f):
            out.append(('env-contains-key', 'holds', w, 'Env::contains_key = the key is present in self.inner'))
        elif r in ('narrowed', 'negated'):
            out.append(('env-contains-key', 'violated', w, 'Env::contains_key is not "the variable is set": it is false for some variables that '
                        'are set (e.g. to the empty string), which `default` then overwrites: ' + vstr(rv)[:120]))
        else:
            out.append(('env-contains-key', 'unproven', w, 'Env::contains_key is not the presence of the key in self.inner: ' + vstr(rv)[:120]))
    # ---- clone: what the application starts from is a faithful copy ------------------------------------------------
    cf = fn('<%s as std::clone::Clone>::clone' % ENV_T)
    if cf is None:
        out.append(('env-clone', 'unproven', 'libcnb/src/env.rs', 'Clone for Env not found'))
    elif cf.derived:
        out.append(('env-clone', 'holds', '%s:%d' % (cf.file, cf.line), 'Clone for Env is derived (field-wise copy)'))
    else:
        rv = strip(sl.local(cf, 0))
        ok = rv[0] == 'agg' and rv[1] == ENV_T and len(rv[3]) == 1 and strip(rv[3][0][1])[0] == 'call' and \
            strip(rv[3][0][1])[1].endswith(CLONE_NAMES) and _is_inner_of(strip(rv[3][0][1])[2][0], cf)
        out.append(('env-clone', 'holds' if ok else 'unproven', '%s:%d' % (cf.file, cf.line),
                    'Clone for Env copies the map' if ok else 'hand-written Clone for Env is not a copy of the map: ' + vstr(rv)[:100]))
    return out


# ---------------------------------------------------------------------------------------------------------------
# R8: the entries apply() reads for a scope are the ones insert() stored for that scope
# ---------------------------------------------------------------------------------------------------------------
# "entries of scope X" is defined by LayerEnv::insert: the (behaviour, name, value) given for scope X must end up —
# unchanged, and next to what was stored before — in the delta R1 shows LayerEnv::apply to fold for X.
LE_INSERT = L.LE + '::insert'
LE_CHAIN = L.LE + '::chainable_insert'
LE_EMPTY = L.LE + '::apply_to_empty'
ROUTE = {'All': 'all', 'Build': 'build', 'Launch': 'launch'}
HM_OCC = HM_ENTRY + 'OccupiedEntry'
HM_VAC = HM_ENTRY + 'VacantEntry'
REPLACING = ('insert', 'insert_entry', 'remove', 'remove_entry', 'clear', 'retain', 'drain', 'extract_if', 'and_modify', 'replace_entry',
             'replace_key')


def _tail(n):
    return (n or '').split('::')[-1].split('<')[0]


def _no_arg_fresh(v):
    v = strip(v)
    return v[0] == 'call' and not v[2] and _tail(v[1]) in ('new', 'default')


def is_fresh_delta(sl, v):
    """v is an empty LayerEnvDelta: LayerEnvDelta::new() / ::default(), or what they return"""
    v = strip(v)
    if _no_arg_fresh(v) and (v[1].startswith(LED + '::') or v[1].endswith('Default>::default') or v[1].endswith('Default::default')):
        iv = strip(sl.inline_deep(v))
        if iv == v:
            return True     # the derived Default
        v = iv
    if v[0] == 'agg' and v[1] == LED:
        return all(_no_arg_fresh(strip(sl.inline_deep(x))) for _, x in v[3])
    return False


def fresh_delta_maker(sl, v):
    """v is something that, called without arguments, makes an empty delta (LayerEnvDelta::new, Default::default, || ..)"""
    v = strip(v)
    if v[0] == 'fnitem':
        return is_fresh_delta(sl, ('call', v[1], (), None))
    if v[0] == 'closure':
        r = sl.apply_closure(v, ())
        return r is not None and is_fresh_delta(sl, r)
    return False


def process_slot(sl, f, v):
    """v as `&mut` the delta stored for the process name of the scope (parameter 1 of f), created empty when there is
    none and otherwise the one that is there: 'ok' | 'replaces' (the stored delta is overwritten) |
    'key:<shown>' (a slot of self.process under another key than the process name as given) | None"""
    badkey = []

    def entry_of(e):
        e = strip(e)
        if e[0] == 'call' and e[1].startswith(HM) and _tail(e[1]) == 'entry' and len(e[2]) == 2 and L.self_field(f, e[2][0]) == 'process':
            key = conv_root(e[2][1])
            if key[0] == 'field' and key[2] == '0' and key[1][0] == 'variant' and key[1][2] == 'Process' and _is_param(key[1][1], f, 1):
                return canon(e)
            badkey.append(vstr(key)[:80])
        return None

    def alt(a):
        a = strip(a)
        if a[0] != 'call' or not a[2]:
            return None
        n, t = a[1], _tail(a[1])
        x = strip(a[2][0])
        if n.startswith(HM_OCC) and t == 'into_mut' and len(a[2]) == 1:
            if x[0] == 'field' and x[2] == '0' and x[1][0] == 'variant' and x[1][2] == 'Occupied':
                e = entry_of(x[1][1])
                return ('occupied', e) if e else None
            if x[0] == 'call' and x[1].startswith(HM_ENTRY + 'Entry') and _tail(x[1]) == 'insert_entry' and len(x[2]) == 2 and entry_of(x[2][0]):
                return ('replaces', entry_of(x[2][0]))
            return None
        if n.startswith(HM_VAC) and t == 'insert' and len(a[2]) == 2:
            if x[0] == 'field' and x[2] == '0' and x[1][0] == 'variant' and x[1][2] == 'Vacant' and is_fresh_delta(sl, a[2][1]):
                e = entry_of(x[1][1])
                return ('vacant', e) if e else None
            return None
        if n.startswith(HM_ENTRY + 'Entry'):
            e = entry_of(x)
            if e is None:
                return None
            if t == 'or_default' and len(a[2]) == 1:
                return ('both', e)
            if t == 'or_insert' and len(a[2]) == 2 and is_fresh_delta(sl, a[2][1]):
                return ('both', e)
            if t == 'or_insert_with' and len(a[2]) == 2 and fresh_delta_maker(sl, a[2][1]):
                return ('both', e)
        return None

    v = strip(v)
    alts = [alt(x) for x in (v[1] if v[0] == 'phi' else (v,))]
    if badkey:
        return 'key:' + badkey[0]
    if any(a is None for a in alts) or len({a[1] for a in alts}) != 1:
        return None
    kinds = {a[0] for a in alts}
    if 'replaces' in kinds:
        return 'replaces'
    if kinds == {'both'} or kinds == {'occupied', 'vacant'}:
        return 'ok'
    return None


def insert_routing(prog, sl):
    """[(subject, status, where, message)]: LayerEnv::insert per Scope variant, LayerEnvDelta::insert,
    chainable_insert and apply_to_empty"""
    out = []
    f = prog.fns.get(LE_INSERT)
    variants = [v['name'] for v in prog.adt(SCOPE)['variants']]
    if f is None or f.argc != 5:
        for v in variants:
            out.append(('insert/' + v, 'unproven', 'libcnb/src/layer_env.rs', 'LayerEnv::insert(&mut self, scope, behaviour, name, value) not found'))
    else:
        w = '%s:%d' % (f.file, f.line)
        eng = Engine(prog, f)
        for v in variants:
            spec = Spec(eng, ScopeCase(f, v))
            subj = 'insert/' + v
            region = [f] + [h for h in prog.reach([f]).values() if h.crate == f.crate and h.path != f.path and h.path != L.INSERT
                            and h.kind != 'Closure' and not h.path.startswith(LED)]
            stores = [c for c in f.calls if c.name == L.INSERT and spec.block_feasible(f, c.bb)]
            hidden = [c for h in region[1:] for c in h.calls if c.name == L.INSERT]
            if hidden or len(stores) != 1 or len(stores[0].args) != 4:
                out.append((subj, 'violated' if not stores and not hidden else 'unproven', w,
                            'Scope::%s: %s' % (v, 'the entry is not stored in any delta' if not stores and not hidden else
                                                '%d stores of the entry (%d inside helpers)' % (len(stores) + len(hidden), len(hidden)))))
                continue
            c = stores[0]
            if not spec.certain(f, [], c.bb):
                out.append((subj, 'violated', c.where(), 'Scope::%s: the entry is stored on some paths only' % v))
                continue
            recv = strip(spec.asl.operand(f, c.args[0]))
            args = [spec.asl.operand(f, a) for a in c.args[1:]]
            if not all(_is_param(a, f, 2 + i) for i, a in enumerate(args)):
                swapped = _is_param(args[1], f, 4) and _is_param(args[2], f, 3)
                out.append((subj, 'violated' if swapped else 'unproven', c.where(),
                            'Scope::%s: the delta is given (%s), not (behaviour, name, value) as passed in' % (v, ', '.join(vstr(a)[:30] for a in args))))
                continue
            # nothing stored for a process before may be thrown away on the way
            lost = []
            for c2 in f.calls:
                if c2.indirect or not spec.block_feasible(f, c2.bb) or _tail(c2.name) not in REPLACING or not c2.args:
                    continue
                if not ((c2.name or '').startswith(HM) or (c2.name or '').startswith(HM_ENTRY)):
                    continue
                if (c2.name or '').startswith(HM_VAC):
                    continue        # filling a vacant slot replaces nothing
                a0 = spec.asl.operand(f, c2.args[0])
                if any(L.self_field(f, x) == 'process' for x in walk(a0)):
                    lost.append(c2)
            if v in ROUTE:
                fld = L.self_field(f, recv)
                if fld is None:
                    out.append((subj, 'unproven', c.where(), 'Scope::%s: the entry is stored in %s' % (v, vstr(recv)[:80])))
                elif fld != ROUTE[v]:
                    out.append((subj, 'violated', c.where(), 'an entry inserted for Scope::%s is stored in self.%s; LayerEnv::apply reads self.%s for '
                                'that scope, so the entry has no effect there and takes effect for another scope' % (v, fld, ROUTE[v])))
                elif lost:
                    out.append((subj, 'unproven', lost[0].where(), 'Scope::%s: %s on self.process' % (v, _tail(lost[0].name))))
                else:
                    out.append((subj, 'holds', w, 'Scope::%s -> self.%s.insert(behaviour, name, value)' % (v, fld)))
            else:
                ps = process_slot(spec.asl, f, recv)
                if ps == 'replaces' or (ps == 'ok' and lost):
                    out.append((subj, 'violated', (lost[0] if lost else c).where(), 'Scope::Process: the delta stored for the process is replaced by an empty one '
                                'before the entry is added — entries inserted earlier for the same process are lost'))
                elif ps is not None and ps.startswith('key:'):
                    out.append((subj, 'violated', c.where(), 'Scope::Process: the delta is kept under %s, not under the process name as given — LayerEnv::apply '
                                'looks it up under the name of the queried scope (R1)' % ps[4:]))
                elif ps != 'ok':
                    out.append((subj, 'unproven', c.where(), 'Scope::Process: the entry is not stored in self.process[name] (kept when present, created '
                                'empty otherwise): ' + vstr(recv)[:140]))
                else:
                    out.append((subj, 'holds', w, 'Scope::Process(p) -> self.process[p] (created empty when missing).insert(behaviour, name, value)'))
    # ---- LayerEnvDelta::insert: entries[(behaviour, name)] = value -----------------------------------------------
    d = prog.fns.get(L.INSERT)
    if d is None or d.argc != 4:
        out.append(('delta-insert', 'unproven', 'libcnb/src/layer_env.rs', 'LayerEnvDelta::insert not found'))
    else:
        w = '%s:%d' % (d.file, d.line)
        ws = [c for c in d.calls if not c.indirect and c.args and op_place(c.args[0]) and
              L.self_field(d, sl.operand(d, c.args[0])) == 'entries' and (d.locals[op_place(c.args[0])[0]].get('ty') or '').startswith('&mut')]
        if len(ws) != 1 or _tail(ws[0].name) != 'insert' or 'BTreeMap' not in (ws[0].name or '') or len(ws[0].args) != 3:
            out.append(('delta-insert', 'unproven', w, 'LayerEnvDelta::insert is not one BTreeMap::insert into self.entries: %s' %
                        [(c.name or '?').split('::')[-1] for c in ws]))
        else:
            c = ws[0]
            key, val = strip(sl.operand(d, c.args[1])), sl.operand(d, c.args[2])
            kok = key[0] == 'tuple' and len(key[1]) == 2 and _is_param(key[1][0], d, 1) and _is_param(key[1][1], d, 2)
            if kok and _is_param(val, d, 3) and on_every_path(d, c.bb):
                out.append(('delta-insert', 'holds', w, 'entries.insert((behaviour, name), value)'))
            elif key[0] == 'tuple' and len(key[1]) == 2 and _is_param(key[1][1], d, 3) and _is_param(val, d, 2):
                out.append(('delta-insert', 'violated', c.where(), 'name and value are swapped'))
            elif kok and _is_param(val, d, 3):
                out.append(('delta-insert', 'violated', c.where(), 'the entry is stored on some paths only'))
            else:
                out.append(('delta-insert', 'unproven', c.where(), 'entries.insert(%s, %s) is not ((behaviour, name), value)' % (vstr(key)[:60], vstr(val)[:40])))
    # ---- chainable_insert = insert, then self ------------------------------------------------------------------------
    ch = prog.fns.get(LE_CHAIN)
    if ch is None or ch.argc != 5:
        out.append(('chainable-insert', 'unproven', 'libcnb/src/layer_env.rs', 'LayerEnv::chainable_insert not found'))
    else:
        w = '%s:%d' % (ch.file, ch.line)
        cs = [c for c in ch.calls if c.name == LE_INSERT]
        rv = strip(sl.local(ch, 0))
        if len(cs) == 1 and len(cs[0].args) == 5 and on_every_path(ch, cs[0].bb) and \
                all(_is_param(sl.operand(ch, a), ch, i) for i, a in enumerate(cs[0].args)) and _is_param(rv, ch, 0):
            out.append(('chainable-insert', 'holds', w, 'chainable_insert = { self.insert(scope, behaviour, name, value); self }'))
        else:
            shown = [vstr(sl.operand(ch, a))[:30] for a in cs[0].args] if cs else []
            out.append(('chainable-insert', 'violated' if len(cs) == 1 and len(shown) == 5 and sorted(shown) == sorted(ch.local_name(i + 1) or '' for i in range(5)) else 'unproven',
                        w, 'chainable_insert is not `self.insert(scope, behaviour, name, value); self`: insert(%s) -> %s' % (', '.join(shown), vstr(rv)[:40])))
    # ---- apply_to_empty = apply(scope, <no variables>) ----------------------------------------------------------------
    ae = prog.fns.get(LE_EMPTY)
    if ae is None or ae.argc != 2:
        out.append(('apply-to-empty', 'unproven', 'libcnb/src/layer_env.rs', 'LayerEnv::apply_to_empty not found'))
    else:
        w = '%s:%d' % (ae.file, ae.line)
        rv = strip(sl.inline_deep(sl.local(ae, 0), keep=(L.APPLY,)))
        ok = rv[0] == 'call' and rv[1] == L.APPLY and len(rv[2]) == 3 and _is_param(rv[2][0], ae, 0) and _is_param(rv[2][1], ae, 1)
        if ok:
            e = strip(rv[2][2])
            empty = (e[0] == 'agg' and e[1] == ENV_T and len(e[3]) == 1 and _no_arg_fresh(e[3][0][1])) or \
                (_no_arg_fresh(e) and (e[1].endswith('Default>::default') or e[1].endswith('Default::default')))
            if empty:
                out.append(('apply-to-empty', 'holds', w, 'apply_to_empty(scope) = apply(scope, &<no variables>)'))
            else:
                out.append(('apply-to-empty', 'violated' if e[0] == 'call' or e[0] == 'agg' else 'unproven', w,
                            'apply_to_empty starts from %s, not from an environment without variables' % vstr(e)[:80]))
        else:
            out.append(('apply-to-empty', 'unproven', w, 'apply_to_empty is not self.apply(scope, &<empty>): ' + vstr(rv)[:120]))
    return out
