"""C04 helpers — case-wise (assumption-specialised) evaluation of a function.

The CNB rules for applying a layer environment are a finite case table:

    LayerEnv::apply        per Scope variant            -> ordered list of deltas folded over the input env
    LayerEnvDelta::apply   per (behaviour of the entry,
                                previous value unset / empty / non-empty,
                                delimiter entry present / absent) -> what is inserted under the entry's name

Instead of recognising one spelling of the code, the functions are *evaluated once per case*: an assumption decides
the branch conditions it speaks about (`Engine`/`Spec.edge_state`), definitions and string/vector pushes in blocks that
are unreachable under the assumption disappear from the sliced values (`ASlicer`), and what remains is compared with the
table.  Conditions are decided on normal forms (Option algebra `opt`, boolean algebra `boolv`, string atoms `atoms`), in
the terms of the root function (parameters of private helpers are bound to what the root passes in), so that helpers,
combinators (`filter`, `map_or_else`, `then`, ..), match guards, early `continue`s and hoisted computations are all the
same thing.

  Engine(prog, root)        assumption independent: push-site aware slicer, parameter bindings, per-edge conditions
  Spec(engine, decider)     one case: edge decisions, feasible blocks, specialised slicer, path events
  ScopeCase / ArmCase       the deciders of the two tables
"""
from . import layer_env_common as L
from .lib import iters
from .lib.guards import Cond, _discr_info, conditions
from .lib.paths import strip
from .lib.mir import op_place
from .lib.value import Slicer, canon, subst, vstr, walk, _phi

MB = L.MB
SCOPE = L.SCOPE
ENV_INSERT = 'libcnb::env::Env::insert'
ENV_GET = 'libcnb::env::Env::get'
ENV_CONTAINS = 'libcnb::env::Env::contains_key'
VEC_PUSH = 'std::vec::Vec::<T, A>::push'
PUSH, MAYBE = '<push>', '<maybe>'


# ---------------------------------------------------------------------------------------------------------------
# slicers
# ---------------------------------------------------------------------------------------------------------------
class PSlicer(Slicer):
    """the library slicer, with two differences: values pushed onto a string / vector remember the block of the push
    (('call', '<push>', (value,), (fn, bb))), and Vec::push is an appender like OsString::push"""
    APPENDERS = set(Slicer.APPENDERS) | {VEC_PUSH}

    def __init__(self, prog, spec=None, symbolic=False):
        Slicer.__init__(self, prog)
        self.spec = spec
        self.symbolic_upvars = symbolic
        if not symbolic:
            self._sym = self.__class__(prog, spec, True)

    def _feasible(self, fn, bb):
        return True

    def _certain(self, fn, starts, bb):
        return True

    def local(self, fn, local, _seen=None, _d=0):
        spec = self.spec
        n0 = spec.conservative if spec is not None else 0
        v = Slicer.local(self, fn, local, _seen, _d)
        if spec is not None and spec.conservative != n0:
            self._cache.pop((fn.path, local), None)    # computed while a decision was not available yet
        return v

    def _local(self, fn, local, seen, d):
        defs = [dd for dd in fn.whole_defs(local) if self._feasible(fn, dd[1])]
        is_param = 1 <= local <= fn.argc
        if is_param:
            if fn.kind == 'Closure' and local == 1:
                pv = ('closure_env', fn.path)
            else:
                pv = ('param', fn.path, local - 1, fn.local_name(local))
            if not defs:
                return pv
            vals = [pv] + [self._def_value(fn, dd, seen, d) for dd in defs]
            return _phi(vals)
        if not defs:
            if fn.whole_defs(local):
                return ('unknown', 'infeasible')
            return Slicer._local(self, fn, local, seen, d)
        vals = [self._def_value(fn, dd, seen, d) for dd in defs]
        v = self._select(fn, defs, vals) if len(defs) > 1 else None
        if v is None:
            v = _phi(vals)
        return self._with_updates2(fn, local, v, seen, d, [dd[1] for dd in defs])

    EXTEND = 'std::iter::Extend::extend'
    CONTENT_TYPES = ('std::vec::Vec', 'std::ffi::OsString', 'std::string::String', 'std::path::PathBuf')

    def _mutations(self, fn, local):
        """calls that receive `&mut local` (directly or through a reborrow), in reverse post-order:
        [(kind, Call)] with kind 'push' (an appender), 'extend', or 'other' (anything else that may change the value)"""
        key = ('mutations', fn.path)
        idx = self._cache.get(key)
        if idx is None:
            idx = {}
            refs = {}
            for _ in range(2):
                for b in fn.blocks:
                    for st in b['s']:
                        if st[0] == '=' and len(st[1]) == 1 and st[2]['r'] == 'ref' and st[2].get('mut'):
                            p = st[2]['p']
                            if len(p) == 1:
                                refs[st[1][0]] = p[0]
                            elif len(p) == 2 and p[1] == '*' and p[0] in refs:
                                refs[st[1][0]] = refs[p[0]]
            rpo = fn._rpo()
            pos = {b: i for i, b in enumerate(rpo)}
            for c in sorted(fn.calls, key=lambda c: pos.get(c.bb, 10 ** 6)):
                for i, a in enumerate(c.args):
                    pl = op_place(a)
                    if not (pl and len(pl) == 1 and pl[0] in refs):
                        continue
                    if not c.indirect and i == 0 and c.name in self.APPENDERS and len(c.args) == 2:
                        kind = 'push'
                    elif not c.indirect and i == 0 and c.decl == self.EXTEND and len(c.args) == 2:
                        kind = 'extend'
                    elif fn.locals[refs[pl[0]]].get('head') in self.CONTENT_TYPES:
                        kind = 'other'
                    else:
                        continue       # iterators, maps, the environment: not values this slicer describes by content
                    idx.setdefault(refs[pl[0]], []).append((kind, c))
            self._cache[key] = idx
        return idx.get(local, [])

    def _with_updates2(self, fn, local, v, seen, d, def_bbs):
        muts = self._mutations(fn, local)
        if not muts:
            return Slicer._with_updates(self, fn, local, v, seen, d)
        rd = self._read_into(fn, local)
        if rd is not None:
            return rd
        muts = [(k, c) for k, c in muts if self._feasible(fn, c.bb)]
        if not muts:
            return v
        fresh = v[0] == 'call' and v[1].endswith(('::new', '::with_capacity', '::default'))
        parts = []
        for kind, c in muts:
            site = (fn.path, c.bb, tuple(def_bbs), kind)
            if kind == 'other':
                parts.append(('call', MAYBE, (('call', '<mutated-by>', (('const', c.name or 'indirect call'),), None),), site))
                continue
            pv = self.operand(fn, c.args[1], seen, d)
            parts.append(('call', PUSH if self._certain(fn, def_bbs, c.bb) else MAYBE, (pv,), site))
        return ('concat', v, tuple(parts), fresh)


class ASlicer(PSlicer):
    """slicing under the assumption of a Spec: definitions and pushes in infeasible blocks do not exist; a push that is
    not on every feasible path from the definition of its receiver is marked '<maybe>'"""

    def _feasible(self, fn, bb):
        return self.spec.block_feasible(fn, bb)

    def _certain(self, fn, starts, bb):
        return self.spec.certain(fn, starts, bb)


# ---------------------------------------------------------------------------------------------------------------
# per-edge conditions (guards.conditions only reports edges that dominate a block)
# ---------------------------------------------------------------------------------------------------------------
def edge_conds(fn, sl):
    """{switch block: [(target block, Cond | None)]}"""
    out = {}
    for sb, blk in enumerate(fn.blocks):
        t = blk['t']
        if t['t'] != 'switch':
            continue
        by_target = {}
        for v, tb in t['targets']:
            by_target.setdefault(tb, []).append(v)
        by_target.setdefault(t['else'], []).append('else')
        listed = [v for v, _ in t['targets']]
        di = _discr_info(fn, sb, t['o'])
        val0 = sl.operand(fn, t['o'])
        rows = []
        for tb, labels in by_target.items():
            cd = None
            val = val0
            if di:
                place, vmap, enum = di
                names = set()
                for lab in labels:
                    if lab == 'else':
                        names |= {n for v, n in vmap.items() if v not in listed}
                    else:
                        names.add(vmap.get(lab, str(lab)))
                cd = Cond(fn, sb, tb, 'variant', frozenset(names), val, sl.place(fn, place), enum)
            elif t.get('oty') == 'bool':
                outcome = None
                if labels == ['else'] and listed == [0]:
                    outcome = True
                elif labels == [0]:
                    outcome = False
                elif labels == [1]:
                    outcome = True
                elif labels == ['else'] and listed == [1]:
                    outcome = False
                if outcome is not None:
                    while val[0] == 'un' and val[1] == 'Not':
                        val = val[2]
                        outcome = not outcome
                    if val[0] == 'select' and all(rv[0] == 'const' and isinstance(rv[1], bool) for _, rv in val[3]):
                        names = frozenset(n for ns, rv in val[3] if rv[1] == outcome for n in ns)
                        cd = Cond(fn, sb, tb, 'variant', names, val, val[1], val[2])
                    else:
                        cd = Cond(fn, sb, tb, 'bool', outcome, val)
                        cd._slicer = sl
            rows.append((tb, cd))
        out[sb] = rows
    return out


# ---------------------------------------------------------------------------------------------------------------
# engine / spec
# ---------------------------------------------------------------------------------------------------------------
class Engine:
    def __init__(self, prog, root):
        self.prog = prog
        self.root = root
        self.psl = PSlicer(prog)
        self.bind = {}
        self._ec = {}
        self._has = {}
        self._propagate()

    def rebind(self, pre):
        """start over from the given bindings (parameters of a closure that visits the elements of a collection)"""
        self.bind = dict(pre)
        self._propagate()

    def edge_conds(self, fn):
        if fn.path not in self._ec:
            self._ec[fn.path] = edge_conds(fn, self.psl)
        return self._ec[fn.path]

    def to_root(self, v):
        return subst(v, self.bind, self.psl) if self.bind and v is not None else v

    def _propagate(self):
        """parameters of the private functions reached from the root, bound to what their call sites pass in, in the
        root's terms — only where all call sites in the region agree.  Iterated: a helper of a helper is expressed in
        the root's terms one round later."""
        prog, root = self.prog, self.root
        region, work = {}, [root]
        while work:
            f = work.pop()
            if f.path in region:
                continue
            region[f.path] = f
            for c in f.calls:
                if not c.indirect:
                    work.extend(h for h in prog.callee_fns(c) if h.kind != 'Closure')
            work.extend(prog.closures_of(f))
        self.region = set(region)
        pre = dict(self.bind)
        for _ in range(6):
            sites = {}
            for f in region.values():
                for c in f.calls:
                    if c.indirect:
                        continue
                    for h in prog.callee_fns(c):
                        if h.kind == 'Closure' or h.path == root.path:
                            continue
                        sites.setdefault(h.path, []).append(tuple(self.to_root(self.psl.operand(f, a)) for a in c.args[:h.argc]))
            new = dict(pre)
            for hp, ss in sites.items():
                h = prog.fns[hp]
                for i in range(h.argc):
                    if (hp, i) in pre or not all(i < len(x) for x in ss):
                        continue
                    if len({canon(x[i]) for x in ss}) == 1:
                        new[(hp, i)] = ss[0][i]
            same = set(new) == set(self.bind) and all(canon(new[k]) == canon(self.bind[k]) for k in new)
            self.bind = new
            if same:
                break

    def has_call(self, fn, name):
        """fn (or something it may enter) calls `name`"""
        key = (fn.path, name)
        if key not in self._has:
            self._has[key] = any(c.name == name for g in self.prog.reach([fn]).values() for c in g.calls)
        return self._has[key]


class EngineView:
    """an Engine with additional parameter bindings: one call site of a helper that is called from several places"""

    def __init__(self, base, extra):
        self.base, self.extra = base, dict(extra)
        self.prog, self.root, self.psl = base.prog, base.root, base.psl
        self.bind = dict(base.bind)
        self.bind.update(self.extra)

    def edge_conds(self, fn):
        return self.base.edge_conds(fn)

    def has_call(self, fn, name):
        return self.base.has_call(fn, name)

    def to_root(self, v):
        v = self.base.to_root(v)
        return subst(v, self.extra, self.psl) if v is not None else v


class Spec:
    """one case: `decider.decide(spec, fn, cond)` -> True (the edge is taken) / False (never) / None (not decided)"""

    def __init__(self, engine, decider):
        self.engine = engine
        self.prog = engine.prog
        self.root = engine.root
        self.decider = decider
        self.conservative = 0
        self._busy = set()
        self._estate = {}
        self._reach = {}
        self.asl = ASlicer(self.prog, self)
        self.seen_sites = set()
        self._subs = {}

    def to_root(self, v):
        return self.engine.to_root(v)

    def for_call(self, h, args):
        """the Spec in which helper h is evaluated for a call with the given argument values (root terms): this one
        when h's parameters are bound already, else a copy that binds them for this call"""
        missing = {(h.path, i): a for i, a in enumerate(args[:h.argc]) if (h.path, i) not in self.engine.bind}
        if not missing or h.kind == 'Closure':
            return self
        key = (h.path, tuple(canon(a) for a in args[:h.argc]))
        if key not in self._subs:
            sub = Spec(EngineView(self.engine, missing), self.decider)
            sub.seen_sites = self.seen_sites
            sub._subs = self._subs
            self._subs[key] = sub
        return self._subs[key]

    # ---- decisions --------------------------------------------------------------------------------
    def edge_state(self, fn, sb):
        key = (fn.path, sb)
        if key in self._estate:
            return self._estate[key]
        rows = self.engine.edge_conds(fn).get(sb, [])
        st = {}
        for tb, cd in rows:
            r = None
            if cd is not None:
                if cd.kind == 'variant' and not cd.outcome:
                    r = False      # the `otherwise -> unreachable` edge of an exhaustive match
                else:
                    r = self.decider.decide(self, fn, cd)
            st[tb] = r
        if any(r is True for r in st.values()):
            st = {tb: (r is True) for tb, r in st.items()}
        else:
            open_ = [tb for tb, r in st.items() if r is not False]
            if len(open_) == 1 and len(st) > 1:
                st[open_[0]] = True
        self._estate[key] = st
        return st

    def fsuccs(self, fn, b):
        t = fn.blocks[b]['t']
        if t['t'] == 'switch':
            st = self.edge_state(fn, b)
            return [tb for tb in dict.fromkeys(fn.succs(b)) if st.get(tb) is not False]
        return list(fn.succs(b))

    def reach(self, fn):
        if fn.path in self._reach:
            return self._reach[fn.path]
        if fn.path in self._busy:
            self.conservative += 1
            return None
        self._busy.add(fn.path)
        try:
            seen, work = set(), [0]
            while work:
                b = work.pop()
                if b in seen:
                    continue
                seen.add(b)
                work.extend(self.fsuccs(fn, b))
        finally:
            self._busy.discard(fn.path)
        self._reach[fn.path] = seen
        return seen

    def block_feasible(self, fn, bb):
        r = self.reach(fn)
        return True if r is None else bb in r

    def certain(self, fn, starts, via):
        """every feasible path from the blocks `starts` (definitions of a receiver; the entry if there is none) that
        ends the function or comes back to a start passes through block `via`"""
        if self.reach(fn) is None:
            return False
        starts = list(starts)
        ends = set(fn.return_blocks())
        for s in (starts or [None]):
            if s == via:
                continue
            work = [0] if s is None else list(self.fsuccs(fn, s))
            seen = set()
            while work:
                b = work.pop()
                if b == via or b in seen:
                    continue
                seen.add(b)
                if b in starts or b in ends:
                    return False
                work.extend(self.fsuccs(fn, b))
        return True

    # ---- path events --------------------------------------------------------------------------------
    def events(self, fn, starts, ends, event_of, ret_marker=None, stack=()):
        """set of event tuples, one per class of feasible paths from `starts` until a block of `ends` / a return.
        `event_of(spec, fn, call)` -> tuple of events of a call terminator (() for none), or None to descend into the
        workspace callee"""
        memo, on = {}, set()
        ends = set(ends)

        def here(b):
            c = fn.call_at(b)
            if c is None:
                return {()}
            ev = event_of(self, fn, c)
            if ev is not None:
                return {tuple(ev)}
            out = set()
            for h in self.prog.callee_fns(c):
                if h.path in stack or h.path == fn.path or len(stack) > 6:
                    out.add((('?recursion', h.path),))
                else:
                    sub = self.for_call(h, [self.to_root(self.asl.operand(fn, a)) for a in c.args])
                    out |= sub.events(h, [0], (), event_of, None, stack + (fn.path,))
            return out or {()}

        def go(b, first=False):
            if b in ends and not first:
                return {()}
            if b in on:
                return {(('?inner-loop', b),)}
            if b in memo:
                return memo[b]
            on.add(b)
            hs = here(b)
            t = fn.blocks[b]['t']['t']
            succs = self.fsuccs(fn, b)
            if t in ('ret', 'return'):
                tails = {(ret_marker,)} if ret_marker else {()}
            elif not succs:
                tails = set()      # unreachable / diverging
            else:
                tails = set()
                for s in succs:
                    tails |= go(s)
            res = {h + tl for h in hs for tl in tails}
            if len(res) > 64:
                res = {(('?too-many-paths',),)}
            on.discard(b)
            memo[b] = res
            return res

        out = set()
        for s in starts:
            out |= go(s, True)
        return out


# ---------------------------------------------------------------------------------------------------------------
# R1: the deltas LayerEnv::apply folds, per Scope variant
# ---------------------------------------------------------------------------------------------------------------
ORDER_CHANGING = ('rev', 'reverse', 'sort', 'sort_by', 'sort_by_key', 'sort_unstable', 'sort_unstable_by', 'sort_unstable_by_key',
                  'swap', 'rotate_left', 'rotate_right', 'swap_remove', 'dedup', 'retain')


class ScopeCase:
    def __init__(self, root, variant):
        self.root, self.variant = root, variant

    def decide(self, spec, fn, cd):
        if cd.kind == 'variant' and cd.enum == SCOPE and cd.subject is not None:
            s = strip(spec.to_root(cd.subject))
            if s[0] == 'param' and s[1] == self.root.path and s[2] == 1:
                return self.variant in cd.outcome
        return None


class ScopeEval:
    """the ordered list of delta labels applied for one Scope variant, or None (+ self.why) when the returned value is
    not a left fold of LayerEnvDelta::apply over an ordered collection starting from the input env"""

    def __init__(self, engine, variant):
        self.engine = engine
        self.prog = engine.prog
        self.f = engine.root
        self.variant = variant
        self.spec = Spec(engine, ScopeCase(engine.root, variant))
        self.asl = self.spec.asl
        self.why = None
        self.shape = None

    def fail(self, why):
        if self.why is None:
            self.why = why
        return None

    def is_env(self, v):
        v = strip(v)
        return v[0] == 'param' and v[1] == self.f.path and v[2] == 2

    def run(self):
        return self.seq(self.asl.local(self.f, 0), 0)

    # the environment accumulator
    def seq(self, v, d):
        v = strip(v)
        if d > 8:
            return self.fail('too deep')
        if self.is_env(v):
            return []
        if v[0] == 'call' and v[1] == L.DAPPLY and len(v[2]) == 2:
            base = self.seq(v[2][1], d + 1)
            if base is None:
                return None
            lab = self.label(v[2][0])
            return base + [lab]
        if v[0] == 'call' and v[1] == 'std::iter::Iterator::fold' and len(v[2]) == 3:
            it, init, cl = v[2]
            body = self.asl.apply_closure(strip(cl), (('sym', 'ACC'), ('sym', 'ELEM')))
            body = strip(body) if body is not None else None
            if not (body is not None and body[0] == 'call' and body[1] == L.DAPPLY and len(body[2]) == 2
                    and strip(body[2][0]) == ('sym', 'ELEM') and strip(body[2][1]) == ('sym', 'ACC')):
                return self.fail('fold body is not delta.apply(&acc): ' + vstr(body)[:80])
            base = self.seq(init, d + 1)
            els = self.elems(it, 0)
            if base is None or els is None:
                return None
            self.shape = self.shape or 'fold'
            return base + els
        if v[0] == 'phi':
            alts = [strip(a) for a in v[1]]
            cyc = lambda a: any(x == ('unknown', 'cycle') for x in walk(a))
            steps = [a for a in alts if a[0] == 'call' and a[1] == L.DAPPLY and len(a[2]) == 2 and cyc(a[2][1])]
            inits = [a for a in alts if a not in steps]
            if len(steps) == 1 and inits:
                step = steps[0]
                if strip(step[2][1]) != ('unknown', 'cycle'):
                    # the accumulator itself, seen once more through the loop
                    inner = strip(step[2][1])
                    if not (inner[0] == 'phi' and all(strip(x) in inits or strip(x) == ('unknown', 'cycle') or
                                                      (strip(x)[0] == 'call' and strip(x)[1] == L.DAPPLY and cyc(x)) for x in inner[1])):
                        return self.fail('loop step does not apply the delta to the accumulator: ' + vstr(step)[:100])
                coll, proj = L.loop_element(step[2][0])
                if coll is None or proj != ():
                    return self.fail('loop step does not apply the loop element: ' + vstr(step[2][0])[:100])
                if not self.loop_ok(step):
                    return None
                bases = [self.seq(a, d + 1) for a in inits]
                if any(b is None for b in bases):
                    return None
                if any(b != bases[0] for b in bases):
                    return self.fail('accumulator starts from different values')
                els = self.elems(coll, 0)
                if els is None:
                    return None
                self.shape = self.shape or 'loop'
                return bases[0] + els
            if all(not cyc(a) for a in alts):
                seqs = [self.seq(a, d + 1) for a in alts]
                if all(s is not None for s in seqs):
                    if all(s == seqs[0] for s in seqs):
                        return seqs[0]
                    # `match map.get(key) { Some(delta) => delta.apply(&acc), None => acc }`
                    short = min(seqs, key=len)
                    longs = [(a, s) for a, s in zip(alts, seqs) if s != short]
                    if all(len(s) == len(short) + 1 and s[:-1] == short and self.optional_step(a) for a, s in longs) and \
                            len({s[-1] for _, s in longs}) == 1:
                        last = longs[0][1][-1]
                        return short + [last[:-len('!unguarded')] + '?' if last.endswith('!unguarded') else last + '!not-a-lookup']
            return self.fail('result is not one fold: ' + vstr(v)[:120])
        if v[0] == 'call' and v[1].startswith('std::option::Option::') and v[1].split('::')[-1] in ('map_or', 'map_or_else') and len(v[2]) == 3:
            # map.get(key).map_or(acc, |delta| delta.apply(&acc))
            o, dflt, cl = v[2]
            if v[1].endswith('map_or_else'):
                dflt = self.asl.apply_closure(strip(dflt), ())
            body = self.asl.apply_closure(strip(cl), (('unwrap', o),))
            if dflt is not None and body is not None:
                s0, s1 = self.seq(dflt, d + 1), self.seq(body, d + 1)
                b = strip(body)
                if s0 is not None and s1 is not None and len(s1) == len(s0) + 1 and s1[:-1] == s0 and s1[-1].endswith('!unguarded') and \
                        b[0] == 'call' and b[1] == L.DAPPLY and b[2][0] == ('unwrap', o):
                    return s0 + [s1[-1][:-len('!unguarded')] + '?']
            return self.fail('result is not a fold of delta applications from the input env: ' + vstr(v)[:120])
        if v[0] == 'call' and v[1] in self.prog.fns and self.prog.fns[v[1]].kind != 'Closure' and v[1] != L.DAPPLY:
            iv = self.asl.inline_call(v)
            if iv is not None:
                return self.seq(iv, d + 1)
        return self.fail('result is not a fold of delta applications from the input env: ' + vstr(v)[:120])

    def optional_step(self, a):
        """a = delta.apply(acc) where delta is the payload of an Option and the call runs exactly when it is Some"""
        if not (a[0] == 'call' and a[1] == L.DAPPLY and len(a) > 3 and a[3] and a[2][0][0] == 'unwrap'):
            return False
        return self.guarded_by_some(a[3], a[2][0][1])

    def loop_ok(self, step):
        """the step is the only delta application inside the loop that yields its element"""
        from .lib.effects import find_loops
        site = step[3] if len(step) > 3 else None
        el = step[2][0]
        while el[0] in ('unwrap', 'updated', 'field'):
            el = el[1]
        nsite = el[3] if el[0] == 'call' and len(el) > 3 else None
        if not site or not nsite or site[0] != nsite[0] or site[0] not in self.prog.fns:
            return self.fail('loop step site not found')
        g = self.prog.fns[site[0]]
        loops = [lp for lp in find_loops(g, self.engine.psl) if lp.header == nsite[1] and site[1] in lp.body]
        if len(loops) != 1:
            return self.fail('delta application is not inside the loop over the deltas')
        inside = [c for c in g.calls if c.name == L.DAPPLY and c.bb in loops[0].body and self.spec.block_feasible(g, c.bb)]
        if len(inside) != 1:
            return self.fail('%d delta applications inside the loop' % len(inside))
        return True

    # elements of an ordered collection
    def elems(self, v, d):
        if d > 10:
            return self.fail('too deep')
        if v[0] in ('unwrap', 'updated'):
            return self.elems(v[1], d + 1)
        k = v[0]
        if k == 'array':
            return [self.label(x) for x in v[1]]
        if k == 'agg' and v[1] == 'std::option::Option':
            return [self.label(v[3][0][1])] if v[2] == 'Some' else []
        if k == 'concat':
            base = self.elems(v[1], d + 1)
            if base is None:
                return None
            out = list(base)
            for p in v[2]:
                site = p[3]
                kind = site[3] if len(site) > 3 else 'push'
                if kind == 'other':
                    return self.fail('collection changed by ' + vstr(p[2][0])[:80])
                if kind == 'extend':
                    if p[1] == MAYBE:
                        return self.fail('collection extended on some paths only')
                    more = self.elems(p[2][0], d + 1)
                    if more is None:
                        return None
                    out.extend(more)
                else:
                    out.append(self.label(p[2][0], maybe=(site if p[1] == MAYBE else None)))
            return out
        if k == 'phi':
            seqs = [self.elems(x, d + 1) for x in v[1]]
            if all(s is not None for s in seqs) and all(s == seqs[0] for s in seqs):
                return seqs[0]
            return self.fail('collection differs between paths: ' + vstr(v)[:100])
        if k == 'call':
            n, args = v[1], v[2]
            tail = n.split('::')[-1]
            if tail in ORDER_CHANGING:
                return self.fail('order changed by ' + n)
            if n in ('std::iter::empty',) or (not args and tail in ('new', 'default', 'with_capacity')) or (tail == 'with_capacity' and 'Vec' in n):
                return []
            if n == 'std::iter::once' and len(args) == 1:
                return [self.label(args[0])]
            if n == iters.IT + 'chain' and len(args) == 2:
                a, b = self.elems(args[0], d + 1), self.elems(args[1], d + 1)
                return None if a is None or b is None else a + b
            if (n in iters.COLLECTING or n in (iters.IT + 'peekable', iters.IT + 'fuse', iters.IT + 'by_ref', iters.IT + 'cloned', iters.IT + 'copied')
                    or (iters._is_source(n) and n.endswith(iters.SAME_ELEMS) and len(args) == 1)) and args:
                return self.elems(args[0], d + 1)
            if n == iters.IT + 'map' and len(args) == 2:
                r = self.asl.apply_closure(strip(args[1]), (('sym', 'ELEM'),))
                if r is not None and strip(r) == ('sym', 'ELEM'):
                    return self.elems(args[0], d + 1)
            if tail == 'get' and len(args) == 2 and L.self_field(self.f, args[0]) is not None:
                # an Option iterated: nothing, or the delta found under the key
                return [self.label(('unwrap', v), present_only=True)]
            if n in self.prog.fns and self.prog.fns[n].kind != 'Closure':
                iv = self.asl.inline_call(v)
                if iv is not None:
                    return self.elems(iv, d + 1)
        return self.fail('not an ordered literal collection: ' + vstr(v)[:120])

    def label(self, v, maybe=None, present_only=False):
        """name of a delta: the field of self, or `process[scope.process]?` for the delta found under the process name
        (`?`: skipped when there is none)"""
        s = strip(v)
        fld = L.self_field(self.f, s)
        if fld is not None and maybe is None:
            return fld
        if s[0] == 'call' and s[1].split('::')[-1] == 'get' and len(s[2]) == 2 and L.self_field(self.f, s[2][0]) is not None:
            key = strip(s[2][1])
            keyok = key[0] == 'field' and key[2] == '0' and key[1][0] == 'variant' and key[1][2] == 'Process' and \
                strip(key[1][1])[0] == 'param' and strip(key[1][1])[1] == self.f.path and strip(key[1][1])[2] == 1
            desc = '%s[%s]' % (L.self_field(self.f, s[2][0]), 'scope.process' if keyok else '?')
            if present_only:
                return desc + '?'
            if maybe is not None and v[0] == 'unwrap' and self.guarded_by_some(maybe, v[1]):
                return desc + '?'
            return desc + '!unguarded'
        if maybe is not None:
            return 'maybe(%s)' % vstr(s)[:60]
        return vstr(s)[:60]

    def guarded_by_some(self, site, optv):
        """the push at `site` runs exactly when optv is Some: the only undecided decision above it"""
        g = self.prog.fns.get(site[0])
        if g is None:
            return False
        und = []
        for cd in conditions(g, site[1], self.engine.psl):
            if self.spec.decider.decide(self.spec, g, cd) is None:
                und.append(cd)
        return (len(und) == 1 and und[0].kind == 'variant' and und[0].enum == 'std::option::Option' and und[0].outcome == frozenset({'Some'})
                and und[0].subject is not None and canon(strip(und[0].subject)) == canon(strip(optv)))


def order_changing_calls(prog, f):
    """calls that reorder a collection, in f and in the private functions it enters (other than the delta application)"""
    out = []
    region = prog.reach([f], stop=lambda g: g.path == L.DAPPLY)
    for g in region.values():
        if g.path == L.DAPPLY or g.crate != f.crate:
            continue
        for c in g.calls:
            if (c.name or '').split('::')[-1] in ORDER_CHANGING:
                out.append(c)
    return out


def scope_tables(prog):
    """({variant: [labels] | None}, {variant: reason}, {variant: 'fold'|'loop'|None}) of LayerEnv::apply"""
    f = prog.fn(L.APPLY)
    eng = Engine(prog, f)
    table, why, shape = {}, {}, {}
    for v in prog.adt(SCOPE)['variants']:
        name = v['name']
        ev = ScopeEval(eng, name)
        table[name] = ev.run()
        why[name] = ev.why
        shape[name] = ev.shape
    return f, table, why, shape


# ---------------------------------------------------------------------------------------------------------------
# R5: what LayerEnvDelta::apply inserts, per (behaviour, previous value, delimiter entry)
# ---------------------------------------------------------------------------------------------------------------
BEHAVIOURS = ('Append', 'Default', 'Delimiter', 'Override', 'Prepend')
PREV_STATES = ('unset', 'empty', 'nonempty')
DELIM_STATES = ('set', 'unset')
FRESH = ('OsString::new', 'String::new', 'Default>::default', 'Default::default', 'PathBuf::new')
KEEP = ('Clone>::clone', 'Clone::clone', 'ToOwned>::to_owned', 'ToOwned::to_owned', 'to_os_string', 'to_owned', 'Into::into', 'From::from',
        'into_os_string', 'as_os_str')


def spec_case(b, p, d):
    """the CNB rule: the value inserted under the entry's name (atoms), or None when nothing is inserted"""
    delim = ('DELIM',) if d == 'set' else ()
    if b == 'Override':
        return ('VALUE',)
    if b == 'Default':
        return ('VALUE',) if p == 'unset' else None
    if b == 'Append':
        return ('PREV',) + delim + ('VALUE',) if p == 'nonempty' else ('VALUE',)
    if b == 'Prepend':
        return ('VALUE',) + delim + ('PREV',) if p == 'nonempty' else ('VALUE',)
    return None


def unknown(v):
    return ('?' + (vstr(v)[:70] if isinstance(v, tuple) else str(v)),)


class ArmCase:
    """assumption: the entry being applied has behaviour B, the variable is unset / empty / non-empty in the
    environment built so far, and the delta has / has not a Delimiter entry for the variable"""

    def __init__(self, root, b, p, d):
        self.root, self.B, self.P, self.D = root, b, p, d

    # ---- classification of root-level values ---------------------------------------------------------
    def entry_proj(self, v):
        coll, proj = L.loop_element(v)
        if coll is not None and L.self_field(self.root, coll) == 'entries':
            return proj
        s = v
        projs = []
        while s[0] in ('field', 'updated', 'unwrap'):
            if s[0] == 'field':
                projs.append(s[2])
            s = s[1]
        if s == ('sym', 'ENTRY'):
            return tuple(reversed(projs))
        return None

    def is_behaviour(self, v):
        return self.entry_proj(v) == ('0', '0')

    def is_env(self, v):
        v = strip(v)
        return v[0] == 'param' and v[1] == self.root.path and v[2] == 1

    def is_name(self, spec, v, at):
        return self.atoms(spec, v, at) == ('NAME',)

    # ---- decisions -------------------------------------------------------------------------------------
    def decide(self, spec, fn, cd):
        at = (fn, cd.sw_bb)
        if cd.kind == 'variant' and cd.subject is not None:
            subj = spec.to_root(cd.subject)
            if cd.enum == MB:
                return (self.B in cd.outcome) if self.is_behaviour(subj) else None
            if cd.enum == 'std::option::Option':
                if self.entry_proj(('unwrap', subj)) == ():
                    return 'Some' in cd.outcome      # the entry exists
                o = self.opt(spec, subj, at)
                if o is None:
                    return None
                return ('Some' if o[0] == 'some' else 'None') in cd.outcome
            return None
        if cd.kind == 'bool':
            b = self.boolv(spec, spec.to_root(cd.value), at)
            return None if b is None else (b == cd.outcome)
        return None

    # ---- helpers ------------------------------------------------------------------------------------------
    def apply(self, spec, clv, args):
        clv = strip(clv) if clv[0] in ('unwrap', 'updated') else clv
        r = spec.asl.apply_closure(clv, tuple(args))
        return r

    def inline(self, spec, v):
        g = spec.prog.fns.get(v[1]) if v[0] == 'call' else None
        if g is None or g.kind == 'Closure' or g.path == self.root.path:
            return None
        return spec.for_call(g, list(v[2])).asl.inline_call(v)

    def is_delim_table(self, spec, v):
        """v is a name -> delimiter map of this delta: the (name, value) pairs of exactly the Delimiter entries"""
        cur = strip(v)
        stages = []
        for _ in range(12):
            if cur[0] != 'call' or not cur[2]:
                break
            n, args = cur[1], cur[2]
            if n in iters.COLLECTING or n in iters.SAME or (iters._is_source(n) and n.endswith(iters.SAME_ELEMS) and len(args) == 1):
                cur = strip(args[0])
            elif n in (iters.IT + 'map', iters.IT + 'filter', iters.IT + 'filter_map') and len(args) == 2:
                stages.append((n, strip(args[1])))
                cur = strip(args[0])
            else:
                break
        if L.self_field(self.root, cur) != 'entries' or not stages:
            return False
        elem = ('sym', 'ENTRY')
        preds = []
        for n, cl in reversed(stages):
            r = spec.asl.apply_closure(cl, (elem,))
            if r is None:
                return False
            if n.endswith('filter'):
                preds.append(r)
            elif n.endswith('::map'):
                elem = r
            else:
                r = strip(r) if r[0] == 'updated' else r
                if r[0] == 'call' and r[1].split('::')[-1] == 'then_some' and len(r[2]) == 2:
                    preds.append(r[2][0])
                    elem = r[2][1]
                elif r[0] == 'call' and r[1].split('::')[-1] == 'then' and len(r[2]) == 2:
                    preds.append(r[2][0])
                    elem = spec.asl.apply_closure(strip(r[2][1]), ())
                    if elem is None:
                        return False
                else:
                    return False
        if len(preds) != 1 or not self._is_delimiter_test(preds[0]):
            return False
        e = elem
        while e[0] == 'updated':
            e = e[1]
        return e[0] == 'tuple' and len(e[1]) == 2 and self.entry_proj(e[1][0]) == ('0', '1') and self.entry_proj(e[1][1]) == ('1',)

    def _is_delimiter_test(self, p):
        neg = False
        while p[0] == 'un' and p[1] == 'Not':
            p, neg = p[2], not neg
        if p[0] == 'select' and p[2] == MB and self.is_behaviour(p[1]):
            true = {n for ns, rv in p[3] if rv == ('const', not neg) for n in ns}
            rest_ok = all(rv[0] == 'const' and isinstance(rv[1], bool) for _, rv in p[3])
            return rest_ok and true == {'Delimiter'}
        if p[0] == 'call' and p[1].endswith(('::eq', '::ne')) and len(p[2]) == 2:
            if p[1].endswith('::ne'):
                neg = not neg
            a, b = strip(p[2][0]), strip(p[2][1])
            for x, y in ((a, b), (b, a)):
                if self.is_behaviour(x) and y[0] == 'agg' and y[1] == MB and y[2] == 'Delimiter':
                    return not neg
        return False

    # ---- Option algebra --------------------------------------------------------------------------------
    def opt(self, spec, v, at=None, d=0):
        """('none',) | ('some', payload value) | None (unknown)"""
        if d > 14 or not isinstance(v, tuple) or not v:
            return None
        k = v[0]
        if k == 'updated':
            return self.opt(spec, v[1], at, d + 1)
        if k == 'agg' and v[1] == 'std::option::Option':
            return ('some', v[3][0][1]) if v[2] == 'Some' and v[3] else ('none',)
        if k == 'phi':
            rs = [self.opt(spec, x, at, d + 1) for x in v[1]]
            if all(r is not None for r in rs) and all(canon(r) == canon(rs[0]) for r in rs):
                return rs[0]
            return None
        if k == 'select' and v[2] == MB and self.is_behaviour(v[1]):
            for names, val in v[3]:
                if self.B in names:
                    return self.opt(spec, val, at, d + 1)
            return None
        if k != 'call':
            return None
        n, args = v[1], v[2]
        tail = n.split('::')[-1]
        if n == ENV_GET and len(args) == 2 and self.is_env(args[0]) and self.is_name(spec, args[1], at):
            return ('none',) if self.P == 'unset' else ('some', ('sym', 'PREV'))
        if tail == 'get' and len(args) == 2 and 'Map' in n:
            if L.self_field(self.root, args[0]) == 'entries':
                key = strip(args[1])
                if key[0] == 'tuple' and len(key[1]) == 2:
                    kb = strip(key[1][0])
                    if kb[0] == 'agg' and kb[1] == MB and kb[2] == 'Delimiter' and self.is_name(spec, key[1][1], at):
                        return ('some', ('sym', 'DELIM')) if self.D == 'set' else ('none',)
                return None
            if self.is_name(spec, args[1], at) and self.is_delim_table(spec, args[0]):
                return ('some', ('sym', 'DELIM')) if self.D == 'set' else ('none',)
            return None
        if n.startswith('std::option::Option::') and args:
            o = self.opt(spec, args[0], at, d + 1)
            if o is None:
                return None
            if tail == 'filter' and len(args) == 2:
                if o[0] == 'none':
                    return o
                r = self.apply(spec, args[1], (o[1],))
                b = self.boolv(spec, r, None, d + 1) if r is not None else None
                return None if b is None else (o if b else ('none',))
            if tail == 'map' and len(args) == 2:
                if o[0] == 'none':
                    return o
                r = self.apply(spec, args[1], (o[1],))
                return ('some', r) if r is not None else None
            if tail == 'and_then' and len(args) == 2:
                if o[0] == 'none':
                    return o
                r = self.apply(spec, args[1], (o[1],))
                return self.opt(spec, r, None, d + 1) if r is not None else None
            if tail == 'or' and len(args) == 2:
                return o if o[0] == 'some' else self.opt(spec, args[1], at, d + 1)
            if tail == 'or_else' and len(args) == 2:
                if o[0] == 'some':
                    return o
                r = self.apply(spec, args[1], ())
                return self.opt(spec, r, None, d + 1) if r is not None else None
            if tail in ('take', 'as_ref', 'as_deref', 'cloned', 'copied', 'as_mut') and len(args) == 1:
                return o
            return None
        if tail in ('then', 'then_some') and len(args) == 2 and 'bool' in n:
            b = self.boolv(spec, args[0], at, d + 1)
            if b is None:
                return None
            if not b:
                return ('none',)
            if tail == 'then_some':
                return ('some', args[1])
            r = self.apply(spec, args[1], ())
            return ('some', r) if r is not None else None
        iv = self.inline(spec, v)
        if iv is not None:
            return self.opt(spec, iv, None, d + 1)
        return None

    # ---- boolean algebra -------------------------------------------------------------------------------
    def emptiness(self, a):
        if a is None or any(x.startswith(('?', '<')) for x in a):
            return None
        if not a:
            return True
        if 'PREV' in a:
            return False       # PREV only appears as an atom when the previous value is non-empty
        return None

    def boolv(self, spec, v, at=None, d=0):
        if d > 14 or not isinstance(v, tuple) or not v:
            return None
        k = v[0]
        if k == 'const' and isinstance(v[1], bool):
            return v[1]
        if k == 'updated':
            return self.boolv(spec, v[1], at, d + 1)
        if k == 'un' and v[1] == 'Not':
            b = self.boolv(spec, v[2], at, d + 1)
            return None if b is None else (not b)
        if k == 'phi':
            rs = [self.boolv(spec, x, at, d + 1) for x in v[1]]
            return rs[0] if all(r is not None and r == rs[0] for r in rs) else None
        if k == 'select' and v[2] == MB and self.is_behaviour(v[1]):
            for names, val in v[3]:
                if self.B in names:
                    return self.boolv(spec, val, at, d + 1)
            return None
        if k == 'bin' and v[1] in ('Eq', 'Ne', 'Gt', 'Lt', 'Ge', 'Le'):
            a, b = strip(v[2]), strip(v[3])
            op = v[1]
            if a == ('const', 0) and b != ('const', 0):
                a, b = b, a
                op = {'Gt': 'Lt', 'Lt': 'Gt', 'Ge': 'Le', 'Le': 'Ge'}.get(op, op)
            if b[0] == 'const' and b[1] in (0, 1) and a[0] == 'call' and a[1].endswith('::len') and a[2]:
                e = self.emptiness(self.atoms(spec, a[2][0], at, d + 1))
                if e is None:
                    return None
                if b[1] == 0:
                    return {'Eq': e, 'Ne': not e, 'Gt': not e, 'Le': e}.get(op)
                return {'Lt': e, 'Ge': not e}.get(op)
            if op in ('Eq', 'Ne'):
                x, y = self.boolv(spec, v[2], at, d + 1), self.boolv(spec, v[3], at, d + 1)
                if x is not None and y is not None:
                    return (x == y) if op == 'Eq' else (x != y)
            return None
        if k == 'bin' and v[1] in ('BitAnd', 'BitOr'):
            x, y = self.boolv(spec, v[2], at, d + 1), self.boolv(spec, v[3], at, d + 1)
            if v[1] == 'BitAnd':
                return False if (x is False or y is False) else (True if (x and y) else None)
            return True if (x is True or y is True) else (False if (x is False and y is False) else None)
        if k != 'call':
            return None
        n, args = v[1], v[2]
        tail = n.split('::')[-1]
        if tail == 'is_empty' and len(args) == 1:
            return self.emptiness(self.atoms(spec, args[0], at, d + 1))
        if n == ENV_CONTAINS and len(args) == 2 and self.is_env(args[0]) and self.is_name(spec, args[1], at):
            return self.P != 'unset'
        if n.startswith('std::option::Option::') and args:
            if tail in ('is_some', 'is_none') and len(args) == 1:
                o = self.opt(spec, args[0], at, d + 1)
                return None if o is None else ((o[0] == 'some') == (tail == 'is_some'))
            if tail in ('is_some_and', 'is_none_or') and len(args) == 2:
                o = self.opt(spec, args[0], at, d + 1)
                if o is None:
                    return None
                if o[0] == 'none':
                    return tail == 'is_none_or'
                r = self.apply(spec, args[1], (o[1],))
                return self.boolv(spec, r, None, d + 1) if r is not None else None
            if tail in ('map_or', 'map_or_else') and len(args) == 3:
                o = self.opt(spec, args[0], at, d + 1)
                if o is None:
                    return None
                if o[0] == 'none':
                    r = args[1] if tail == 'map_or' else self.apply(spec, args[1], ())
                else:
                    r = self.apply(spec, args[2], (o[1],))
                return self.boolv(spec, r, None, d + 1) if r is not None else None
            if tail in ('unwrap_or', 'unwrap_or_default') and args:
                o = self.opt(spec, args[0], at, d + 1)
                if o is None:
                    return None
                if o[0] == 'some':
                    return self.boolv(spec, o[1], None, d + 1)
                return False if tail == 'unwrap_or_default' else self.boolv(spec, args[1], at, d + 1)
            return None
        if tail in ('eq', 'ne') and len(args) == 2:
            a, b = strip(args[0]), strip(args[1])
            for x, y in ((a, b), (b, a)):
                if self.is_behaviour(x) and y[0] == 'agg' and y[1] == MB and y[2]:
                    return (self.B == y[2]) == (tail == 'eq')
            return None
        iv = self.inline(spec, v)
        if iv is not None:
            return self.boolv(spec, iv, None, d + 1)
        return None

    def push_rel(self, spec, at, site):
        """does the push at `site` belong to the string as seen at `at`?  True / False / None (on some paths only).
        at = (fn, block of a test): decided by dominance; at = (fn, block of a use, 'use'): decided on the feasible
        paths from the definition of the receiver to the use"""
        fn, ubb = at[0], at[1]
        pbb, defs = site[1], tuple(site[2]) if len(site) > 2 else ()
        if len(at) < 3:
            if pbb != ubb and fn.dominates(pbb, ubb):
                return True
            if fn.dominates(ubb, pbb):
                return False
            return None

        def reaches(srcs, avoid):
            work = []
            for s_ in srcs:
                work.extend(spec.fsuccs(fn, s_))
            if not srcs:
                work = [0]
            seen = set()
            while work:
                b = work.pop()
                if b in seen or b == avoid:
                    continue
                seen.add(b)
                if b == ubb:
                    return True
                if b in defs:
                    continue
                work.extend(spec.fsuccs(fn, b))
            return False
        if not reaches(defs, pbb):
            return True
        if not reaches((pbb,), None):
            return False
        return None

    # ---- string atoms ------------------------------------------------------------------------------------
    def atoms(self, spec, v, at=None, d=0):
        """the pieces a string value consists of in this case: a tuple over NAME / VALUE / PREV / DELIM (PREV only
        when the previous value is non-empty, DELIM only when the delimiter entry exists), '?..' for anything else"""
        if d > 16 or not isinstance(v, tuple) or not v:
            return unknown(v)
        k = v[0]
        if k == 'sym':
            if v[1] == 'PREV':
                return ('PREV',) if self.P == 'nonempty' else ()
            if v[1] == 'DELIM':
                return ('DELIM',)
            return unknown(v)
        if k == 'updated':
            return self.atoms(spec, v[1], at, d + 1)
        proj = self.entry_proj(v)
        if proj is not None:
            return {('0', '1'): ('NAME',), ('1',): ('VALUE',), ('0', '0'): ('?BEHAVIOUR',)}.get(proj, unknown(v))
        if k == 'unwrap':
            o = self.opt(spec, v[1], at, d + 1)
            if o is None:
                return unknown(v)
            if o[0] == 'none':
                return ('?unwrap-of-None',)
            return self.atoms(spec, o[1], None, d + 1)
        if k == 'const' and isinstance(v[1], str):
            return () if v[1] == '' else ('?' + repr(v[1]),)
        if k == 'phi':
            rs = [self.atoms(spec, x, at, d + 1) for x in v[1]]
            return rs[0] if all(r == rs[0] for r in rs) else unknown(v)
        if k == 'select' and v[2] == MB and self.is_behaviour(v[1]):
            for names, val in v[3]:
                if self.B in names:
                    return self.atoms(spec, val, at, d + 1)
            return unknown(v)
        if k == 'concat':
            out = self.atoms(spec, v[1], at, d + 1)
            for p in v[2]:
                if p[0] == 'call' and p[1] in (PUSH, MAYBE) and len(p) > 3 and p[3]:
                    site = p[3]
                    if at is not None and site[0] == at[0].path:
                        inc = self.push_rel(spec, at, site)
                    else:
                        inc = True if p[1] == PUSH else None
                    if inc is False:
                        continue
                    if len(site) > 3 and site[3] != 'push':
                        out = out + ('?' + vstr(p[2][0])[:60],)
                        continue
                    a = self.atoms(spec, p[2][0], None, d + 1)
                    out = out + (a if inc else ('?pushed-on-some-paths-only(%s)' % '+'.join(a),))
                else:
                    out = out + self.atoms(spec, p, at, d + 1)
            return out
        if k != 'call':
            return unknown(v)
        n, args = v[1], v[2]
        tail = n.split('::')[-1]
        if n.endswith(FRESH) and not args:
            return ()
        if tail == 'with_capacity' and len(args) == 1 and n.startswith(('std::ffi::OsString::', 'std::string::String::', 'std::path::PathBuf::')):
            return ()
        if n in iters.COLLECTING and len(args) == 1 and strip(args[0])[0] == 'array':
            out = ()
            for x in strip(args[0])[1]:
                out = out + self.atoms(spec, x, at, d + 1)
            return out
        if n.endswith(KEEP) and len(args) == 1:
            return self.atoms(spec, args[0], at, d + 1)
        if n.startswith('std::option::Option::') and args and tail in ('unwrap_or_default', 'unwrap_or', 'unwrap_or_else', 'map_or', 'map_or_else'):
            o = self.opt(spec, args[0], at, d + 1)
            if o is None:
                return unknown(v)
            if o[0] == 'some':
                if tail in ('map_or', 'map_or_else'):
                    r = self.apply(spec, args[2], (o[1],)) if len(args) == 3 else None
                    return self.atoms(spec, r, None, d + 1) if r is not None else unknown(v)
                return self.atoms(spec, o[1], None, d + 1)
            if tail == 'unwrap_or_default':
                return ()
            if tail in ('unwrap_or', 'map_or') and len(args) >= 2:
                return self.atoms(spec, args[1], at, d + 1)
            if len(args) >= 2:
                r = self.apply(spec, args[1], ())
                return self.atoms(spec, r, None, d + 1) if r is not None else unknown(v)
            return unknown(v)
        iv = self.inline(spec, v)
        if iv is not None:
            return self.atoms(spec, iv, None, d + 1)
        return unknown(v)


def _insert_event(case):
    def event_of(spec, fn, c):
        if c.indirect:
            return ()
        if c.name == ENV_INSERT and len(c.args) == 3:
            spec.seen_sites.add((fn.path, c.bb))
            at = (fn, c.bb, 'use')
            key = case.atoms(spec, spec.to_root(spec.asl.operand(fn, c.args[1])), at)
            val = case.atoms(spec, spec.to_root(spec.asl.operand(fn, c.args[2])), at)
            recv = strip(spec.to_root(spec.asl.operand(fn, c.args[0])))
            if not case.is_env(recv):
                return (('insert-into', vstr(recv)[:40], key, val),)
            return (('insert', key, val),)
        hs = [h for h in spec.prog.callee_fns(c) if h.kind != 'Closure']
        if any(spec.engine.has_call(h, ENV_INSERT) for h in hs):
            return None     # descend
        cls = [g for g in spec.prog.fn_item_args(c) if spec.engine.has_call(g, ENV_INSERT)]
        if cls:
            return (('?insert-inside-a-closure', cls[0].path.split('::')[-1]),)
        return ()
    return event_of


def entry_loops(engine):
    """loops of the root over self.entries that contain (possibly through helpers) an insert into the environment"""
    from .lib.effects import find_loops
    g = engine.root
    out = []
    for lp in find_loops(g, engine.psl):
        if lp.collection is None:
            continue
        coll, proj = L.loop_element(('unwrap', ('call', 'std::iter::Iterator::next', (lp.collection,), None)))
        if coll is None or L.self_field(g, coll) != 'entries':
            continue
        body_calls = [c for c in g.calls if c.bb in lp.body and c.bb != lp.header]
        if any(c.name == ENV_INSERT or any(engine.has_call(h, ENV_INSERT) for h in engine.prog.callee_fns(c)) or
               any(engine.has_call(h, ENV_INSERT) for h in engine.prog.fn_item_args(c)) for c in body_calls):
            out.append(lp)
    return out


def entry_closures(engine):
    """closures of the root run once per element of self.entries (`for_each`, `fold`) that insert into the environment:
    [(closure Fn, {parameter bindings}, returns-the-accumulator?)]"""
    g = engine.root
    prog = engine.prog
    psl = engine.psl
    entries = ('field', ('param', g.path, 0, g.local_name(1)), 'entries')
    elem = ('unwrap', ('call', 'std::iter::Iterator::next', (entries,), None))
    out = []
    for c in g.calls:
        if c.indirect or c.decl not in (iters.IT + 'for_each', iters.IT + 'fold') or len(c.args) < 2:
            continue
        coll, proj = L.loop_element(('unwrap', ('call', 'std::iter::Iterator::next', (psl.operand(g, c.args[0]),), None)))
        if coll is None or L.self_field(g, coll) != 'entries':
            continue
        clv = strip(psl.operand(g, c.args[-1]))
        cl = prog.fns.get(clv[1]) if clv[0] == 'closure' else None
        if cl is None or not engine.has_call(cl, ENV_INSERT):
            continue
        if c.decl.endswith('for_each'):
            out.append((cl, {(cl.path, 1): elem}, True))
        else:
            init = strip(psl.operand(g, c.args[1]))
            pre = {(cl.path, 2): elem}
            ok = init[0] == 'param' and init[1] == g.path and init[2] == 1
            if ok:
                pre[(cl.path, 1)] = init
            rv = strip(psl.local(cl, 0))
            returns_acc = ok and rv[0] == 'param' and rv[1] == cl.path and rv[2] == 1 and \
                strip(psl.local(g, 0)) == strip(psl._call_value(g, c, set(), 0))
            out.append((cl, pre, returns_acc))
    return out


def arm_cases(prog):
    """{(B, P, D): set of event tuples} of the application of one entry by LayerEnvDelta::apply (one iteration of its
    loop over self.entries, or one run of the closure handed to for_each / fold over them), the insert call sites
    seen, and diagnostics"""
    g = prog.fn(L.DAPPLY)
    eng = Engine(prog, g)
    loops = entry_loops(eng)
    closures = entry_closures(eng) if not loops else []
    info = {'engine': eng, 'loops': loops + closures, 'fn': g}
    if len(loops) + len(closures) != 1:
        return g, None, set(), info
    if loops:
        lp = loops[0]
        walk_fn, starts, ends, marker = g, [lp.header], [lp.header] + list(lp.exit_bb), ('?early-return',)
    else:
        cl, pre, ok = closures[0]
        if not ok:
            info['why'] = 'the closure folded over the entries does not start from the input env / return its accumulator'
            return g, None, set(), info
        eng.rebind(pre)
        walk_fn, starts, ends, marker = cl, [0], [], None
    res = {}
    seen = set()
    for b in BEHAVIOURS:
        for p in PREV_STATES:
            for d in DELIM_STATES:
                case = ArmCase(g, b, p, d)
                spec = Spec(eng, case)
                res[(b, p, d)] = spec.events(walk_fn, starts, ends, _insert_event(case), ret_marker=marker)
                seen |= spec.seen_sites
    return g, res, seen, info


def all_insert_sites(prog, engine):
    out = set()
    for f in prog.reach([engine.root]).values():
        for c in f.calls:
            if c.name == ENV_INSERT and f.crate == engine.root.crate:
                out.add((f.path, c.bb))
    return out
