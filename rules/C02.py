"""C02 — trait-based layer handling runs the right callbacks and persists their result.

Decided structurally:
  R1 dispatch table   per (layer present?, strategy / migration decision): effects that must happen, in
                      order, and the callbacks that may run after the decision
  R2 once-only        Layer::create / Layer::update have exactly one call site each, outside any loop,
                      and can only run on their own arm
  R3 forwarding       the writer's arguments come from the callback's result (metadata, env or default,
                      exec.d programs, SBOMs) with types <- layer.types(); every LayerResult field is
                      consumed; keep = existing env/metadata with refreshed types and Keep/Keep switches;
                      ReplaceMetadata = migrated metadata with existing types/env and Keep/Keep
  R4 switch semantics in the writer, Replace(x) calls the replace routine with x, Keep touches nothing of
                      that class; metadata and env are always written; SBOM/exec.d replacement really
                      replaces (old removed, new written for every element)
  R5 read-after-write every success value is the result of re-reading the layer after the last mutation
  R6 scope agreement  writer and reader of the env agree on all four scopes (shared with C03.R1)
  R7 builder          LayerResultBuilder (how callbacks assemble what they return) carries every value unchanged
Deepening round (what the data is *carried* through, stated per dispatch row on the interprocedural effects):
  R1 <row>/errors-propagate       a failure of any mutation / fallible callback on the row ends handle_layer (no `.ok()`,
                                  `let _ =`, `unwrap_or(..)`; not-found tolerance only around removals; the reader's failure
                                  kinds are dispatched on by design)
  R1 <row>/types-after-callbacks  the `types()` call whose value is written runs after every `&mut self` callback of the row
  R1 <row>/confined, Keep/frame-execd   nothing outside <name>/, <name>.toml, <name>.sbom.* is mutated; keep leaves exec.d alone
  R3 <row>/toml-types|toml-metadata     the TOML written last on the row serialises {types: Some(layer.types()), metadata:
                                  result.metadata | existing} whatever writer routine was used (the trait writer,
                                  shared::write_layer, replace_layer_types ...)
  R3 <row>/callback-arg/<cb>      create gets the layer directory, update / strategy the data read from disk, migrate its metadata
  R4 writer/<replace>/only-switch nothing but the Keep/Replace switch decides whether the replace routine runs
  R4 replace_exec_d/copy-every|copy-source   every program of the set is copied from its own path (no skipped iteration)
  R4 sbom-path/spec               <name>.sbom.<cdx.json|spdx.json|syft.json> per format (CNB spec table)
  R5 reader/*                     the reader's LayerData is {name asked for, <layers>/<name>, unwrap(read_from_layer_dir(dir)),
                                  parsed <name>.toml} on the success-payload normal form (H.unwrap_n); R5 entry/passthrough
Not decided: equality of on-disk bytes with the callback's values (toml / fs are trusted); the env file layout inside
<layer>/env* beyond scope agreement (C03 decides it: suffixes, stale files, raw bytes, per-file completeness).

All effect-based rules (R1, R2, R4, R5, R6) run on C02_helpers.VecEffects: the interprocedural effect enumerator of
lib.effects extended with the two ways a Vec local carries work inside a function (a (dir, delta) table grown by
push / extend before the loop over it; an explicit-stack traversal that only succeeds with its work-list drained), so
that "the layer directory is removed first" and "every scope is written where it is read" are stated on what happens to
which path, not on recursion vs. work-list or four calls vs. one table.
Robustness round 3 (same obligations, recognised on more spellings):
  - rows are read on C02_helpers.outcomes_ctx / lifted_args_ctx: a private routine called with a literal switch
    (`produce(.., None)` / `produce(.., Some(&data))`, a private two-variant enum) is read with the arms its arguments rule
    out removed (certain effects on the specialised dominator tree, merged values without the untaken alternatives)
  - RowPaths: private path accessors are transparent but the reader / callbacks stay opaque (`Paths::new(dir, &data.name).toml()`)
  - the TOML bytes may reach the write through views of the same text (`as_bytes`, `into_bytes`, `as_str` ...); a private
    read-and-parse helper in the reader is opened on its success payload (H.open_payload)
Robustness round 4 (same obligations; one new: R4 writer/env-forwarded — the env handed to the writer is what it persists):
  - R4 writer/*: stated on the writer's interprocedural effects with LayerEnv::write_to_layer_dir and the two replace
    routines as vocabulary (guards_of / H.optional_guards over every level of the call chain, arguments substituted into
    the writer's own terms): the switch may be looked at by an `if let`, a method of the switch type, a let-else in a
    helper, a local closure; "metadata written" is a certain WRITE of <name>.toml by whichever routine
  - R5 <row>/reread: the success payload of the returned value on the normal form H.unwrap_n + H.open_payload must *be* the
    reader's result for this layer (H.top_calls: not a call buried in an argument), and nothing mutating may run after
    it at any level of the call chain leading to it (H.levels_to) — write + re-read extracted into a helper, and_then chains
  - R2 call-sites/*: several call sites of a callback are fine when at most one can run on every dispatch row, none repeats
    and none lies outside the rows
  - R3 <site>/env: "result.env, empty when absent" whatever the spelling of the default (H.env_or_default; a merged value
    is accepted only when the empty env is built under `result.env is None`); the decision on the strategy is read at
    every level between the handler and the writer call (lifted_args_ctx(with_path))
  - H.VecEffects: `Vec::with_capacity(n)` starts empty; a grown Vec consumed by iter().try_for_each / for_each is the
    loop over it; calling a local closure is calling its body; H.entries_scope: a delta's entries reached through a private
    planning method of the delta; H.sbom_name_table: to_path_buf + push is join; H.delete_role: the delete routine is
    validated on its effects (layer_roles finds it by a literal remove_file(<name>.toml) in its body)
Robustness round 5 (same obligations):
  - rows: a success site that several dispatch arms reach (the re-read sunk below the `match`, the create / update
    routines returning `()`) is read once per arm — H.split_ways on the decisions that *define* the rows (reader result
    present?, strategy), each way on the control flow without the other arms (H.SpecOutcome: "after the decision" is
    dominance on that graph, so a tail shared by all arms counts for every row); a second look at an already decided value
    (drop elaboration) follows the decision.  An "absent" row found only by elimination while strategy rows are missing is
    reported UNPROVEN, not VIOLATED (Doubtful)
  - R4 writer/*: the switch is the writer's *parameter* whatever its type is called (one generic `Replacement<T>` with
    aliases); a closure handed to a private `apply(self, f)` that only ever calls it is read once, under apply's guards
    (H.VecEffects._drop_handed_twice); the switch seen through a private Option view (`replacement() -> Option<T>` +
    map_or / map / and_then) is a `select` over the switch on the inline_deep normal form (H.switch_view): the routine runs
    exactly when the view has a payload = on Replace, with Replace's payload; under a literal `Keep` the closure is pruned
  - R5 reader/content_metadata: only the file access in a private helper (returning a tuple / struct of path and text),
    the parse in the reader: projections of the helper's success payload are resolved (H.deep_fields on tuples)
  - R6: a scope for which one side has no location is UNPROVEN (table extraction did not follow it, or really missing)
"""
from . import layer_env_common as L
from . import C02_helpers as H
from .lib.effects import Effects, Link, outcomes, guards_of, MUTATING, REMOVING
from .lib.guards import conditions
from .lib.paths import sbom_formats_covered, LayerPaths, cls_str, strip
from .lib.value import vstr, walk

HL = 'libcnb::layer::trait_api::handling::handle_layer'
WL = 'libcnb::layer::trait_api::handling::write_layer'
RL = 'libcnb::layer::trait_api::handling::read_layer'
STRAT = 'libcnb::layer::trait_api::ExistingLayerStrategy'
MIGR = 'libcnb::layer::trait_api::MetadataMigration'
T = 'libcnb::layer::trait_api::Layer::'
ENTRY = r'^libcnb::build::BuildContext::<B>::handle_layer$'
# effects that remove / replace / re-permission the path they are applied to
DIR_TOUCH = ('REMOVE_DIR', 'REMOVE_TREE', 'REMOVE_FILE', 'RENAME', 'CHMOD')
# CNB spec: <layers>/<layer>.sbom.<ext>, one ext per supported media type
SBOM_EXT = {'CycloneDxJson': 'cdx.json', 'SpdxJson': 'spdx.json', 'SyftJson': 'syft.json'}
FALLIBLE_CBS = ('create', 'update', 'existing_layer_strategy', 'migrate_incompatible_metadata')


def cb_names(effs):
    out = []
    for e in effs:
        if e.kind == 'CALLBACK' and e.path is not None and e.path[0] == 'fnitem' and e.path[1].startswith(T):
            out.append(e.path[1][len(T):])
    return out


def find_call(v, name):
    for x in walk(v):
        if x[0] == 'call' and x[1] == name:
            return x
    return None


def is_field_of_call(v, field, callname):
    v = strip(v)
    return v[0] == 'field' and v[2] == field and find_call(v[1], callname) is not None and strip(v[1])[0] in ('call', 'unwrap')


def OPAQUE():
    """never looked into when helpers are made transparent: the reader (its result stands for "what is on disk") and the
    user callbacks (trait methods with a default body are still whatever the buildpack's layer defines)"""
    return (RL,) + tuple(T + m for m in FALLIBLE_CBS + ('types',))


def _toml_serialised(v):
    """x of `toml::to_string(x)` (success payload) or None"""
    import re
    v = H.peel_views(v)
    if v[0] == 'call' and re.match(r'^toml::(ser::)?to_(string|string_pretty|vec)$', v[1]) and len(v[2]) == 1:
        return v[2][0]
    return None


def _is_types_call(v):
    v = strip(v)
    return v[0] == 'call' and v[1] == T + 'types'


def row_carries(rep, prog, sl, E, LP, ROLES, r, tag, where, o, must, may):
    """per dispatch row: failures of everything that mutates / every fallible callback end the call; the callbacks get
    the layer's own path / the data read from disk; the TOML finally written carries types <- layer.types() (asked after
    the last `&mut self` callback) and metadata <- the callback's result (create / update) or the existing one (keep)"""
    tolerant = tuple(x for x in (ROLES.get('NOT_FOUND_HELPER'),) if x)
    # -- failures propagate ---------------------------------------------------------------------------------------
    bad, seen = [], set()
    for e in list(o.must) + list(o.may):
        if not (e.kind in MUTATING or (e.kind == 'CALLBACK' and set(cb_names([e])) & set(FALLIBLE_CBS))):
            continue
        for f, c in H.swallowed_levels(prog, sl, e, tolerant, dispatched=(RL,)):
            k = (f.path, c.bb)
            if k not in seen:
                seen.add(k)
                bad.append('%s in %s' % ((c.name or '?').split('::')[-1], f.path.split('::', 1)[-1]))
    rep.check(not bad, 'R1', tag + '/errors-propagate', where, 'a failure of any mutation / callback on this row ends handle_layer with an error',
              'row %s: a failure of %s can end in success (tolerated / discarded result)' % (r, sorted(set(bad))[:4]))
    # -- confinement: nothing outside this layer's own directory / TOML / SBOM files is touched -------------------------
    deleter = ROLES.get('DELETE')

    def target(e):
        # what happens inside the recursive remover that the delete routine hands a directory to is C01 / C11's subject
        # (it stays below that directory and does not follow symlinks): here the directory handed over stands for
        # everything the remover touches
        for l in e.chain or ():
            if isinstance(l, Link) and deleter and l.call.fn.path == deleter and l.call.args and l.call.name in prog.fns:
                return E.subst(sl.operand(l.call.fn, l.call.args[0]), l.mapping or {})
        return e.path
    inside = lambda v: v is not None and LP.inside_layer(LP.classify(v))
    out = [e for e in list(o.must) + list(o.may) if e.kind in MUTATING and not inside(e.path) and not inside(target(e))]
    rep.check(not out, 'R1', tag + '/confined', where, 'every mutation on this row is inside <layers_dir>/<name>, <name>.toml or <name>.sbom.*',
              'row %s also mutates %s' % (r, [(e.kind, vstr(e.path)[:60] if e.path is not None else '?') for e in out[:3]]))
    if r == 'Keep':
        def below_execd(k):
            while k is not None and k[0] in ('SUB', 'CHILD'):
                if k[0] == 'SUB' and k[1] == ('DIR',) and k[2] == 'exec.d':
                    return True
                k = k[1]
            return False
        bx = [e for e in o.may if e.kind in MUTATING and e.path is not None and below_execd(LP.classify(e.path))]
        rep.check(not bx, 'R1', tag + '/frame-execd', where, 'exec.d programs untouched on keep', 'Keep arm can modify the exec.d directory')
    # -- callback arguments ----------------------------------------------------------------------------------------
    for e in o.must:
        names = cb_names([e]) if e.kind == 'CALLBACK' else []
        if not names or names[0] not in FALLIBLE_CBS or not e.args or len(e.args) < 3:
            continue
        m, a = names[0], strip(H.peel_some(e.args[2]))     # `(Some(x) as Some).0` handed through a literal switch is x
        if m == 'create':
            ok = LP.classify(a) == ('DIR',)
            want = 'the layer directory'
        elif m in ('update', 'existing_layer_strategy'):
            ok = a[0] == 'call' and a[1] == RL and LP.classify(('call', 'std::path::Path::join', (a[2][0], a[2][1]))) == ('DIR',)
            want = 'the layer data read from disk'
        else:
            b = a
            ok = b[0] == 'field' and b[2] == 'metadata' and strip(b[1])[0] == 'field' and strip(b[1])[2] == 'content_metadata' \
                and strip(strip(b[1])[1])[0] == 'call' and strip(strip(b[1])[1])[1] == RL
            want = 'the metadata read from disk'
        rep.check(ok, 'R3', '%s/callback-arg/%s' % (tag, m), where, 'Layer::%s receives %s' % (m, want),
                  'Layer::%s receives %s instead of %s' % (m, vstr(a)[:100], want))
    if r == 'migrate':
        return
    # -- content of the TOML finally written -----------------------------------------------------------------------
    wr = [e for e in must if e.kind == 'WRITE' and e.path is not None and LP.classify(e.path) == ('TOML',)]
    if not wr:
        rep.unproven('R3', tag + '/toml-content', where, 'no write of the layer TOML is certain on row %s' % r)
        return
    e = wr[-1]
    # no further, conditional write of the TOML on this row (the reader's own normalisation of a missing file aside)
    sure = {(q.call.fn.path, q.call.bb) for q in wr if q.call is not None}
    extra = [q for q in may if q.kind in ('WRITE', 'RENAME') and q.path is not None and q.call is not None and LP.classify(q.path) == ('TOML',)
             and (q.call.fn.path, q.call.bb) not in sure and not any(isinstance(l, Link) and l.call.name == RL for l in (q.chain or ()))]
    rep.check(not extra, 'R3', tag + '/toml-single', where, 'the layer TOML is written by the certain write(s) only',
              'row %s may write the layer TOML once more, conditionally: %s' % (r, [q.via() for q in extra[:2]]))
    data = e.args[1] if e.args and len(e.args) > 1 else None
    x = _toml_serialised(data) if data is not None else None
    if x is None:
        rep.unproven('R3', tag + '/toml-content', where, 'the layer TOML is not written as toml::to_string(<content metadata>): %s' % (vstr(data)[:120] if data else '?'))
        return
    while x[0] == 'unwrap':
        x = x[1]
    if x[0] == 'call' and x[1] in prog.fns:
        x = sl.inline_deep(x, keep=OPAQUE())     # a private helper that only assembles the content metadata is transparent
    if not (x[0] in ('agg', 'updated')):
        rep.unproven('R3', tag + '/toml-content', where, 'serialised value is not a content-metadata aggregate: %s' % vstr(x)[:120])
        return
    types_v = strip(sl._field(x, 'types'))
    meta_v = strip(sl._field(x, 'metadata'))
    t_call = None
    if types_v[0] == 'agg' and types_v[2] == 'Some' and len(types_v[3]) == 1 and _is_types_call(types_v[3][0][1]):
        t_call = strip(types_v[3][0][1])
    rep.check(t_call is not None, 'R3', tag + '/toml-types', where, 'the TOML written last carries types <- Some(layer.types())',
              'row %s writes types %s to the layer TOML, not Some(layer.types())' % (r, vstr(types_v)[:100]))
    if r in ('absent', 'Recreate', 'Update'):
        cbname = T + ('update' if r == 'Update' else 'create')
        m_ok = is_field_of_call(meta_v, 'metadata', cbname)
        rep.check(m_ok, 'R3', tag + '/toml-metadata', where, 'the TOML written last carries the callback result\'s metadata',
                  'row %s writes metadata %s to the layer TOML, not the result of %s' % (r, vstr(meta_v)[:100], cbname.split('::')[-1]))
    else:
        from_disk = find_call(meta_v, RL) is not None or any(
            y[0] == 'call' and y[2] and LP.classify(y[2][0]) == ('TOML',) and H.reads_given_file(E, y[1]) for y in walk(meta_v))
        m_ok = meta_v[0] == 'field' and meta_v[2] == 'metadata' and from_disk and \
            not any(find_call(meta_v, T + n) for n in ('create', 'update'))
        rep.check(m_ok, 'R3', tag + '/toml-metadata', where, 'the TOML written last carries the existing metadata',
                  'Keep writes metadata %s to the layer TOML, not the existing one' % vstr(meta_v)[:100])
    # -- the pure `types` callback is asked after the last callback that may change the layer value ---------------
    if t_call is not None and len(t_call) == 4 and t_call[3]:
        seq = list(o.must)
        ti = [i for i, q in enumerate(seq) if q.kind == 'CALLBACK' and cb_names([q]) == ['types'] and q.call is not None
              and (q.call.fn.path, q.call.bb) == tuple(t_call[3])]
        oi = [(i, cb_names([q])[0]) for i, q in enumerate(seq) if q.kind == 'CALLBACK' and set(cb_names([q])) & set(FALLIBLE_CBS)]
        if not ti:
            rep.unproven('R1', tag + '/types-after-callbacks', where, 'the types() call whose value is written was not found among the certain effects')
        else:
            late = [n for i, n in oi if i > ti[-1]]
            rep.check(not late, 'R1', tag + '/types-after-callbacks', where, 'layer.types() is asked after every `&mut self` callback of the row',
                      'row %s: the written types are asked before Layer::%s runs (stale when the callback changes the layer value)' % (r, '/'.join(late)))


class RowPaths(LayerPaths):
    """LayerPaths whose "private path constructors are transparent" step leaves the reader and the user callbacks alone: a
    path built by a private accessor from `layer_data.name` (`Paths::new(dir, &read_layer(..)?.name).toml()`) is still the
    TOML of *the layer just read*, which is what the LN predicate recognises"""

    def classify(self, v, depth=0):
        r = self._base(v, depth)
        if r is None and depth == 0 and v is not None:
            from .lib import paths as P
            if P.SLICER is not None:
                iv = P.SLICER.inline_deep(v, keep=(LayerPaths.sbom_path_fn,) + OPAQUE())
                if iv != v:
                    r = self.classify(iv, 1)
                if r is None:
                    r = LayerPaths.classify(self, v, depth)
        return r


BUILDER = 'libcnb::layer::trait_api::LayerResultBuilder::<M>::'
SETTERS = {   # method -> (field, kind, receiver method of the container, parameter indices handed over in order)
    'env': ('env', 'assign', None, (1,)),
    'exec_d_program': ('exec_d_programs', 'call', ('std::collections::HashMap::', '::insert'), (1, 2)),
    'sbom': ('sboms', 'call', ('std::vec::Vec::', '::push'), (1,)),
}


def builder_fidelity(rep, prog, sl, E):
    """R7: what a callback assembles with LayerResultBuilder is what it returns — `new` starts from the given metadata and
    nothing else, every setter changes exactly its own field (env <- Some(given), exec.d: insert(name, program) so that a
    later entry for the same name wins like in any map, SBOMs: appended), `build*` copies every field."""
    fns = {f.path[len(BUILDER):]: f for f in prog.find(r'^' + BUILDER.replace('<', r'\<').replace('>', r'\>') + r'\w+$') if f.kind != 'Closure'}
    lr = prog.adt('libcnb::layer::trait_api::LayerResult')
    fields = sorted(f['name'] for v in lr['variants'] for f in v['fields'])
    isp = lambda v, f, i: v[0] == 'param' and v[1] == f.path and v[2] == i
    for name, f in sorted(fns.items()):
        rep.analysed(f)
        where = '%s:%d' % (f.file, f.line)
        key = 'builder/' + name
        if name == 'new':
            v = sl.local(f, 0)
            d = dict(v[3]) if v[0] == 'agg' else {}
            empty = lambda x: x is not None and x[0] == 'call' and not x[2] and x[1].endswith(('::new', '::default'))
            ok = sorted(d) == fields and isp(strip(d['metadata']), f, 0) and d['env'][0] == 'agg' and d['env'][2] == 'None' \
                and empty(d['exec_d_programs']) and empty(d['sboms'])
            rep.check(ok, 'R7', key, where, 'starts from the given metadata, no env, no exec.d programs, no SBOMs', 'a fresh builder is ' + vstr(v)[:160])
        elif name in ('build', 'build_unwrapped'):
            v = sl.local(f, 0)
            if name == 'build':
                v = sl.inline_deep(H.unwrap_n(sl, v, 1))
            d = dict(v[3]) if v[0] == 'agg' and (v[1] or '').endswith('::LayerResult') else {}
            ok = sorted(d) == fields and all(d[k][0] == 'field' and d[k][2] == k and isp(d[k][1], f, 0) for k in d)
            rep.check(ok, 'R7', key, where, 'every field of the builder is copied into the result', 'the built LayerResult is ' + vstr(v)[:160])
        elif name in SETTERS:
            field, kind, recv, pidx = SETTERS[name]
            muts = H.self_mutations(f)
            rv0 = sl.local(f, 0)
            rv = rv0
            while rv[0] == 'updated':
                rv = rv[1]
            if muts is not None and not muts and rv0[0] == 'agg' and kind == 'assign':
                # `Self { env: Some(x), ..self }`: a new value, every other field taken over
                d = dict(rv0[3])
                val = d.get(field, ('unknown',))
                ok = all(v[0] == 'field' and v[2] == k and isp(v[1], f, 0) for k, v in d.items() if k != field) and \
                    val[0] == 'agg' and val[2] == 'Some' and isp(strip(val[3][0][1]), f, pidx[0])
                rep.check(ok, 'R7', key, where, 'changes exactly `%s`, with the given value(s)' % field, 'LayerResultBuilder::%s returns %s' % (name, vstr(rv0)[:160]))
                continue
            if muts is None or not isp(rv, f, 0):
                rep.unproven('R7', key, where, 'the effect of the setter on the builder is not understood')
                continue
            rets = f.return_blocks()
            ok = len(muts) == 1 and muts[0][0] == ('.' + field,) and muts[0][1] == kind and all(f.dominates(muts[0][2], b) for b in rets) \
                and not f.in_loop(muts[0][2])
            why = 'changes %s' % [''.join(m[0]) + ':' + m[1] for m in muts]
            if ok and kind == 'assign':
                val = sl.operand(f, muts[0][3]['o']) if muts[0][3].get('r') == 'use' else ('unknown',)
                ok = val[0] == 'agg' and val[2] == 'Some' and isp(strip(val[3][0][1]), f, pidx[0])
                why = 'sets %s to %s' % (field, vstr(val)[:80])
            elif ok:
                c = muts[0][3]
                nm = c.res or c.decl or ''
                args = [strip(sl.operand(f, a)) for a in c.args[1:]]
                if (c.decl == 'std::iter::Extend::extend' or nm.endswith('::extend')) and len(c.args) == 2:
                    # `xs.extend([x])` / `xs.extend(once(x))` is `xs.push(x)`; `map.extend([(k, v)])` is `map.insert(k, v)`
                    # (a later entry for the same key wins either way): the iterated argument must decompose into exactly
                    # one concrete, unfiltered element
                    from .lib import iters
                    al = iters.alts(sl, sl.operand(f, c.args[1]))
                    if len(al) == 1 and al[0][1] is None and not al[0][2]:
                        el = strip(al[0][0])
                        args = [strip(x) for x in el[1]] if (el[0] == 'tuple' and len(pidx) > 1) else [el]
                        nm = recv[0] + recv[1]
                if not (nm.startswith(recv[0]) and nm.endswith(recv[1])):
                    rep.unproven('R7', key, where, 'LayerResultBuilder::%s changes `%s` through %s: not the plain %s the obligation is stated on'
                                 % (name, field, nm, recv[1].strip(':')))
                    continue
                ok = len(args) == len(pidx) and all(isp(a, f, i) for a, i in zip(args, pidx))
                why = 'calls %s(%s)' % (nm, ', '.join(vstr(a)[:40] for a in args))
            rep.check(ok, 'R7', key, where, 'changes exactly `%s`, with the given value(s)' % field, 'LayerResultBuilder::%s %s' % (name, why))
        else:
            rep.unproven('R7', key, where, 'unknown builder method: its effect on the result is not covered')
    for need in ('new', 'build_unwrapped') + tuple(SETTERS):
        if need not in fns:
            rep.unproven('R7', 'builder/' + need, '-', 'LayerResultBuilder::%s not found' % need)


def run(ctx, rep):
    prog, sl = ctx.prog, ctx.slicer
    rep.rule('R1', 'dispatch table: must-effects and callbacks per strategy / migration decision')
    rep.rule('R2', 'create / update: one call site each, not in a loop, only on their arm')
    rep.rule('R3', 'writer arguments <- callback result / existing data; all LayerResult fields consumed')
    rep.rule('R4', 'Keep/Replace switch semantics and replace-really-replaces for SBOMs and exec.d')
    rep.rule('R5', 'returned LayerData is re-read from disk after the last mutation')
    rep.rule('R6', 'env writer/reader agree on all four scopes')
    rep.rule('R7', 'LayerResultBuilder carries what the callback put in unchanged into the LayerResult')
    rep.not_decided = ['byte equality of disk contents and callback data (toml/fs trusted)', 'behaviour of user callbacks']
    from . import layer_roles
    global HL, WL, RL
    ROLES = layer_roles.roles(prog, sl)
    HL, WL, RL = ROLES['TRAIT_HL'] or HL, ROLES['TRAIT_WL'] or WL, ROLES['TRAIT_RL'] or RL
    LayerPaths.sbom_path_fn = ROLES['SBOM_PATH'] or LayerPaths.sbom_path_fn
    # effects with Vec-carried work understood (tables grown by push/extend before a loop, drained work-lists)
    E = H.VecEffects(prog, sl)
    hl = prog.fn(HL)
    rep.analysed(hl)
    ROLES = dict(ROLES)
    ROLES['DELETE'] = H.delete_role(E, ROLES, hl)     # validated on its effects (paths planned into a Vec first, ...)
    is_ld = lambda v: v[0] == 'field' and v[2] == 'layers_dir' and v[1][0] == 'param' and v[1][1] == HL and v[1][2] == 0

    def is_ln(v):
        if v[0] == 'param' and v[1] == HL and v[2] == 1:
            return True
        # layer_data.name of the layer just read with (LD, LN)
        return v[0] == 'field' and v[2] == 'name' and find_call(v[1], RL) is not None
    # `layer_data.path` of the layer just read is the layer directory (R5 reader/path establishes it)
    is_layer_path = lambda v: v[0] == 'field' and v[2] == 'path' and strip(v[1])[0] == 'call' and strip(v[1])[1] == RL
    LP = RowPaths(is_ld, is_ln, dir_values=(is_layer_path,))
    kl = lambda e: LP.classify(e.path) if e.path is not None else None
    # lib.effects.outcomes, each callee read under its call site's literal switches; a success site shared by several
    # dispatch arms (the re-read sunk below the `match`) is read once per arm: the rows are defined by the decisions on
    # "is the layer there" (the reader's result), the strategy and the migration, not by where the arms end
    # (the migration row is defined by ending in the recursion: both of its arms meet there by design)
    row_decision = lambda enum, subj: enum == STRAT or (enum != MIGR and bool(H.top_calls(subj, RL, OPAQUE())))
    outs = H.outcomes_ctx(E, hl, split_on=row_decision)
    rows = {}
    for o in outs:
        decs = [(c, s, lv) for c, s, lv in o.decisions() if c.enum in (STRAT, MIGR)]
        if decs and len(decs[-1][0].outcome) == 1:
            key = next(iter(decs[-1][0].outcome))
        elif o.value[0] == 'recursion':
            key = 'migrate'
        else:
            key = 'absent'
        rows.setdefault(key, []).append((o, decs[-1] if decs else None))
        for e in o.must + o.may:
            if e.call is not None:
                rep.analysed(e.call.fn)
    want_rows = ['absent', 'Recreate', 'Update', 'Keep', 'migrate']
    for r in want_rows:
        if r not in rows:
            rep.unproven('R1', 'row:' + r, hl.file, 'no success outcome for row %s' % r)
    for r in rows:
        if r not in want_rows:
            rep.unproven('R1', 'row:' + r, hl.file, 'unrecognised decision row %s' % r)
    # An outcome without any strategy decision is the "layer absent" row *by elimination*. When strategy rows are missing
    # at the same time and nothing on the way says the reader found no layer, that outcome may just as well be all rows
    # merged in a shape the row extraction does not separate (the dispatch inside a routine that is not in tail position,
    # a loop instead of the recursion): what fails on it is then "not understood", not a breach.
    rows_missing = [r for r in ('Recreate', 'Update', 'Keep') if r not in rows]

    class Doubtful:
        def __init__(self, rep, why):
            self._rep, self._why = rep, why

        def __getattr__(self, n):
            return getattr(self._rep, n)

        def violated(self, rule, subject, where, msg, detail=None):
            return self._rep.unproven(rule, subject, where, '%s (%s)' % (msg, self._why), detail)

        def check(self, cond, rule, subject, where, ok_msg, bad_msg, detail=None):
            if cond:
                self._rep.holds(rule, subject, where, ok_msg, detail)
            else:
                self.violated(rule, subject, where, bad_msg, detail)
            return cond
    rep0 = rep
    rep.extra['dispatch_table'] = {}
    cb_occ = {}      # callback -> {row tag: (possible occurrences, certain occurrences, one of them can repeat?, call sites)}
    for r in want_rows:
        for idx, (o, dec) in enumerate(rows.get(r, [])):
            tag = '%s#%d' % (r, idx)
            where = '%s:%d' % (o.sites[-1].fn.file, o.sites[-1].fn.line)
            rep = rep0
            if r == 'absent' and rows_missing and not any(
                    c.kind == 'variant' and c.outcome == frozenset({'None'}) and sj is not None and H.top_calls(sj, RL, OPAQUE())
                    for c, sj, lv in o.decisions()):
                rep = Doubtful(rep0, 'row(s) %s were not found and nothing on this way says the reader found no layer: this outcome may be '
                                     'several dispatch rows that the extraction could not separate' % rows_missing)
            must = o.must if dec is None else o.region(dec[0], dec[2], o.must)
            may = o.may if dec is None else o.region(dec[0], dec[2], o.may)
            seq = []
            for e in must:
                if e.kind in MUTATING:
                    seq.append('%s(%s)' % (e.kind if e.kind not in REMOVING else 'REMOVE', cls_str(kl(e))))
                elif e.kind == 'CALLBACK' and cb_names([e]):
                    seq.append('CB:' + cb_names([e])[0])
            rep.extra['dispatch_table'][tag] = {'must': seq, 'may_callbacks': sorted(set(cb_names(may))), 'returns': vstr(o.value)[:160]}

            def pos(item, start=0):
                try:
                    return seq.index(item, start)
                except ValueError:
                    return -1
            cbs_may = set(cb_names(may)) - {'types'}
            if r in ('absent', 'Recreate'):
                p_mk = pos('MKDIR(DIR)')
                p_cb = pos('CB:create')
                p_wr = pos('WRITE(TOML)')
                rep.check(0 <= p_mk < p_cb < p_wr, 'R1', tag + '/order', where, 'MKDIR(DIR) -> create -> write',
                          'row %s: expected MKDIR(DIR) -> create -> WRITE(TOML), extracted %s' % (r, seq))
                rep.check(cbs_may <= {'create'}, 'R2', tag + '/callbacks', where, 'only create can run',
                          'callbacks %s can run on the %s arm' % (sorted(cbs_may), r))
                if r == 'Recreate':
                    p_rm = [pos('REMOVE(DIR)'), pos('REMOVE(TOML)')]
                    sb = [e for e in must if e.kind == 'REMOVE_FILE' and kl(e) and kl(e)[0] == 'SBOM']
                    rep.check(min(p_rm) >= 0 and max(p_rm) < p_mk and bool(sb), 'R1', tag + '/delete-first', where,
                              'DIR, TOML and SBOMs removed before re-creation', 'Recreate does not delete the old layer first: %s' % seq)
            elif r == 'Update':
                p_cb = pos('CB:update')
                p_wr = pos('WRITE(TOML)')
                rep.check(0 <= p_cb < p_wr, 'R1', tag + '/order', where, 'update -> write', 'row Update: expected update -> WRITE(TOML), extracted %s' % seq)
                rep.check(cbs_may <= {'update'}, 'R2', tag + '/callbacks', where, 'only update can run', 'callbacks %s can run on the Update arm' % sorted(cbs_may))
                bad = [e for e in may if e.kind in DIR_TOUCH and kl(e) == ('DIR',)]
                rep.check(not bad, 'R1', tag + '/no-delete', where, 'layer directory is not deleted on update', 'Update arm can delete the layer directory')
            elif r == 'Keep':
                rep.check(pos('WRITE(TOML)') >= 0, 'R1', tag + '/types-rewrite', where, 'metadata (types) rewritten', 'Keep arm does not rewrite the layer TOML: %s' % seq)
                rep.check(not cbs_may, 'R2', tag + '/callbacks', where, 'neither create nor update runs', 'callbacks %s can run on the Keep arm' % sorted(cbs_may))
                bad = [e for e in may if (e.kind in DIR_TOUCH and kl(e) == ('DIR',)) or (kl(e) and kl(e)[0] == 'SBOM' and e.kind in MUTATING)]
                rep.check(not bad, 'R1', tag + '/frame', where, 'layer dir and SBOMs untouched on keep',
                          'Keep arm can modify %s' % [(e.kind, cls_str(kl(e))) for e in bad[:3]])
            # ---- how often each callback can run on this row (R2 call-sites/*) ----------------------------
            for m in FALLIBLE_CBS:
                def occ_of(effs):
                    d = {}
                    for q in effs:
                        if q.kind == 'CALLBACK' and q.call is not None and cb_names([q]) == [m]:
                            k = tuple((l.call.fn.path, l.call.bb) for l in (q.chain or ()) if isinstance(l, Link)) + ((q.call.fn.path, q.call.bb),)
                            d[k] = d.get(k, False) or q.forall is not None or any(fp in prog.fns and prog.fns[fp].in_loop(bb) for fp, bb in k)
                    return d
                occ, sure = occ_of(o.may + o.must), occ_of(o.must)
                cb_occ.setdefault(m, {})[tag] = (len(occ), len(sure), any(occ.values()), {k[-1] for k in occ})
            # ---- deepening: what the row carries -------------------------------------------------------
            row_carries(rep, prog, sl, E, LP, ROLES, r, tag, where, o, must, may)
            # ---- R5 ----------------------------------------------------------------------------------
            if r != 'migrate':
                # the success payload of what is returned, on the normal form that does not depend on `?` / map_err /
                # ok_or / a private write-then-re-read helper, is the reader's result for (LD, LN) ...
                payload = H.open_payload(sl, H.unwrap_n(sl, o.value, 1, keep=OPAQUE()), keep=OPAQUE())
                rcs = H.top_calls(payload, RL, OPAQUE())
                rc = rcs[0] if len(rcs) == 1 else None
                ok = rc is not None and len(rc[2]) >= 2 and LP.classify(('call', 'std::path::Path::join', (rc[2][0], rc[2][1]))) == ('DIR',)
                # ... and nothing can mutate the layer after that read: at every level of the call chain leading to it,
                # no call that can run after it has a mutating effect
                after_ok, late = True, []
                if rc is not None and len(rc) == 4 and rc[3]:
                    levels = H.levels_to(o, RL, tuple(rc[3]))
                    if levels is None:
                        sf = prog.fns.get(rc[3][0])
                        levels = [sf.call_at(rc[3][1])] if sf is not None and sf.path in {st.fn.path for st in o.sites} else None
                    if not levels or any(c is None for c in levels):
                        after_ok = False
                        late.append('the call chain to the re-read was not found')
                    else:
                        for lc in levels:
                            sf = lc.fn
                            later = sf.reachable(lc.bb) - {lc.bb}
                            for c in sf.calls:
                                if c.bb in later:
                                    tmp = []
                                    E._expand_call(sf, c, None, 'may', {}, (), (sf.path,), tmp)
                                    if any(e.kind in MUTATING for e in tmp):
                                        after_ok = False
                                        late.append('%s in %s' % ((c.name or '?').split('::')[-1], sf.path.split('::')[-1]))
                rep.check(ok and after_ok, 'R5', tag + '/reread', where, 'returns read_layer(LD, LN) performed after the last mutation',
                          'returned layer data is not a re-read of this layer after the last write%s: %s' % (' (%s)' % ', '.join(late[:2]) if late else '', vstr(payload)[:160]))
    rep = rep0
    # ---- R2 call-site counts ---------------------------------------------------------------------------
    # "exactly once when due": one call site outside any loop is the simple case; with several call sites (the routine
    # around the callback inlined into each arm, ...) the same follows when, on every dispatch row, at most one of them
    # can run, none can repeat, and no call site exists that the dispatch does not account for
    callers = prog.callers()
    for m in FALLIBLE_CBS:
        sites = [c for c in callers.get(T + m, []) if c.decl == T + m and c.fn.crate == 'libcnb']
        looped = [c for c in sites if c.fn.in_loop(c.bb)]
        swhere = sites[0].where() if sites else hl.file
        if len(sites) <= 1 or looped:
            ok = len(sites) == 1 and not looped
            rep.check(ok, 'R2', 'call-sites/' + m, swhere, 'Layer::%s: one call site, not in a loop' % m,
                      'Layer::%s has %d call site(s)%s' % (m, len(sites), ' (in a loop)' if looped else ''))
            continue
        per_row = cb_occ.get(m, {})
        seen_sites = set().union(*[x[3] for x in per_row.values()]) if per_row else set()
        stray = [c for c in sites if (c.fn.path, c.bb) not in seen_sites]
        twice = sorted(t for t, x in per_row.items() if x[1] > 1 or x[2])
        maybe = sorted(t for t, x in per_row.items() if x[0] > 1 and t not in twice)
        if twice or stray:
            rep.violated('R2', 'call-sites/' + m, swhere, 'Layer::%s has %d call sites; %s' % (m, len(sites), '; '.join(
                ['it runs more than once on row(s) %s' % twice] * bool(twice) + ['%d of them outside the dispatch rows' % len(stray)] * bool(stray))))
        elif maybe:
            rep.unproven('R2', 'call-sites/' + m, swhere, 'Layer::%s has %d call sites and more than one of them can run on row(s) %s' % (m, len(sites), maybe))
        else:
            rep.holds('R2', 'call-sites/' + m, swhere, 'Layer::%s: %d call sites, at most one of them runs on any dispatch row, none in a loop' % (m, len(sites)))
    # ---- R3 forwarding ----------------------------------------------------------------------------------
    lr = prog.adt('libcnb::layer::trait_api::LayerResult')
    lr_fields = sorted(f['name'] for v in lr['variants'] for f in v['fields'])
    wl_calls = [c for c in callers.get(WL, []) if c.name == WL and c.fn.crate == 'libcnb']
    rows3 = []
    seen_subj = {}
    kinds_seen = set()
    for c0 in wl_calls:
        for f, c, a, lpath in H.lifted_args_ctx(E, c0, 'libcnb', stop_at=(hl.path,), with_path=True):
            rows3.append((f, c, a, c0, lpath))
    rep.floor('R3', 'writer_call_sites', len(rows3))
    for f, c, a, c0, lpath in rows3:
        env, lcm, ex, sb = strip(a[2]), strip(a[3]), strip(a[4]), strip(a[5])
        if lcm[0] == 'call' and lcm[1] in prog.fns:
            # a private helper that only assembles the content metadata is transparent
            lcm = strip(sl.inline_deep(lcm, keep=OPAQUE()))
        kind = None
        for cbn in ('create', 'update'):
            if find_call(lcm, T + cbn) or find_call(env, T + cbn):
                kind = cbn
                kinds_seen.add(cbn)
        subj = '%s' % c0.fn.path.split('::')[-1]
        n = seen_subj.get(subj, 0)
        seen_subj[subj] = n + 1
        subj = subj if n == 0 else '%s@%d' % (subj, n)
        lf = dict(lcm[3]) if lcm[0] == 'agg' else {}
        types_v = strip(lf.get('types', ('unknown',)))
        meta_v = strip(lf.get('metadata', ('unknown',)))
        if kind:
            cbname = T + kind
            used = set()
            t_ok = types_v[0] == 'agg' and types_v[2] == 'Some' and strip(dict(types_v[3])['0'])[0] == 'call' and strip(dict(types_v[3])['0'])[1] == T + 'types'
            rep.check(t_ok, 'R3', subj + '/types', c.where(), 'types <- layer.types()', 'written types are not layer.types(): ' + vstr(types_v)[:100])
            m_ok = is_field_of_call(meta_v, 'metadata', cbname)
            used.add('metadata') if m_ok else None
            rep.check(m_ok, 'R3', subj + '/metadata', c.where(), 'metadata <- result.metadata', 'written metadata is not the callback result\'s: ' + vstr(meta_v)[:100])
            # "the result's env, an empty one when it has none", however the default is spelled (H.env_or_default)
            ex_src, ev = H.env_or_default(sl, env)
            e_ok = ev == 'ok' and is_field_of_call(ex_src, 'env', cbname)
            used.add('env') if e_ok else None
            if ev == 'unguarded' and is_field_of_call(ex_src, 'env', cbname):
                used.add('env')      # consumed; whether always when present is the open question
                rep.unproven('R3', subj + '/env', c.where(), 'the written env merges result.env and an empty env, but the empty one is not '
                             'provably used only when the result has no env: ' + vstr(env)[:100])
            else:
                rep.check(e_ok, 'R3', subj + '/env', c.where(), 'env <- result.env.unwrap_or_default()',
                          'written env is not the callback result\'s (or an empty one when it has none): ' + vstr(env)[:100])
            x_ok = ex[0] == 'agg' and ex[2] == 'Replace' and is_field_of_call(dict(ex[3])['0'], 'exec_d_programs', cbname)
            used.add('exec_d_programs') if x_ok else None
            rep.check(x_ok, 'R3', subj + '/exec_d', c.where(), 'exec.d <- Replace(result.exec_d_programs)', 'exec.d programs of the result are not forwarded: ' + vstr(ex)[:100])
            s_ok = sb[0] == 'agg' and sb[2] == 'Replace' and is_field_of_call(dict(sb[3])['0'], 'sboms', cbname)
            used.add('sboms') if s_ok else None
            rep.check(s_ok, 'R3', subj + '/sboms', c.where(), 'SBOMs <- Replace(result.sboms)', 'SBOMs of the result are not forwarded: ' + vstr(sb)[:100])
            rep.check(sorted(used) == lr_fields, 'R3', subj + '/all-fields', c.where(), 'every LayerResult field %s is consumed' % lr_fields,
                      'LayerResult fields %s, forwarded %s' % (lr_fields, sorted(used)))
        else:
            # keep / replace-metadata: existing data, Keep/Keep
            # the decision on the strategy / migration may sit at any level between the handler and the writer call
            conds = [cd for cs in reversed(lpath) for cd in conditions(cs.fn, cs.bb, sl) if cd.kind == 'variant' and cd.enum in (STRAT, MIGR)]
            arm = next(iter(conds[-1].outcome)) if conds and len(conds[-1].outcome) == 1 else '?'
            subj = '%s/%s' % (subj, arm)
            rep.check(ex[0] == 'agg' and ex[2] == 'Keep' and sb[0] == 'agg' and sb[2] == 'Keep', 'R3', subj + '/switches', c.where(),
                      'exec.d and SBOMs kept', '%s arm does not keep exec.d/SBOMs: %s / %s' % (arm, vstr(ex)[:60], vstr(sb)[:60]))
            rep.check(env[0] == 'field' and env[2] == 'env' and find_call(env[1], RL) is not None, 'R3', subj + '/env', c.where(),
                      'env <- existing layer data', 'env written on %s is not the existing one: %s' % (arm, vstr(env)[:100]))
            if arm == 'Keep':
                t_ok = types_v[0] == 'agg' and types_v[2] == 'Some' and strip(dict(types_v[3])['0'])[0] == 'call' and strip(dict(types_v[3])['0'])[1] == T + 'types'
                rep.check(t_ok, 'R3', subj + '/types', c.where(), 'types <- layer.types() (refreshed)', 'Keep writes types from %s' % vstr(types_v)[:100])
                m_ok = meta_v[0] == 'field' and meta_v[2] == 'metadata' and find_call(meta_v, RL) is not None
                rep.check(m_ok, 'R3', subj + '/metadata', c.where(), 'metadata <- existing', 'Keep writes metadata from %s' % vstr(meta_v)[:100])
            elif arm == 'ReplaceMetadata':
                t_ok = types_v[0] == 'field' and types_v[2] == 'types' and find_call(types_v, RL) is not None
                rep.check(t_ok, 'R3', subj + '/types', c.where(), 'types <- existing', 'ReplaceMetadata writes types from %s' % vstr(types_v)[:100])
                m_ok = any(x[0] == 'variant' and x[2] == 'ReplaceMetadata' for x in walk(meta_v))
                rep.check(m_ok, 'R3', subj + '/metadata', c.where(), 'metadata <- migrated metadata', 'ReplaceMetadata writes metadata from %s' % vstr(meta_v)[:100])
            else:
                rep.unproven('R3', subj, c.where(), 'writer call on an unrecognised arm')
    # the forwarding obligations above need their subject: a writer call fed from the result of each of create / update (a
    # row that persists its result some other way is not covered by them)
    for cbn in ('create', 'update'):
        if cbn in kinds_seen:
            rep.holds('R3', 'forwarding-subject/' + cbn, hl.file, 'the result of Layer::%s reaches the layer writer' % cbn)
        else:
            rep.unproven('R3', 'forwarding-subject/' + cbn, hl.file,
                         'no call of the layer writer is fed from the result of Layer::%s: what that row persists (env, exec.d, SBOMs) is not covered' % cbn)
    # ---- R4 switch semantics ------------------------------------------------------------------------------
    # Stated on the writer's interprocedural effects with the four routines it composes as vocabulary (EW): *where* the
    # switch is looked at (an `if let` in the writer, a `match` in a method of the switch type, a private helper around
    # the env write) does not matter, only under which decisions — in the writer's own terms — each routine runs.
    wl = prog.fn(WL)
    rep.analysed(wl)
    wwhere = '%s:%d' % (wl.file, wl.line)
    EW = H.VecEffects(prog, sl, vocab={k: v for k, v in ((L.W_LAYER, ('W_ENV', 1)), (ROLES['REPLACE_SBOMS'], ('R_SBOMS', None)),
                                                         (ROLES['REPLACE_EXECD'], ('R_EXECD', None))) if k})
    lpw = LayerPaths(lambda v: v[0] == 'param' and v[1] == wl.path and v[2] == 0, lambda v: v[0] == 'param' and v[1] == wl.path and v[2] == 1)
    w_must = EW.expand(wl, 'must')
    w_may = EW.expand(wl, 'may')
    for e in w_may:
        if e.call is not None:
            rep.analysed(e.call.fn)
    # "the metadata is written" = a certain write of <layers_dir>/<name>.toml (by whichever routine; what it contains is
    # R3 <row>/toml-*), "the env is written" = a certain call of LayerEnv::write_to_layer_dir
    must_kinds = ['W_META' if (e.kind == 'WRITE' and e.path is not None and lpw.classify(e.path) == ('TOML',)) else e.kind for e in w_must]
    rep.check('W_META' in must_kinds and 'W_ENV' in must_kinds, 'R4', 'writer/always', wwhere,
              'metadata and env are written on every success path', 'metadata/env write is conditional: certain effects of the writer are %s' % must_kinds)
    # what the writer hands to the env writer is the env it was given, for this layer's directory
    for e in [q for q in w_must if q.kind == 'W_ENV'][:1]:
        ev = H.peel_views(e.args[0]) if e.args else ('unknown',)
        ok = ev[0] == 'param' and ev[1] == wl.path and ev[2] == 2 and len(e.args) > 1 and lpw.classify(e.args[1]) == ('DIR',)
        rep.check(ok, 'R4', 'writer/env-forwarded', e.where(), 'the env given to the writer is written to <layers_dir>/<name>',
                  'the writer persists env %s at %s' % (vstr(ev)[:60], vstr(e.args[1])[:80] if len(e.args) > 1 else '?'))
    for kind, enum, pidx in (('R_SBOMS', 'libcnb::layer::trait_api::handling::Sboms', 5),
                             ('R_EXECD', 'libcnb::layer::trait_api::handling::ExecDPrograms', 4)):
        short = {5: 'replace_layer_sboms', 4: 'replace_layer_exec_d_programs'}[pidx]
        chains = {}
        for e in w_may:
            if e.kind == kind and e.call is not None:
                chains.setdefault(tuple((l.call.fn.path, l.call.bb) for l in e.chain if isinstance(l, Link)) + ((e.call.fn.path, e.call.bb),), e)
        if len(chains) != 1:
            (rep.unproven if chains else rep.violated)('R4', 'writer/' + short, wwhere, '%d call sites of %s reached from the writer' % (len(chains), short))
            continue
        e = next(iter(chains.values()))
        gs = guards_of(EW, e)
        is_switch = lambda v: v is not None and strip(v)[0] == 'param' and strip(v)[1] == wl.path and strip(v)[2] == pidx
        # the switch is the writer's parameter, whatever its type is called (two enums, one generic `Replacement<T>` with
        # type aliases ...): a decision on the variant of that parameter is a decision on the switch
        sw = [(cd, subj) for cd, views, subj in gs if cd.kind == 'variant' and (cd.enum == enum or is_switch(subj))]
        g_ok = bool(sw) and sw[-1][0].outcome == frozenset({'Replace'}) and is_switch(sw[-1][1])
        # the switch looked at through a private Option view (`fn replacement(self) -> Option<T>` + map / map_or / and_then
        # / if-let on it): the routine runs in a closure that exists exactly when that view has a payload, and on the
        # normal form with private helpers transparent the view is a `select` over the switch — Some exactly on Replace
        views = [H.switch_view(sl, imp[1]) for imp in (e.implied or ()) if imp[0] == 'unwrap']
        views = [vw for vw in views if vw is not None and is_switch(vw[0])]
        if not sw and views:
            g_ok = all(set(vw[2]) == {'Replace'} for vw in views)
        rep.check(g_ok, 'R4', 'writer/%s/guard' % short, e.where(), 'runs exactly on Replace', '%s is not guarded by the Replace variant of its switch' % short)
        pv = strip(e.args[2]) if e.args and len(e.args) > 2 else ('unknown',)
        raw = e.args[2] if e.args and len(e.args) > 2 else ('unknown',)
        while raw[0] in ('ref', 'deref') and len(raw) > 1:
            raw = raw[1]
        if raw[0] == 'unwrap':
            vw = H.switch_view(sl, raw[1])
            if vw is not None and is_switch(vw[0]) and set(vw[2]) == {'Replace'}:
                pv = strip(vw[2]['Replace'])      # the payload of the view is the payload of Replace
        p_ok = pv[0] == 'field' and pv[2] == '0' and pv[1][0] == 'variant' and pv[1][2] == 'Replace' and is_switch(pv[1][1])
        rep.check(p_ok, 'R4', 'writer/%s/payload' % short, e.where(), 'replaces with the Replace payload', 'replacement data is %s' % vstr(pv)[:80])
        # nothing but the switch decides whether the replace routine runs (`Replace(vec![])` must still wipe the old set)
        extra = [cd for cd, views, subj in H.optional_guards(EW, e) if not (cd.kind == 'variant' and is_switch(subj))]
        rep.check(not extra, 'R4', 'writer/%s/only-switch' % short, e.where(), 'Replace(x) always runs the replace routine, whatever x is',
                  '%s is skipped under a further condition: %s' % (short, [repr(cd) for cd in extra][:2]))
    # replace really replaces
    rs = prog.fn(ROLES['REPLACE_SBOMS'])
    rep.analysed(rs)
    lp = LayerPaths(lambda v: v[0] == 'param' and v[1] == rs.path and v[2] == 0, lambda v: v[0] == 'param' and v[1] == rs.path and v[2] == 1)
    must = E.expand(rs, 'must')
    rm = [e for e in must if e.kind == 'REMOVE_FILE' and (lp.classify(e.path) or (None,))[0] == 'SBOM']
    wr = [e for e in must if e.kind == 'WRITE' and e.forall is not None and (lp.classify(e.path) or (None,))[0] == 'SBOM']
    all_variants = sorted(v['name'] for v in prog.adt('libcnb_data::sbom::SbomFormat')['variants'])
    rm_ok = sorted(sbom_formats_covered(rm, lp.classify)) == all_variants
    rep.check(rm_ok, 'R4', 'replace_sboms/remove-all-formats', '%s:%d' % (rs.file, rs.line), 'old SBOM files of every format removed',
              'replace_layer_sboms does not remove the old SBOM of every format')
    w_ok = False
    if wr:
        e = wr[0]
        coll = strip(e.forall)
        fmtv = strip(lp.classify(e.path)[1])
        c1, p1 = L.loop_element(fmtv)
        data = e.args[1] if e.args is not None and len(e.args) > 1 else None
        if data is None:
            # `File::create(p).and_then(|mut f| f.write_all(d))` / the OpenOptions spelling of it: the bytes are handed over
            # in a closure, where the library does not attach them to the create effect (seed round 5, twin of C05-5)
            from .C05_helpers import written_data, WRITE_DATA
            from .lib.effects import Effects as _Eff
            data, _dw = written_data(e, _Eff(prog, sl, vocab=WRITE_DATA).expand(rs, 'must'))
        c2, p2 = L.loop_element(H.peel_views(data)) if data is not None else (None, None)     # `&sbom.data` / `sbom.data.as_slice()`: the same bytes
        w_ok = coll[0] == 'param' and coll[2] == 2 and c1 == coll and p1 == ('format',) and c2 == coll and p2 == ('data',)
    rep.check(w_ok, 'R4', 'replace_sboms/write-each', '%s:%d' % (rs.file, rs.line), 'every given SBOM is written to the path of its own format with its own data',
              'SBOM write loop does not write (format, data) of each element')
    if rm and wr:
        order = [id(e) for e in must]
        rep.check(order.index(id(rm[0])) < order.index(id(wr[0])), 'R4', 'replace_sboms/order', '%s:%d' % (rs.file, rs.line), 'remove before write', 'SBOMs are removed after being written')
    # where the SBOM of a format lives: <layers_dir>/<layer>.sbom.<cdx.json | spdx.json | syft.json> (CNB buildpack spec, "Layer
    # Software-Bill-of-Materials"): the file the lifecycle reads as format F must hold the data the callback returned as F
    spf = prog.fns.get(ROLES['SBOM_PATH'] or '')
    if spf is None:
        rep.unproven('R4', 'sbom-path/spec', '-', 'SBOM path constructor not found')
    else:
        rep.analysed(spf)
        tbl = H.sbom_name_table(sl, spf)
        want = {v: '{name}.sbom.' + SBOM_EXT[v] for v in all_variants if v in SBOM_EXT}
        if tbl is None or sorted(all_variants) != sorted(SBOM_EXT):
            rep.unproven('R4', 'sbom-path/spec', '%s:%d' % (spf.file, spf.line), 'SBOM file names are not <name> + per-format literal, or a format without spec entry exists: %s' % all_variants)
        else:
            rep.check(tbl == want, 'R4', 'sbom-path/spec', '%s:%d' % (spf.file, spf.line), 'every format is stored under its spec file name: %s' % sorted(tbl.items()),
                      'SBOM file names %s differ from the spec table %s' % (sorted(tbl.items()), sorted(want.items())))
    rx = prog.fn(ROLES['REPLACE_EXECD'])
    rep.analysed(rx)
    lpx = LayerPaths(lambda v: v[0] == 'param' and v[1] == rx.path and v[2] == 0, lambda v: v[0] == 'param' and v[1] == rx.path and v[2] == 1)
    may = E.expand(rx, 'may')
    rmx = [e for e in may if e.kind == 'REMOVE_TREE']
    good = len(rmx) == 1 and lpx.classify(rmx[0].path) == ('SUB', ('DIR',), 'exec.d')
    if good:
        cds = [cd for cd in conditions(rx, rmx[0].call.bb, sl) if cd.kind == 'bool']
        good = all(cd.value[0] == 'call' and cd.value[1] in ('std::path::Path::is_dir', 'std::path::Path::exists') for cd in cds)
    rep.check(good, 'R4', 'replace_exec_d/remove', '%s:%d' % (rx.file, rx.line), 'old exec.d directory removed when present', 'old exec.d directory is not wiped before copying')
    cp = [e for e in may if e.kind == 'WRITE' and e.call.is_('std::fs::copy')]
    c_ok = False
    if len(cp) == 1:
        k = lpx.classify(cp[0].path)
        if k and k[0] == 'SUB' and k[1] == ('SUB', ('DIR',), 'exec.d'):
            c1, p1 = L.loop_element(k[2]) if not isinstance(k[2], str) else (None, None)
            c_ok = c1 is not None and strip(c1)[0] == 'param' and strip(c1)[2] == 2 and p1 == ('0',)
    rep.check(c_ok, 'R4', 'replace_exec_d/copy-each', '%s:%d' % (rx.file, rx.line), 'each program copied to exec.d/<its name>', 'exec.d copy target is not <layer>/exec.d/<name>')
    if len(cp) == 1:
        e = cp[0]
        top = e.chain[0] if e.chain else e.call
        top = top.call if isinstance(top, Link) else top
        every, why = (False, 'the copy is not reached from the body of replace_layer_exec_d_programs')
        if top is not None and top.fn.path == rx.path:
            is_copy = lambda q: q.kind == 'WRITE' and q.call is not None and q.call.is_('std::fs::copy')
            every, why = H.certain_for_every_element(E, rx, top, is_copy)
            if every and H.swallowed_levels(prog, sl, e, ()):
                every, why = False, 'a failed copy is tolerated'
        rep.check(every, 'R4', 'replace_exec_d/copy-every', '%s:%d' % (rx.file, rx.line), 'every given program is copied (or the call fails)',
                  'not every exec.d program of the result is copied: ' + why)
        src = H.peel_some(e.args[0]) if e.args else None
        c2, p2 = L.loop_element(src) if src is not None else (None, None)
        s_ok = c2 is not None and strip(c2)[0] == 'param' and strip(c2)[2] == 2 and p2 == ('1',)
        rep.check(s_ok, 'R4', 'replace_exec_d/copy-source', '%s:%d' % (rx.file, rx.line), 'each program is copied from its own source path',
                  'exec.d copy source is %s, not the path given for the program' % (vstr(src)[:80] if src is not None else '?'))
    # ---- R5 reader composition: the returned LayerData is what is on disk -------------------------------------
    import re
    rl = prog.fn(RL)
    rep.analysed(rl)
    rwhere = '%s:%d' % (rl.file, rl.line)
    lpr = LayerPaths(lambda v: v[0] == 'param' and v[1] == rl.path and v[2] == 0, lambda v: v[0] == 'param' and v[1] == rl.path and v[2] == 1)
    ldv = H.deep_fields(sl, H.unwrap_n(sl, sl.local(rl, 0), 2, keep=(L.R_LAYER,)), keep=(L.R_LAYER,))
    if not (ldv[0] == 'agg' and (ldv[1] or '').endswith('::LayerData')):
        rep.unproven('R5', 'reader/shape', rwhere, 'the layer data returned by the reader is not understood: ' + vstr(ldv)[:160])
    else:
        fd = dict(ldv[3])
        nv = fd.get('name', ('unknown',))
        rep.check(nv[0] == 'param' and nv[1] == rl.path and nv[2] == 1, 'R5', 'reader/name', rwhere, 'name <- the layer name asked for',
                  'returned name is ' + vstr(nv)[:80])
        rep.check(lpr.classify(fd.get('path')) == ('DIR',), 'R5', 'reader/path', rwhere, 'path <- <layers_dir>/<name>', 'returned path is ' + vstr(fd.get('path', ('unknown',)))[:80])
        ev = fd.get('env', ('unknown',))
        e_ok = ev[0] == 'unwrap' and ev[1][0] == 'call' and ev[1][1] == L.R_LAYER and len(ev[1][2]) == 1 and lpr.classify(ev[1][2][0]) == ('DIR',)
        rep.check(e_ok, 'R5', 'reader/env', rwhere, 'env <- LayerEnv::read_from_layer_dir(<layer dir>), a read failure fails the reader',
                  'returned env is %s: not (only) what read_from_layer_dir finds in the layer directory' % vstr(ev)[:120])
        # a private helper that reads + parses the file it is given is transparent (success-payload normal form)
        cv = H.open_payload(sl, fd.get('content_metadata', ('unknown',)), keep=(L.R_LAYER,))
        # ... also when only the file access (locate + normalise + read) lives in the helper and the parse stays here:
        # projections of the helper's success payload (`helper(..)?.1`) are resolved (H.deep_fields)
        cv = H.deep_fields(sl, cv, keep=(L.R_LAYER,))
        c_ok = False
        if cv[0] == 'unwrap' and cv[1][0] == 'call' and re.match(r'^toml::(de::)?from_(str|slice)$', cv[1][1]) and len(cv[1][2]) == 1:
            src = cv[1][2][0]
            c_ok = src[0] == 'unwrap' and src[1][0] == 'call' and src[1][1] in ('std::fs::read_to_string', 'std::fs::read') and lpr.classify(src[1][2][0]) == ('TOML',)
        rep.check(c_ok, 'R5', 'reader/content_metadata', rwhere, 'content_metadata <- the parsed <name>.toml',
                  'returned content metadata is %s: not the parsed layer TOML' % vstr(cv)[:120])
    ents = prog.find(ENTRY)
    if len(ents) != 1:
        rep.unproven('R5', 'entry/passthrough', hl.file, 'BuildContext::handle_layer not found')
    else:
        ent = ents[0]
        rep.analysed(ent)
        rv = H.unwrap_n(sl, sl.local(ent, 0), 1, keep=(HL,))
        ok = rv[0] == 'unwrap' and rv[1][0] == 'call' and rv[1][1] == HL and \
            all(a[0] == 'param' and a[1] == ent.path and a[2] == i for i, a in enumerate(rv[1][2]))
        rep.check(ok, 'R5', 'entry/passthrough', '%s:%d' % (ent.file, ent.line), 'BuildContext::handle_layer returns what the handler returns',
                  'BuildContext::handle_layer returns %s' % vstr(rv)[:120])
    # ---- R7 ----------------------------------------------------------------------------------------------
    builder_fidelity(rep, prog, sl, E)
    # ---- R6 ----------------------------------------------------------------------------------------------
    wf, wt, wcalls = H.writer_scope_table(prog, sl)   # L.writer_scope_table on VecEffects
    from . import C03_helpers as H3   # the generalised reader table (helpers, collected pipelines)
    rf, rt, rdetail = H3.reader_scope_table(prog, sl)
    for scope in sorted(set(wt) | set(rt)):
        if wt.get(scope) is None or rt.get(scope) is None:
            # one side has no location for the scope: either it really is not persisted / not read back (a breach), or the
            # store / read of that scope is spelled in a way the table extraction does not follow — not decidable here
            side = 'writer' if wt.get(scope) is None else 'reader'
            rep.unproven('R6', 'reader/' + scope, '%s:%d' % (rf.file, rf.line),
                         'env scope %s: written to %s, read from %s — where the %s handles this scope was not found (not persisted / not '
                         'read back, or a spelling the scope table does not follow)' % (scope, wt.get(scope), rt.get(scope), side))
            continue
        rep.check(wt.get(scope) == rt.get(scope) and wt.get(scope) is not None, 'R6', 'reader/' + scope, '%s:%d' % (rf.file, rf.line),
                  'scope %s written and read at %s' % (scope, wt.get(scope)),
                  'env scope %s: written to %s, read from %s — the re-read layer data cannot equal what was written' % (scope, wt.get(scope), rt.get(scope)))
