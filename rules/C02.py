"""C02 — trait-based layer handling runs the right callbacks and persists their result.

Decided structurally:
  R1 dispatch table   per (layer present?, strategy / migration decision): effects that must happen, in
                      order, and the callbacks that may run after the decision
  R2 once-only        Layer::create / Layer::update have exactly one call site each, outside any loop,
                      and can only run on their own arm
  R3 forwarding       the writer's arguments come from the callback's result (metadata, env or default,
                      exec.d programs, SBOMs) with types <- layer.types(); every LayerResult field is
                      consumed; keep = existing env/metadata with refreshed types and Keep/Keep switches;
                      ReplaceMetadata = migrated metadata with existing types/env and Keep/Keep
  R4 switch semantics in the writer, Replace(x) calls the replace routine with x, Keep touches nothing of
                      that class; metadata and env are always written; SBOM/exec.d replacement really
                      replaces (old removed, new written for every element)
  R5 read-after-write every success value is the result of re-reading the layer after the last mutation
  R6 scope agreement  writer and reader of the env agree on all four scopes (shared with C03.R1)
Not decided: equality of on-disk bytes with the callback's values (toml / fs are trusted).

All effect-based rules (R1, R2, R4, R5, R6) run on C02_helpers.VecEffects: the interprocedural effect enumerator of
lib.effects extended with the two ways a Vec local carries work inside a function (a (dir, delta) table grown by
push / extend before the loop over it; an explicit-stack traversal that only succeeds with its work-list drained), so
that "the layer directory is removed first" and "every scope is written where it is read" are stated on what happens to
which path, not on recursion vs. work-list or four calls vs. one table.
"""
from . import layer_env_common as L
from . import C02_helpers as H
from .lib.effects import Effects, outcomes, MUTATING, REMOVING
from .lib.guards import conditions
from .lib.paths import sbom_formats_covered, LayerPaths, cls_str, strip
from .lib.value import vstr, walk

HL = 'libcnb::layer::trait_api::handling::handle_layer'
WL = 'libcnb::layer::trait_api::handling::write_layer'
RL = 'libcnb::layer::trait_api::handling::read_layer'
STRAT = 'libcnb::layer::trait_api::ExistingLayerStrategy'
MIGR = 'libcnb::layer::trait_api::MetadataMigration'
T = 'libcnb::layer::trait_api::Layer::'


def cb_names(effs):
    out = []
    for e in effs:
        if e.kind == 'CALLBACK' and e.path is not None and e.path[0] == 'fnitem' and e.path[1].startswith(T):
            out.append(e.path[1][len(T):])
    return out


def find_call(v, name):
    for x in walk(v):
        if x[0] == 'call' and x[1] == name:
            return x
    return None


def is_field_of_call(v, field, callname):
    v = strip(v)
    return v[0] == 'field' and v[2] == field and find_call(v[1], callname) is not None and strip(v[1])[0] in ('call', 'unwrap')


def run(ctx, rep):
    prog, sl = ctx.prog, ctx.slicer
    rep.rule('R1', 'dispatch table: must-effects and callbacks per strategy / migration decision')
    rep.rule('R2', 'create / update: one call site each, not in a loop, only on their arm')
    rep.rule('R3', 'writer arguments <- callback result / existing data; all LayerResult fields consumed')
    rep.rule('R4', 'Keep/Replace switch semantics and replace-really-replaces for SBOMs and exec.d')
    rep.rule('R5', 'returned LayerData is re-read from disk after the last mutation')
    rep.rule('R6', 'env writer/reader agree on all four scopes')
    rep.not_decided = ['byte equality of disk contents and callback data (toml/fs trusted)', 'behaviour of user callbacks']
    from . import layer_roles
    global HL, WL, RL
    ROLES = layer_roles.roles(prog, sl)
    HL, WL, RL = ROLES['TRAIT_HL'] or HL, ROLES['TRAIT_WL'] or WL, ROLES['TRAIT_RL'] or RL
    LayerPaths.sbom_path_fn = ROLES['SBOM_PATH'] or LayerPaths.sbom_path_fn
    # effects with Vec-carried work understood (tables grown by push/extend before a loop, drained work-lists)
    E = H.VecEffects(prog, sl)
    hl = prog.fn(HL)
    rep.analysed(hl)
    is_ld = lambda v: v[0] == 'field' and v[2] == 'layers_dir' and v[1][0] == 'param' and v[1][1] == HL and v[1][2] == 0

    def is_ln(v):
        if v[0] == 'param' and v[1] == HL and v[2] == 1:
            return True
        # layer_data.name of the layer just read with (LD, LN)
        return v[0] == 'field' and v[2] == 'name' and find_call(v[1], RL) is not None
    LP = LayerPaths(is_ld, is_ln)
    kl = lambda e: LP.classify(e.path) if e.path is not None else None
    outs = outcomes(E, hl)
    rows = {}
    for o in outs:
        decs = [(c, s, lv) for c, s, lv in o.decisions() if c.enum in (STRAT, MIGR)]
        if decs and len(decs[-1][0].outcome) == 1:
            key = next(iter(decs[-1][0].outcome))
        elif o.value[0] == 'recursion':
            key = 'migrate'
        else:
            key = 'absent'
        rows.setdefault(key, []).append((o, decs[-1] if decs else None))
        for e in o.must + o.may:
            if e.call is not None:
                rep.analysed(e.call.fn)
    want_rows = ['absent', 'Recreate', 'Update', 'Keep', 'migrate']
    for r in want_rows:
        if r not in rows:
            rep.unproven('R1', 'row:' + r, hl.file, 'no success outcome for row %s' % r)
    for r in rows:
        if r not in want_rows:
            rep.unproven('R1', 'row:' + r, hl.file, 'unrecognised decision row %s' % r)
    rep.extra['dispatch_table'] = {}
    for r in want_rows:
        for idx, (o, dec) in enumerate(rows.get(r, [])):
            tag = '%s#%d' % (r, idx)
            where = '%s:%d' % (o.sites[-1].fn.file, o.sites[-1].fn.line)
            must = o.must if dec is None else o.region(dec[0], dec[2], o.must)
            may = o.may if dec is None else o.region(dec[0], dec[2], o.may)
            seq = []
            for e in must:
                if e.kind in MUTATING:
                    seq.append('%s(%s)' % (e.kind if e.kind not in REMOVING else 'REMOVE', cls_str(kl(e))))
                elif e.kind == 'CALLBACK' and cb_names([e]):
                    seq.append('CB:' + cb_names([e])[0])
            rep.extra['dispatch_table'][tag] = {'must': seq, 'may_callbacks': sorted(set(cb_names(may))), 'returns': vstr(o.value)[:160]}

            def pos(item, start=0):
                try:
                    return seq.index(item, start)
                except ValueError:
                    return -1
            cbs_may = set(cb_names(may)) - {'types'}
            if r in ('absent', 'Recreate'):
                p_mk = pos('MKDIR(DIR)')
                p_cb = pos('CB:create')
                p_wr = pos('WRITE(TOML)')
                rep.check(0 <= p_mk < p_cb < p_wr, 'R1', tag + '/order', where, 'MKDIR(DIR) -> create -> write',
                          'row %s: expected MKDIR(DIR) -> create -> WRITE(TOML), extracted %s' % (r, seq))
                rep.check(cbs_may <= {'create'}, 'R2', tag + '/callbacks', where, 'only create can run',
                          'callbacks %s can run on the %s arm' % (sorted(cbs_may), r))
                if r == 'Recreate':
                    p_rm = [pos('REMOVE(DIR)'), pos('REMOVE(TOML)')]
                    sb = [e for e in must if e.kind == 'REMOVE_FILE' and kl(e) and kl(e)[0] == 'SBOM']
                    rep.check(min(p_rm) >= 0 and max(p_rm) < p_mk and bool(sb), 'R1', tag + '/delete-first', where,
                              'DIR, TOML and SBOMs removed before re-creation', 'Recreate does not delete the old layer first: %s' % seq)
            elif r == 'Update':
                p_cb = pos('CB:update')
                p_wr = pos('WRITE(TOML)')
                rep.check(0 <= p_cb < p_wr, 'R1', tag + '/order', where, 'update -> write', 'row Update: expected update -> WRITE(TOML), extracted %s' % seq)
                rep.check(cbs_may <= {'update'}, 'R2', tag + '/callbacks', where, 'only update can run', 'callbacks %s can run on the Update arm' % sorted(cbs_may))
                bad = [e for e in may if e.kind in ('REMOVE_DIR', 'CHMOD') and kl(e) == ('DIR',)]
                rep.check(not bad, 'R1', tag + '/no-delete', where, 'layer directory is not deleted on update', 'Update arm can delete the layer directory')
            elif r == 'Keep':
                rep.check(pos('WRITE(TOML)') >= 0, 'R1', tag + '/types-rewrite', where, 'metadata (types) rewritten', 'Keep arm does not rewrite the layer TOML: %s' % seq)
                rep.check(not cbs_may, 'R2', tag + '/callbacks', where, 'neither create nor update runs', 'callbacks %s can run on the Keep arm' % sorted(cbs_may))
                bad = [e for e in may if (e.kind in ('REMOVE_DIR', 'CHMOD') and kl(e) == ('DIR',)) or (kl(e) and kl(e)[0] == 'SBOM' and e.kind in MUTATING)]
                rep.check(not bad, 'R1', tag + '/frame', where, 'layer dir and SBOMs untouched on keep',
                          'Keep arm can modify %s' % [(e.kind, cls_str(kl(e))) for e in bad[:3]])
            # ---- R5 ----------------------------------------------------------------------------------
            if r != 'migrate':
                rc = find_call(o.value, RL)
                ok = rc is not None and LP.classify(('call', 'std::path::Path::join', (rc[2][0], rc[2][1]))) == ('DIR',)
                site = o.sites[-1]
                after_ok = True
                if rc is not None:
                    fnp, bb = rc[3]
                    sf = prog.fns[fnp]
                    later = sf.reachable(bb) - {bb}
                    for c in sf.calls:
                        if c.bb in later:
                            tmp = []
                            E._expand_call(sf, c, None, 'may', {}, (), (sf.path,), tmp)
                            if any(e.kind in MUTATING for e in tmp):
                                after_ok = False
                rep.check(ok and after_ok, 'R5', tag + '/reread', where, 'returns read_layer(LD, LN) performed after the last mutation',
                          'returned layer data is not a re-read of this layer after the last write: ' + vstr(o.value)[:160])
    # ---- R2 call-site counts ---------------------------------------------------------------------------
    callers = prog.callers()
    for m in ('create', 'update', 'existing_layer_strategy', 'migrate_incompatible_metadata'):
        sites = [c for c in callers.get(T + m, []) if c.decl == T + m and c.fn.crate == 'libcnb']
        ok = len(sites) == 1 and not sites[0].fn.in_loop(sites[0].bb)
        rep.check(ok, 'R2', 'call-sites/' + m, sites[0].where() if sites else hl.file, 'Layer::%s: one call site, not in a loop' % m,
                  'Layer::%s has %d call site(s)%s' % (m, len(sites), ' (in a loop)' if sites and sites[0].fn.in_loop(sites[0].bb) else ''))
    # ---- R3 forwarding ----------------------------------------------------------------------------------
    lr = prog.adt('libcnb::layer::trait_api::LayerResult')
    lr_fields = sorted(f['name'] for v in lr['variants'] for f in v['fields'])
    wl_calls = [c for c in callers.get(WL, []) if c.name == WL and c.fn.crate == 'libcnb']
    from .lib.tables import lifted_args
    rows3 = []
    seen_subj = {}
    for c0 in wl_calls:
        for f, c, a in lifted_args(prog, sl, c0, 'libcnb', stop_at=(hl.path,)):
            rows3.append((f, c, a, c0))
    rep.floor('R3', 'writer_call_sites', len(rows3))
    for f, c, a, c0 in rows3:
        env, lcm, ex, sb = strip(a[2]), strip(a[3]), strip(a[4]), strip(a[5])
        kind = None
        for cbn in ('create', 'update'):
            if find_call(lcm, T + cbn) or find_call(env, T + cbn):
                kind = cbn
        subj = '%s' % c0.fn.path.split('::')[-1]
        n = seen_subj.get(subj, 0)
        seen_subj[subj] = n + 1
        subj = subj if n == 0 else '%s@%d' % (subj, n)
        lf = dict(lcm[3]) if lcm[0] == 'agg' else {}
        types_v = strip(lf.get('types', ('unknown',)))
        meta_v = strip(lf.get('metadata', ('unknown',)))
        if kind:
            cbname = T + kind
            used = set()
            t_ok = types_v[0] == 'agg' and types_v[2] == 'Some' and strip(dict(types_v[3])['0'])[0] == 'call' and strip(dict(types_v[3])['0'])[1] == T + 'types'
            rep.check(t_ok, 'R3', subj + '/types', c.where(), 'types <- layer.types()', 'written types are not layer.types(): ' + vstr(types_v)[:100])
            m_ok = is_field_of_call(meta_v, 'metadata', cbname)
            used.add('metadata') if m_ok else None
            rep.check(m_ok, 'R3', subj + '/metadata', c.where(), 'metadata <- result.metadata', 'written metadata is not the callback result\'s: ' + vstr(meta_v)[:100])
            e_ok = env[0] == 'call' and env[1].endswith('unwrap_or_default') and is_field_of_call(env[2][0], 'env', cbname)
            used.add('env') if e_ok else None
            rep.check(e_ok, 'R3', subj + '/env', c.where(), 'env <- result.env.unwrap_or_default()', 'written env is not the callback result\'s: ' + vstr(env)[:100])
            x_ok = ex[0] == 'agg' and ex[2] == 'Replace' and is_field_of_call(dict(ex[3])['0'], 'exec_d_programs', cbname)
            used.add('exec_d_programs') if x_ok else None
            rep.check(x_ok, 'R3', subj + '/exec_d', c.where(), 'exec.d <- Replace(result.exec_d_programs)', 'exec.d programs of the result are not forwarded: ' + vstr(ex)[:100])
            s_ok = sb[0] == 'agg' and sb[2] == 'Replace' and is_field_of_call(dict(sb[3])['0'], 'sboms', cbname)
            used.add('sboms') if s_ok else None
            rep.check(s_ok, 'R3', subj + '/sboms', c.where(), 'SBOMs <- Replace(result.sboms)', 'SBOMs of the result are not forwarded: ' + vstr(sb)[:100])
            rep.check(sorted(used) == lr_fields, 'R3', subj + '/all-fields', c.where(), 'every LayerResult field %s is consumed' % lr_fields,
                      'LayerResult fields %s, forwarded %s' % (lr_fields, sorted(used)))
        else:
            # keep / replace-metadata: existing data, Keep/Keep
            conds = [cd for cd in conditions(f, c.bb, sl) + (conditions(c0.fn, c0.bb, sl) if c0.fn.path != f.path else [])
                     if cd.kind == 'variant' and cd.enum in (STRAT, MIGR)]
            arm = next(iter(conds[-1].outcome)) if conds and len(conds[-1].outcome) == 1 else '?'
            subj = '%s/%s' % (subj, arm)
            rep.check(ex[0] == 'agg' and ex[2] == 'Keep' and sb[0] == 'agg' and sb[2] == 'Keep', 'R3', subj + '/switches', c.where(),
                      'exec.d and SBOMs kept', '%s arm does not keep exec.d/SBOMs: %s / %s' % (arm, vstr(ex)[:60], vstr(sb)[:60]))
            rep.check(env[0] == 'field' and env[2] == 'env' and find_call(env[1], RL) is not None, 'R3', subj + '/env', c.where(),
                      'env <- existing layer data', 'env written on %s is not the existing one: %s' % (arm, vstr(env)[:100]))
            if arm == 'Keep':
                t_ok = types_v[0] == 'agg' and types_v[2] == 'Some' and strip(dict(types_v[3])['0'])[0] == 'call' and strip(dict(types_v[3])['0'])[1] == T + 'types'
                rep.check(t_ok, 'R3', subj + '/types', c.where(), 'types <- layer.types() (refreshed)', 'Keep writes types from %s' % vstr(types_v)[:100])
                m_ok = meta_v[0] == 'field' and meta_v[2] == 'metadata' and find_call(meta_v, RL) is not None
                rep.check(m_ok, 'R3', subj + '/metadata', c.where(), 'metadata <- existing', 'Keep writes metadata from %s' % vstr(meta_v)[:100])
            elif arm == 'ReplaceMetadata':
                t_ok = types_v[0] == 'field' and types_v[2] == 'types' and find_call(types_v, RL) is not None
                rep.check(t_ok, 'R3', subj + '/types', c.where(), 'types <- existing', 'ReplaceMetadata writes types from %s' % vstr(types_v)[:100])
                m_ok = any(x[0] == 'variant' and x[2] == 'ReplaceMetadata' for x in walk(meta_v))
                rep.check(m_ok, 'R3', subj + '/metadata', c.where(), 'metadata <- migrated metadata', 'ReplaceMetadata writes metadata from %s' % vstr(meta_v)[:100])
            else:
                rep.unproven('R3', subj, c.where(), 'writer call on an unrecognised arm')
    # ---- R4 switch semantics ------------------------------------------------------------------------------
    wl = prog.fn(WL)
    rep.analysed(wl)
    sites = [s.bb for s in E.sites(wl)]
    must_names = [c.name for c, fa in E.must_calls(wl, sites)]
    rep.check(ROLES['SHARED_WL'] in must_names and L.W_LAYER in must_names, 'R4', 'writer/always', '%s:%d' % (wl.file, wl.line),
              'metadata and env are written on every success path', 'metadata/env write is conditional: %s' % [n.split('::')[-1] for n in must_names])
    for callee, enum, pidx in ((ROLES['REPLACE_SBOMS'], 'libcnb::layer::trait_api::handling::Sboms', 5),
                               (ROLES['REPLACE_EXECD'], 'libcnb::layer::trait_api::handling::ExecDPrograms', 4)):
        cs = [c for c in wl.calls if c.name == callee]
        short = {5: 'replace_layer_sboms', 4: 'replace_layer_exec_d_programs'}[pidx]
        if len(cs) != 1:
            rep.violated('R4', 'writer/' + short, '%s:%d' % (wl.file, wl.line), '%d call sites of %s in the writer' % (len(cs), short))
            continue
        c = cs[0]
        conds = [cd for cd in conditions(wl, c.bb, sl) if cd.kind == 'variant' and cd.enum == enum]
        g_ok = bool(conds) and conds[-1].outcome == frozenset({'Replace'}) and strip(conds[-1].subject) == ('param', WL, pidx, wl.local_name(pidx + 1))
        rep.check(g_ok, 'R4', 'writer/%s/guard' % short, c.where(), 'runs exactly on Replace', '%s is not guarded by the Replace variant of its switch' % short)
        pv = strip(sl.operand(wl, c.args[2]))
        p_ok = pv[0] == 'field' and pv[2] == '0' and pv[1][0] == 'variant' and pv[1][2] == 'Replace' and strip(pv[1][1])[2] == pidx
        rep.check(p_ok, 'R4', 'writer/%s/payload' % short, c.where(), 'replaces with the Replace payload', 'replacement data is %s' % vstr(pv)[:80])
    # replace really replaces
    rs = prog.fn(ROLES['REPLACE_SBOMS'])
    rep.analysed(rs)
    lp = LayerPaths(lambda v: v[0] == 'param' and v[1] == rs.path and v[2] == 0, lambda v: v[0] == 'param' and v[1] == rs.path and v[2] == 1)
    must = E.expand(rs, 'must')
    rm = [e for e in must if e.kind == 'REMOVE_FILE' and (lp.classify(e.path) or (None,))[0] == 'SBOM']
    wr = [e for e in must if e.kind == 'WRITE' and e.forall is not None and (lp.classify(e.path) or (None,))[0] == 'SBOM']
    all_variants = sorted(v['name'] for v in prog.adt('libcnb_data::sbom::SbomFormat')['variants'])
    rm_ok = sorted(sbom_formats_covered(rm, lp.classify)) == all_variants
    rep.check(rm_ok, 'R4', 'replace_sboms/remove-all-formats', '%s:%d' % (rs.file, rs.line), 'old SBOM files of every format removed',
              'replace_layer_sboms does not remove the old SBOM of every format')
    w_ok = False
    if wr:
        e = wr[0]
        coll = strip(e.forall)
        fmtv = strip(lp.classify(e.path)[1])
        c1, p1 = L.loop_element(fmtv)
        c2, p2 = L.loop_element(e.args[1])
        w_ok = coll[0] == 'param' and coll[2] == 2 and c1 == coll and p1 == ('format',) and c2 == coll and p2 == ('data',)
    rep.check(w_ok, 'R4', 'replace_sboms/write-each', '%s:%d' % (rs.file, rs.line), 'every given SBOM is written to the path of its own format with its own data',
              'SBOM write loop does not write (format, data) of each element')
    if rm and wr:
        order = [id(e) for e in must]
        rep.check(order.index(id(rm[0])) < order.index(id(wr[0])), 'R4', 'replace_sboms/order', '%s:%d' % (rs.file, rs.line), 'remove before write', 'SBOMs are removed after being written')
    rx = prog.fn(ROLES['REPLACE_EXECD'])
    rep.analysed(rx)
    lpx = LayerPaths(lambda v: v[0] == 'param' and v[1] == rx.path and v[2] == 0, lambda v: v[0] == 'param' and v[1] == rx.path and v[2] == 1)
    may = E.expand(rx, 'may')
    rmx = [e for e in may if e.kind == 'REMOVE_TREE']
    good = len(rmx) == 1 and lpx.classify(rmx[0].path) == ('SUB', ('DIR',), 'exec.d')
    if good:
        cds = [cd for cd in conditions(rx, rmx[0].call.bb, sl) if cd.kind == 'bool']
        good = all(cd.value[0] == 'call' and cd.value[1] in ('std::path::Path::is_dir', 'std::path::Path::exists') for cd in cds)
    rep.check(good, 'R4', 'replace_exec_d/remove', '%s:%d' % (rx.file, rx.line), 'old exec.d directory removed when present', 'old exec.d directory is not wiped before copying')
    cp = [e for e in may if e.kind == 'WRITE' and e.call.is_('std::fs::copy')]
    c_ok = False
    if len(cp) == 1:
        k = lpx.classify(cp[0].path)
        if k and k[0] == 'SUB' and k[1] == ('SUB', ('DIR',), 'exec.d'):
            c1, p1 = L.loop_element(k[2]) if not isinstance(k[2], str) else (None, None)
            c_ok = c1 is not None and strip(c1)[0] == 'param' and strip(c1)[2] == 2 and p1 == ('0',)
    rep.check(c_ok, 'R4', 'replace_exec_d/copy-each', '%s:%d' % (rx.file, rx.line), 'each program copied to exec.d/<its name>', 'exec.d copy target is not <layer>/exec.d/<name>')
    # ---- R6 ----------------------------------------------------------------------------------------------
    wf, wt, wcalls = H.writer_scope_table(prog, sl)   # L.writer_scope_table on VecEffects
    from . import C03_helpers as H3   # the generalised reader table (helpers, collected pipelines)
    rf, rt, rdetail = H3.reader_scope_table(prog, sl)
    for scope in sorted(set(wt) | set(rt)):
        rep.check(wt.get(scope) == rt.get(scope) and wt.get(scope) is not None, 'R6', 'reader/' + scope, '%s:%d' % (rf.file, rf.line),
                  'scope %s written and read at %s' % (scope, wt.get(scope)),
                  'env scope %s: written to %s, read from %s — the re-read layer data cannot equal what was written' % (scope, wt.get(scope), rt.get(scope)))
