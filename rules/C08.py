"""C08 — CNB documents are parsed strictly.

Decided structurally from the serde-*generated* Deserialize code (the code that runs):
  R1 strictness       every workspace struct reachable through field types from the document roots
                      rejects unknown keys (fall-through of visit_str is unknown_field, no __ignore)
  R2 required/optional the effective key table (key names, required vs. optional vs. default and the default's
                      value) equals the table transcribed from the CNB spec (rules/tables/c08_schema.json)
  R3 kinds            Rust field types agree with the spec's value kinds (string / bool / array / table)
  R4 classification   BuildpackDescriptor is an untagged choice of exactly {Component, Composite}; the
                      component key set has no `order`, the composite one requires `order` and has no
                      `targets` / `stacks`; both strict => order+targets/stacks is rejected by both
  R5 validated leaves id / type / version / api leaves deserialize through their validating conversion
Not decided: that serde / toml reject wrong kinds as documented (trusted base).
"""
import re
from .lib import serde_schema as S
from .lib.paths import strip
from .lib.value import vstr, walk


def peel(ty):
    m = re.match(r'^std::option::Option<(.*)>$', ty)
    return m.group(1) if m else ty


def kind_of(prog, ty, kinds):
    t = peel(ty)
    if t in kinds['string']:
        return 'string'
    if t in kinds['bool']:
        return 'bool'
    m = re.match(r'^std::(?:vec::Vec|collections::HashSet|collections::BTreeSet)<(.*)>$', t)
    if m:
        inner = m.group(1)
        ik = kind_of(prog, inner, kinds)
        return 'array<%s>' % ik
    if t.startswith('toml::map::Map<') or t in prog.adts and prog.adts[t]['kind'] == 'struct':
        return 'table'
    return 'other:' + t


def default_value_ok(prog, sl, name, callee):
    """semantic check of named defaults"""
    if name == 'app':
        f = prog.fns.get('<libcnb_data::launch::WorkingDirectory as std::default::Default>::default')
        if f is None:
            return False
        v = strip(sl.local(f, 0))
        return v[0] == 'agg' and v[2] == 'App'
    if name == 'linux':
        f = prog.fns.get(callee)
        if f is None:
            return False
        v = strip(sl.local(f, 0))
        if v[0] == 'agg' and v[2] == 'Linux':
            return True
        if v[0] == 'agg' and (v[1] or '').endswith('Platform'):
            os = strip(dict(v[3]).get('os', ('unknown',)))
            return os[0] == 'agg' and os[2] == 'Linux'
        return False
    return True


def run(ctx, rep):
    prog, sl = ctx.prog, ctx.slicer
    rep.rule('R1', 'every struct reachable from the document roots is strict (unknown key => error)')
    rep.rule('R2', 'effective key table (required / optional / default) = spec table')
    rep.rule('R3', 'Rust field types = spec value kinds')
    rep.rule('R4', 'component/composite classification by disjoint strict key sets')
    rep.rule('R5', 'validated leaves deserialize through their validating conversion')
    rep.not_decided = ['serde/toml rejecting values of the wrong kind (trusted)', 'values equal the document (toml crate)']
    T = ctx.table('c08_schema.json')
    roots = T['roots'] + ['libcnb_data::buildpack::BuildpackDescriptor']
    closure = S.field_type_closure(prog, roots)
    n_strict = 0
    schemas = {}
    for t in closure:
        a = prog.adts[t]
        if not t.startswith('libcnb_data::'):
            continue
        d = S.deser_struct(prog, sl, t)
        where = '%s:%s' % (a['file'], a['line'])
        if d is None:
            continue
        for fp in d['fns']:
            rep.analysed(prog.fns[fp])
        schemas[t] = d
        if d['kind'] == 'enum':
            rep.check(d['strict'] is True, 'R1', 'enum/' + t, where, 'unknown variant rejected', 'enum %s accepts unknown variants' % t)
            continue
        if d['problems']:
            rep.unproven('R1', 'shape/' + t, where, 'generated Deserialize not recognised: %s' % d['problems'])
        rep.check(d['strict'] is True, 'R1', 'strict/' + t, where, 'unknown keys rejected (unknown_field fall-through)',
                  '%s silently ignores unknown keys: adding a key the format does not define no longer makes parsing fail' % t)
        n_strict += 1 if d['strict'] else 0
    rep.floor('R1', 'strict_structs', n_strict)
    # ---- R2 / R3 -------------------------------------------------------------------------------------
    for t, want in T['types'].items():
        d = schemas.get(t)
        a = prog.adts.get(t)
        where = '%s:%s' % (a['file'], a['line']) if a else '-'
        if d is None or d['kind'] != 'struct':
            rep.unproven('R2', 'type/' + t, where, 'no derived struct Deserialize found for a type of the spec table')
            continue
        got_keys = sorted(d['keys'])
        rep.check(got_keys == sorted(want), 'R2', 'keys/' + t, where, 'keys %s' % got_keys,
                  '%s accepts keys %s, the spec defines %s' % (t, got_keys, sorted(want)))
        for key, spec in want.items():
            k = d['keys'].get(key)
            if k is None:
                continue
            subj = '%s/%s' % (t, key)
            if spec == 'r':
                rep.check(k.required is True, 'R2', subj, where, 'required', 'key %s is required by the spec but optional here (default %s)' % (key, k.default))
            elif spec == 'o':
                rep.check(k.required is False and k.ty.startswith('std::option::Option<'), 'R2', subj, where, 'optional (None when absent)',
                          'key %s should be optional: required=%s type=%s' % (key, k.required, k.ty))
            elif spec.startswith('d:'):
                name = spec[2:]
                dflt = k.default
                if dflt and dflt.startswith('container:'):
                    # resolve the container default's field to the function that produces it
                    cf = prog.fns.get(k.container_default[0])
                    cv = strip(sl.local(cf, 0)) if cf else ('unknown',)
                    fv = strip(dict(cv[3]).get(k.container_default[1], ('unknown',))) if cv[0] == 'agg' else ('unknown',)
                    dflt = fv[1] if fv[0] == 'call' else ('<literal>' if fv[0] == 'agg' else None)
                    if name == 'empty' and fv[0] == 'call' and fv[1] in ('std::vec::Vec::<T>::new',):
                        dflt = 'std::default::Default::default'
                ok = k.required is False and dflt in T['defaults'][name] and default_value_ok(prog, sl, name, dflt)
                if not ok and k.required is False and (k.default or '').startswith('container:') and fv[0] == 'agg':
                    # the container's Default impl spells the field's value out
                    ok = {'linux': 'Linux', 'app': 'App'}.get(name) == fv[2]
                rep.check(ok, 'R2', subj, where, 'optional, default %s' % name,
                          'key %s must be optional with default %s: required=%s default=%s' % (key, name, k.required, k.default))
            elif spec == 'g':
                ok = re.match(r'^[A-Z][A-Z0-9]*$', k.ty) is not None or k.ty.startswith('std::option::Option<toml::')
                rep.check(ok, 'R2', subj, where, 'free-form metadata position (type parameter)', 'metadata position has fixed type %s' % k.ty)
            elif spec == 'u':
                rep.holds('R2', subj, where, 'spec leaves presence open (required=%s)' % k.required, nontrivial=False)
        for key, kind in T['key_kinds'].get(t, {}).items():
            k = d['keys'].get(key)
            if k is None or k.ty is None:
                continue
            got = kind_of(prog, k.ty, T['kinds'])
            rep.check(got == kind, 'R3', '%s/%s' % (t, key), where, '%s : %s' % (key, kind), 'key %s has Rust type %s (%s), spec kind is %s' % (key, k.ty, got, kind))
    for t in schemas:
        if schemas[t]['kind'] == 'struct' and t not in T['types']:
            a = prog.adts[t]
            rep.unproven('R2', 'untabled/' + t, '%s:%s' % (a['file'], a['line']), 'struct %s is reachable from a document root but has no row in the spec table' % t)
    # ---- R4 -------------------------------------------------------------------------------------------
    u = S.deser_untagged(prog, sl, 'libcnb_data::buildpack::BuildpackDescriptor')
    bd = prog.adt('libcnb_data::buildpack::BuildpackDescriptor')
    where = '%s:%s' % (bd['file'], bd['line'])
    if u is None:
        rep.unproven('R4', 'untagged', where, 'BuildpackDescriptor is not an untagged choice any more')
    else:
        names = [re.sub(r'<.*$', '', v).split('::')[-1] for v in u['variants']]
        rep.check(sorted(names) == ['ComponentBuildpackDescriptor', 'CompositeBuildpackDescriptor'], 'R4', 'variants', where,
                  'untagged choice of Component | Composite', 'BuildpackDescriptor tries %s' % names)
        comp = schemas.get('libcnb_data::buildpack::ComponentBuildpackDescriptor')
        cpst = schemas.get('libcnb_data::buildpack::CompositeBuildpackDescriptor')
        if comp and cpst:
            rep.check('order' not in comp['keys'] and comp['strict'], 'R4', 'component/no-order', where, 'component descriptor rejects `order`',
                      'a descriptor with `order` can parse as component')
            ok = 'order' in cpst['keys'] and cpst['keys']['order'].required is True and cpst['strict'] and not ({'targets', 'stacks'} & set(cpst['keys']))
            rep.check(ok, 'R4', 'composite/order-required', where, 'composite requires `order` and rejects targets/stacks',
                      'composite descriptor: order required=%s, keys=%s' % (cpst['keys'].get('order') and cpst['keys']['order'].required, sorted(cpst['keys'])))
    # ---- R5 -------------------------------------------------------------------------------------------
    leaves = {'libcnb_data::buildpack::id::BuildpackId': 'parse', 'libcnb_data::launch::ProcessType': 'parse',
              'libcnb_data::buildpack::version::BuildpackVersion': 'try_from', 'libcnb_data::buildpack::api::BuildpackApi': 'try_from'}
    for t, how in leaves.items():
        fs = S._find(prog, r"(Deserialize<'de> for %s>::deserialize$)|(^<%s as .*Deserialize<'de>>::deserialize$)" % (re.escape(t), re.escape(t)))
        a = prog.adts.get(t)
        where = '%s:%s' % (a['file'], a['line']) if a else '-'
        if len(fs) != 1:
            rep.unproven('R5', t, where, 'Deserialize impl not found')
            continue
        f = fs[0]
        rep.analysed(f)
        names = set()
        for g in [f] + prog.closures_of(f):
            for c in g.calls:
                if c.full:
                    names.add(c.full)
                for a2 in c.args:
                    k = a2.get('k') if isinstance(a2, dict) else None
                    if k and 'fn_full' in k:
                        names.add(k.get('res_full') or k['fn_full'])
        if how == 'parse':
            ok = any(('str>::parse::<%s>' % t) in n or n == '<%s as std::str::FromStr>::from_str' % t for n in names)
        else:
            ok = any(n.startswith('<%s as std::convert::TryFrom<std::string::String>>::try_from' % t) for n in names)
        unchecked = any('new_unchecked' in n for n in names)
        rep.check(ok and not unchecked, 'R5', t, where, 'deserializes through its validating %s' % how,
                  '%s does not deserialize through its validating conversion (%s)' % (t, how))
