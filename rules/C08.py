"""C08 — CNB documents are parsed strictly.

Decided structurally from the serde-*generated* Deserialize code (the code that runs):
  R1 strictness       every workspace struct reachable through field types from the document roots
                      rejects unknown keys (fall-through of visit_str is unknown_field, no __ignore)
  R2 required/optional the effective key table (key names, required vs. optional vs. default and the default's
                      value) equals the table transcribed from the CNB spec (rules/tables/c08_schema.json)
  R3 kinds            Rust field types agree with the spec's value kinds (string / bool / array / table) for every key;
                      arrays are Vecs (order, repetitions kept; sbom-formats is a set), tables with defined keys are
                      workspace structs (not free-form TOML tables)
  R4 classification   BuildpackDescriptor is an untagged choice of exactly {Component, Composite}; the
                      component key set has no `order`, the composite one requires `order` and has no
                      `targets` / `stacks`; both strict => order+targets/stacks is rejected by both
  R5 validated leaves id / type / version / api leaves deserialize through their validating conversion, applied to
                      exactly the document's string, a failing conversion fails the parse
  R6 value paths      every key's value is read by the field type's own Deserialize; custom deserializers only when they
                      are a string leaf (String then validating conversion); every reachable workspace type is accounted for
  R7 enum names       closed string enums (sbom formats, platform os): document string -> variant table = spec
  R8 reader           read_toml_file parses exactly the file's text as the requested type and propagates both failures
Not decided: that serde / toml reject wrong kinds as documented (trusted base).
"""
import re
from .lib import serde_schema as S
from . import C08_helpers as H
from .lib.paths import strip
from .lib.value import vstr, walk


PRIMITIVES = ('bool', 'char', 'str', 'u8', 'u16', 'u32', 'u64', 'u128', 'usize', 'i8', 'i16', 'i32', 'i64', 'i128', 'isize', 'f32', 'f64')


def peel(ty):
    m = re.match(r'^std::option::Option<(.*)>$', ty)
    return m.group(1) if m else ty


def kind_of(prog, ty, kinds, N=None):
    t = peel(ty)
    if N is not None:
        t = N.base(t)
    if t in kinds['string']:
        return 'string'
    if t in kinds['bool']:
        return 'bool'
    m = re.match(r'^std::(?:vec::Vec|collections::HashSet|collections::BTreeSet)<(.*)>$', t)
    if m:
        inner = m.group(1)
        ik = kind_of(prog, inner, kinds, N)
        return 'array<%s>' % ik
    tc = N.cur(t) if N is not None else t
    if t.startswith('toml::map::Map<') or tc in prog.adts and prog.adts[tc]['kind'] == 'struct':
        return 'table'
    return 'other:' + t


def result_value(prog, sl, callee):
    """normal form of what workspace function `callee` returns (private / derived helpers transparent), or None"""
    f = prog.fns.get(callee)
    if f is None:
        return None
    return strip(sl.inline_deep(sl.local(f, 0)))


def value_is_default(name, v):
    """is symbolic value v (normal form) the spec default `name`?  True / False / None (not decided on the value)"""
    v = strip(v) if v is not None else ('unknown',)
    if name == 'app':
        if v[0] == 'agg' and (v[1] or '').endswith('WorkingDirectory'):
            return v[2] == 'App'
        return None
    if name == 'linux':
        if v[0] == 'agg' and (v[1] or '').endswith('PlatformOs'):
            return v[2] == 'Linux'
        if v[0] == 'agg' and (v[1] or '').endswith('Platform'):
            return value_is_default('linux', dict(v[3]).get('os', ('unknown',)))
        return None
    if name == 'false':
        return (v[1] is False) if v[0] == 'const' else None
    if name == 'empty':
        if v[0] == 'call' and not v[2] and re.match(r'^std::(vec::Vec|collections::(HashSet|BTreeSet|HashMap|BTreeMap)|collections::\w+::\w+|string::String)::<.*>::new$|^std::string::String::new$', v[1]):
            return True
        if v[0] == 'call' and not v[2] and re.match(r'^<std::(vec::Vec|collections::\w+(::\w+)*|string::String)(<.*>)? as std::default::Default>::default$', v[1]):
            return True
        return None
    return None


def default_value_ok(prog, sl, name, callee, N=None):
    """semantic check of named defaults: the value the default function yields, read on its normal form (a hand-written
    `impl Default`, `#[derive(Default)]` + `#[default]`, or a helper that builds the value all give the same term)"""
    if name in ('app', 'linux'):
        if name == 'app':
            callee = '<%s as std::default::Default>::default' % (N.cur('libcnb_data::launch::WorkingDirectory') if N else 'libcnb_data::launch::WorkingDirectory')
        return value_is_default(name, result_value(prog, sl, callee)) is True
    return True


def absent_is_none(prog, sl, k):
    """an optional key without spec default: the value for an absent key is None"""
    if k.default in ('None', None):
        return k.default == 'None'
    if k.default == 'std::default::Default::default' or re.match(r'^<std::option::Option<.*> as std::default::Default>::default$', k.default):
        return True   # Option's Default (the field type is checked to be Option<_>)
    v = result_value(prog, sl, k.default)   # a workspace default function: what it returns (normal form)
    return v is not None and v[0] == 'agg' and v[1] == 'std::option::Option' and v[2] == 'None'


def run(ctx, rep):
    prog, sl = ctx.prog, ctx.slicer
    rep.rule('R1', 'every struct reachable from the document roots is strict (unknown key => error)')
    rep.rule('R2', 'effective key table (required / optional / default) = spec table')
    rep.rule('R3', 'Rust field types = spec value kinds')
    rep.rule('R4', 'component/composite classification by disjoint strict key sets')
    rep.rule('R5', 'validated leaves deserialize through their validating conversion')
    rep.rule('R6', 'values are read by the field type\'s own Deserialize / a recognised string leaf; every reachable type is accounted for')
    rep.rule('R7', 'closed string enums: document string -> variant = spec')
    rep.rule('R8', 'read_toml_file parses exactly the file\'s text and propagates failures')
    rep.not_decided = ['serde/toml rejecting values of the wrong kind (trusted)', 'values equal the document (toml crate)',
                       'the default of the metadata type parameter (GenericMetadata = Option<toml Table>): alias / parameter defaults are not in the facts',
                       'which kinds / values a custom deserializer other than a string leaf accepts (reported UNPROVEN)']
    T = ctx.table('c08_schema.json')
    # the tables name types by their paths on the pinned tree: N.cur(table name) = today's path of that type,
    # N.base(type text of the facts) = the same text under the tables' names.  Subjects always carry the table names.
    N = H.Names(prog)
    roots = [N.cur(r) for r in T['roots'] + ['libcnb_data::buildpack::BuildpackDescriptor']]
    closure = S.field_type_closure(prog, roots)
    n_strict = 0
    schemas = {}
    unaccounted = []
    for tc in closure:
        a = prog.adts[tc]
        t = N.base(tc)
        if not t.startswith('libcnb_data::'):
            continue
        d = S.deser_struct(prog, sl, tc)
        where = '%s:%s' % (a['file'], a['line'])
        if d is None:
            unaccounted.append((t, where))
            continue
        for fp in d['fns']:
            rep.analysed(prog.fns[fp])
        schemas[t] = d
        if d['kind'] == 'enum':
            rep.check(d['strict'] is True, 'R1', 'enum/' + t, where, 'unknown variant rejected', 'enum %s accepts unknown variants' % t)
            continue
        if d['problems']:
            rep.unproven('R1', 'shape/' + t, where, 'generated Deserialize not recognised: %s' % d['problems'])
        rep.check(d['strict'] is True, 'R1', 'strict/' + t, where, 'unknown keys rejected (unknown_field fall-through)',
                  '%s silently ignores unknown keys: adding a key the format does not define no longer makes parsing fail' % t)
        n_strict += 1 if d['strict'] else 0
    rep.floor('R1', 'strict_structs', n_strict)
    # ---- R2 / R3 -------------------------------------------------------------------------------------
    for t, want in T['types'].items():
        d = schemas.get(t)
        a = prog.adts.get(N.cur(t))
        where = '%s:%s' % (a['file'], a['line']) if a else '-'
        if d is None or d['kind'] != 'struct':
            rep.unproven('R2', 'type/' + t, where, 'no derived struct Deserialize found for a type of the spec table')
            continue
        got_keys = sorted(d['keys'])
        rep.check(got_keys == sorted(want), 'R2', 'keys/' + t, where, 'keys %s' % got_keys,
                  '%s accepts keys %s, the spec defines %s' % (t, got_keys, sorted(want)))
        for key, spec in want.items():
            k = d['keys'].get(key)
            if k is None:
                continue
            subj = '%s/%s' % (t, key)
            if spec == 'r':
                rep.check(k.required is True, 'R2', subj, where, 'required', 'key %s is required by the spec but optional here (default %s)' % (key, k.default))
            elif spec == 'o':
                rep.check(k.required is False and k.ty.startswith('std::option::Option<') and absent_is_none(prog, sl, k), 'R2', subj, where,
                          'optional (None when absent)', 'key %s should be optional and absent = None: required=%s type=%s default=%s' % (key, k.required, k.ty, k.default))
            elif spec.startswith('d:'):
                name = spec[2:]
                dflt = k.default
                if dflt and dflt.startswith('container:'):
                    # resolve the container default's field to the function that produces it
                    cf = prog.fns.get(k.container_default[0])
                    cv = strip(sl.local(cf, 0)) if cf else ('unknown',)
                    fv = strip(dict(cv[3]).get(k.container_default[1], ('unknown',))) if cv[0] == 'agg' else ('unknown',)
                    dflt = fv[1] if fv[0] == 'call' else ('<literal>' if fv[0] == 'agg' else None)
                    if name == 'empty' and fv[0] == 'call' and fv[1] in ('std::vec::Vec::<T>::new',):
                        dflt = 'std::default::Default::default'
                fv = None if not (k.default or '').startswith('container:') else fv
                dflt_b = N.base(dflt) if dflt else dflt
                ok = k.required is False and dflt_b in T['defaults'][name] and default_value_ok(prog, sl, name, dflt, N)
                if not ok and k.required is False and fv is not None:
                    # the container's Default impl spells the field's value out (or builds it through helpers)
                    ok = value_is_default(name, sl.inline_deep(fv)) is True
                if not ok and k.required is False and fv is None and dflt in prog.fns and prog.fns[dflt].crate == t.split('::')[0]:
                    # a default function of the workspace that is not the type's Default impl: decided on the value it returns
                    ok = value_is_default(name, result_value(prog, sl, dflt)) is True
                if not ok and k.required is False and fv is None and dflt and dflt not in prog.fns and dflt.startswith(('std::', '<std::')):
                    # a std constructor named as the default (`default = "Vec::new"`): decided on what it builds
                    ok = value_is_default(name, ('call', dflt, (), None)) is True
                rep.check(ok, 'R2', subj, where, 'optional, default %s' % name,
                          'key %s must be optional with default %s: required=%s default=%s' % (key, name, k.required, k.default))
            elif spec == 'g':
                # a type parameter of the struct (a bare identifier that is no primitive type; its name is free)
                ok = (re.match(r'^[A-Za-z_]\w*$', k.ty) is not None and k.ty not in PRIMITIVES) or k.ty.startswith('std::option::Option<toml::map::Map<')
                rep.check(ok, 'R2', subj, where, 'free-form metadata position (type parameter)', 'metadata position has fixed type %s' % k.ty)
            elif spec == 'u':
                rep.holds('R2', subj, where, 'spec leaves presence open (required=%s)' % k.required, nontrivial=False)
        kinds_of_t = dict(H.EXTRA_KINDS.get(t, {}))
        kinds_of_t.update(T['key_kinds'].get(t, {}))
        for key, kind in kinds_of_t.items():
            k = d['keys'].get(key)
            if k is None or k.ty is None:
                continue
            got = kind_of(prog, k.ty, T['kinds'], N)
            rep.check(got == kind, 'R3', '%s/%s' % (t, key), where, '%s : %s' % (key, kind), 'key %s has Rust type %s (%s), spec kind is %s' % (key, k.ty, got, kind))
            if kind.startswith('array<') and (t, key) not in H.UNORDERED:
                # the spec's arrays are ordered and may repeat values: only a Vec yields exactly the document's values
                rep.check(peel(k.ty).startswith('std::vec::Vec<'), 'R3', 'ordered/%s/%s' % (t, key), where, '%s keeps order and duplicates' % key,
                          'key %s is collected into %s: order / repeated values of the document are lost' % (key, k.ty))
            if kind in ('table', 'array<table>') and want.get(key) not in ('g', 'u') and key != 'metadata':
                # a table whose keys the spec defines must be a workspace struct (made strict by R1), not a free-form TOML table
                rep.check('toml::' not in k.ty, 'R3', 'defined/%s/%s' % (t, key), where, '%s is a table with defined keys' % key,
                          'key %s is typed %s: a free-form table accepts keys the format does not define' % (key, k.ty))
    for t in schemas:
        if schemas[t]['kind'] == 'struct' and t not in T['types']:
            a = prog.adts[N.cur(t)]
            rep.unproven('R2', 'untabled/' + t, '%s:%s' % (a['file'], a['line']), 'struct %s is reachable from a document root but has no row in the spec table' % t)
    # ---- R4 -------------------------------------------------------------------------------------------
    u = S.deser_untagged(prog, sl, N.cur('libcnb_data::buildpack::BuildpackDescriptor'))
    bd = prog.adt(N.cur('libcnb_data::buildpack::BuildpackDescriptor'))
    where = '%s:%s' % (bd['file'], bd['line'])
    if u is None:
        rep.unproven('R4', 'untagged', where, 'BuildpackDescriptor is not an untagged choice any more')
    else:
        names = [re.sub(r'<.*$', '', v).split('::')[-1] for v in u['variants']]
        rep.check(sorted(names) == ['ComponentBuildpackDescriptor', 'CompositeBuildpackDescriptor'], 'R4', 'variants', where,
                  'untagged choice of Component | Composite', 'BuildpackDescriptor tries %s' % names)
        pairs = {v['name']: [re.sub(r'<.*$', '', f['ty']).split('::')[-1] for f in v['fields']] for v in bd['variants']}
        rep.check(pairs == {'Component': ['ComponentBuildpackDescriptor'], 'Composite': ['CompositeBuildpackDescriptor']}, 'R4', 'pairing', where,
                  'variant Component carries the component descriptor, Composite the composite one', 'variant payloads are %s' % pairs)
        comp = schemas.get('libcnb_data::buildpack::ComponentBuildpackDescriptor')
        cpst = schemas.get('libcnb_data::buildpack::CompositeBuildpackDescriptor')
        if comp and cpst:
            rep.check('order' not in comp['keys'] and comp['strict'], 'R4', 'component/no-order', where, 'component descriptor rejects `order`',
                      'a descriptor with `order` can parse as component')
            ok = 'order' in cpst['keys'] and cpst['keys']['order'].required is True and cpst['strict'] and not ({'targets', 'stacks'} & set(cpst['keys']))
            rep.check(ok, 'R4', 'composite/order-required', where, 'composite requires `order` and rejects targets/stacks',
                      'composite descriptor: order required=%s, keys=%s' % (cpst['keys'].get('order') and cpst['keys']['order'].required, sorted(cpst['keys'])))
    # ---- R5 -------------------------------------------------------------------------------------------
    leaves = {'libcnb_data::buildpack::id::BuildpackId': 'parse', 'libcnb_data::launch::ProcessType': 'parse',
              'libcnb_data::buildpack::version::BuildpackVersion': 'try_from', 'libcnb_data::buildpack::api::BuildpackApi': 'try_from'}
    for t, how in leaves.items():
        tc = N.cur(t)
        fs = S._find(prog, r"(Deserialize<'de> for %s>::deserialize$)|(^<%s as .*Deserialize<'de>>::deserialize$)" % (re.escape(tc), re.escape(tc)))
        a = prog.adts.get(tc)
        where = '%s:%s' % (a['file'], a['line']) if a else '-'
        if len(fs) != 1:
            rep.unproven('R5', t, where, 'Deserialize impl not found')
            continue
        f = fs[0]
        rep.analysed(f)
        names = set()
        for g in [f] + prog.closures_of(f):
            for c in g.calls:
                if c.full:
                    names.add(c.full)
                for a2 in c.args:
                    k = a2.get('k') if isinstance(a2, dict) else None
                    if k and 'fn_full' in k:
                        names.add(k.get('res_full') or k['fn_full'])
        if how == 'parse':
            ok = any(('str>::parse::<%s>' % tc) in n or n == '<%s as std::str::FromStr>::from_str' % tc for n in names)
        else:
            ok = any(n.startswith('<%s as std::convert::TryFrom<std::string::String>>::try_from' % tc) for n in names)
        if not ok:
            # the same obligation on the normal form of what deserialize returns (helpers transparent, `?` / match / and_then
            # alike): the validating conversion applied to the document's string is the type's own one -- `parse` =
            # FromStr::from_str, `try_into` = TryFrom::try_from, or a workspace conversion that is only that one applied
            # to its argument
            out = {}
            verdict, _text = H.string_leaf(prog, sl, f, out)
            if how == 'parse':
                primary = lambda n: n == '<%s as std::str::FromStr>::from_str' % tc
            else:
                primary = lambda n: n.startswith('<%s as std::convert::TryFrom<std::string::String>>::try_from' % tc)
            ok = verdict is True and H.conversion_is(prog, sl, out.get('conv'), primary)
        unchecked = any('new_unchecked' in n for n in names)
        rep.check(ok and not unchecked, 'R5', t, where, 'deserializes through its validating %s' % how,
                  '%s does not deserialize through its validating conversion (%s)' % (t, how))

    # ---- R6: value paths, leaf accounting ------------------------------------------------------------------
    spec_kind = {}
    for t in T['types']:
        spec_kind[t] = dict(H.EXTRA_KINDS.get(t, {}))
        spec_kind[t].update(T['key_kinds'].get(t, {}))
    n_direct = 0
    for t, d in schemas.items():
        if d['kind'] != 'struct':
            continue
        a = prog.adts[N.cur(t)]
        where = '%s:%s' % (a['file'], a['line'])
        vp = H.value_paths(prog, sl, N.cur(t), d)
        if vp is None:
            rep.unproven('R6', 'value/' + t, where, 'visit_map of %s not recognised' % t)
            continue
        n_with = sum(1 for reads in vp.values() for r in reads if r[0] == 'with')
        for key, k in d['keys'].items():
            subj = 'value/%s/%s' % (t, key)
            reads = vp.get(key) or []
            if not reads:
                rep.unproven('R6', subj, where, 'no place found where the value of key %s is read' % key)
                continue
            for how, x, _ in reads:
                if how == 'direct':
                    ok = H.norm_ty(x) == H.norm_ty(k.ty)
                    n_direct += 1 if ok else 0
                    rep.check(ok, 'R6', subj, where, 'read as %s' % x, 'key %s is read as %s, the field is %s' % (key, x, k.ty))
                elif how == 'with':
                    W = x
                    if W is None or n_with > 1:
                        rep.unproven('R6', subj, where, 'key %s is read through a custom deserializer that could not be resolved (%s)' % (key, _))
                        continue
                    rep.analysed(W)
                    verdict, text = H.string_leaf(prog, sl, W)
                    kind = spec_kind.get(t, {}).get(key)
                    ret_ok = H.norm_ty(W.ret or '').startswith('std::result::Result<%s,' % H.norm_ty(k.ty))
                    if verdict is True and kind == 'string' and ret_ok:
                        rep.holds('R6', subj, where, 'custom deserializer %s = %s' % (W.path.split('::')[-1], text))
                    elif verdict is False:
                        rep.violated('R6', subj, where, 'key %s (custom deserializer %s): %s' % (key, W.path, text))
                    else:
                        rep.unproven('R6', subj, where, 'key %s is read through the custom deserializer %s; which kinds / values it accepts is not decided (%s; spec kind %s)'
                                     % (key, W.path, text, kind))
                else:
                    rep.unproven('R6', subj, where, 'key %s: %s' % (key, x))
    rep.check(n_direct >= 40, 'R6', 'coverage', '-', '%d keys read by their field type\'s Deserialize' % n_direct, 'only %d value paths recognised' % n_direct)
    r5_leaves = ('libcnb_data::buildpack::id::BuildpackId', 'libcnb_data::launch::ProcessType',
                 'libcnb_data::buildpack::version::BuildpackVersion', 'libcnb_data::buildpack::api::BuildpackApi')
    for t, where in unaccounted:
        if t in r5_leaves:
            continue   # R5
        if t in H.ENUM_SPEC:
            continue   # R7 reports it
        if t == 'libcnb_data::buildpack::BuildpackDescriptor':
            continue   # R4 decides the untagged choice of the two descriptor kinds
        subj = 'leaf/' + t
        u2 = S.deser_untagged(prog, sl, N.cur(t))
        a = prog.adts[N.cur(t)]
        if u2 is not None and a['kind'] == 'enum':
            payload = [f['ty'] for v in a['variants'] for f in v['fields']]
            ok = all(N.base(p) in H.STRING_LIKE or N.base(p) in T['kinds']['string'] for p in payload) and sorted(u2['variants']) == sorted(payload)
            rep.check(ok, 'R6', subj, where, 'untagged choice of unit | %s' % payload, 'untagged %s tries %s (payloads %s): not a string-like leaf' % (t, u2['variants'], payload))
            continue
        g = H.deserialize_fn(prog, N.cur(t))
        if g is None:
            rep.unproven('R6', subj, where, '%s is reachable from a document root; its Deserialize impl was not found' % t)
            continue
        rep.analysed(g)
        verdict, text = H.string_leaf(prog, sl, g)
        if verdict is True:
            rep.holds('R6', subj, where, 'string leaf: %s' % text)
        elif verdict is False:
            rep.violated('R6', subj, where, '%s: %s' % (t, text))
        else:
            rep.unproven('R6', subj, where, '%s is reachable from a document root and deserializes through %s, which is neither a derived strict struct / enum nor a validated string leaf (%s)'
                         % (t, g.path, text))
    # R5 (continued): the validating conversion sees exactly the document's string and its failure fails the parse
    for t in r5_leaves:
        g = H.deserialize_fn(prog, N.cur(t))
        a = prog.adts.get(N.cur(t))
        where = '%s:%s' % (a['file'], a['line']) if a else '-'
        if g is None:
            continue   # reported above
        verdict, text = H.string_leaf(prog, sl, g)
        if verdict is True:
            rep.holds('R5', 'exact/' + t, where, text)
        elif verdict is False:
            rep.violated('R5', 'exact/' + t, where, '%s: %s' % (t, text))
        else:
            rep.unproven('R5', 'exact/' + t, where, 'Deserialize of %s is not `validate(String::deserialize(d)?)?` (%s)' % (t, text))
    # ---- R7: closed string enums ---------------------------------------------------------------------------
    for t, want in H.ENUM_SPEC.items():
        a = prog.adts.get(N.cur(t))
        where = '%s:%s' % (a['file'], a['line']) if a else '-'
        d = schemas.get(t)
        if N.cur(t) not in closure:
            rep.unproven('R7', 'names/' + t, where, '%s is not reachable from a document root any more' % t)
            continue
        if d is None or d['kind'] != 'enum' or d['strict'] is not True:
            rep.violated('R7', 'names/' + t, where, '%s is not a derived strict unit enum any more: values other than %s may be accepted' % (t, sorted(want)))
            continue
        table, info = H.enum_table(prog, sl, N.cur(t), d)
        if table is None:
            rep.unproven('R7', 'names/' + t, where, 'name table of %s not recognised: %s' % (t, info))
            continue
        rep.analysed(info)
        rep.check(table == want, 'R7', 'names/' + t, where, 'accepts exactly %s' % sorted(want),
                  '%s maps %s, the spec says %s' % (t, sorted(table.items()), sorted(want.items())))
    for t, d in schemas.items():
        if d['kind'] == 'enum' and t not in H.ENUM_SPEC:
            a = prog.adts[N.cur(t)]
            rep.unproven('R7', 'untabled/' + t, '%s:%s' % (a['file'], a['line']), 'enum %s is reachable from a document root but has no name table' % t)
    # ---- R8: the reader ------------------------------------------------------------------------------------
    rf = prog.fns.get('libcnb_common::toml_file::read_toml_file') or prog._relocated('libcnb_common::toml_file::read_toml_file')
    if rf is None:
        rep.unproven('R8', 'read/read_toml_file', '-', 'libcnb_common::toml_file::read_toml_file not found')
    else:
        rep.analysed(rf)
        verdict, text = H.reader_ok(prog, sl, rf)
        where = '%s:%s' % (rf.file, rf.line)
        if verdict is True:
            rep.holds('R8', 'read/read_toml_file', where, text)
        elif verdict is False:
            rep.violated('R8', 'read/read_toml_file', where, 'read_toml_file %s' % text)
        else:
            rep.unproven('R8', 'read/read_toml_file', where, 'read_toml_file is not `toml::from_str::<A>(&fs::read_to_string(path)?)?` (%s)' % text)
