"""C05 helpers — spelling-independent views of libcnb_runtime's decisions.

  norm()            value normal form: private helpers inlined (inline_deep) and `r.unwrap_or_else(<diverging handler>)`
                    read as the success payload of r (it only yields a value when r was Ok / Some)
  eq_views()        an equality decision `a == b` / `!(a != b)` in either operand order, also through boolean helpers
  code_rows()       arm table of an exit-code value: `match r {Ok(c) => c, Err(e) => {..; 1}}`,
                    `r.unwrap_or_else(|e| {..; 1})`, `r.map_or_else(|e| {..; 1}, |c| c)` and `r.unwrap_or(1)` give the same rows
  SynthCond         the decision a Result combinator takes on behalf of the code (closure runs exactly on Err)
  LenFacts          interval facts on the length of a slice parameter implied by decisions / by a (const-generic) helper
                    returning Some / Ok (R3 arity: `[_, a, b]`, `len() == 3`, split_first + try_into::<&[_; N]> are one fact)
  nested_must()     FORALL effects of loop nests, outer loops over literal tables unrolled (R4 SBOM table)
  written_data()    bytes written to a created file, also via `File::create(p).and_then(|f| f.write_all(d))`
  self_updates()    what a builder setter `fn f(mut self, x) -> Self` changes in self (field := v / push(v) / other), R8
  elem_pos()        which element of a slice parameter a value is (slice patterns, indexing, get, split_first + array), R3
  is_argv() / name_spine()   the complete argv / the steps between argv and the compared executable name, R2 / R3
  chain_always()    a write moved into helpers is unconditional and checked at every level of the call chain, R4
  raised_errors()   unwrap / expect / panics / diverging handlers inside a phase (errors must be returned), R4
  sbom_path_shape() <dir>/<name + per-format text>, total and injective in the format, R4
  elsewhere()       fixed absolute locations independent of the phase arguments (telemetry of the trace feature)
  ok_requires()     calls whose success is necessary for a value being Ok / Some (and_then closures, `?` + Ok literal, helpers), R1
  norm_pruned()     norm() + variant constructors as literals + alternatives refuted by a downcast dropped, R3
  implied_by_variant() / SubstCond   decisions a private function took before returning the variant a caller matches on, R2
  err_flows()       a failure of a call reaches a given value through Err-propagating adapters / helper returns only, R3
  decided_by() / replace_norm()   a helper's return table over the variants of the phase result, read row by row, R4 detect
  zip_rows() / unroll_zip()       FORALL effects over `slots.zip(LITERAL TABLE)` as one effect per row, R7
  ok_needed()       success of a helper implies a call's Result was Ok: `?` / unwrap / return, or a match / if-let whose
                    success sites all lie on the Ok side (local stand-in for lib/discard.ok_on_success, see there), R4
  PathPushes        which ('concat', ..) values are PathBuf::push chains (= Path::join) and which are text appends, R1 / R4
  can_return()      reachable returns of a function, not counting what lies behind calls that never come back, R4
"""
from .lib.discard import diverges
from .lib.paths import strip
from .lib.value import walk

RESULT = 'std::result::Result'


def alts(v):
    return list(v[1]) if v[0] == 'phi' else [v]


class SynthCond:
    """decision implied by a combinator on `subject` (a Result): looks like a guards.Cond of kind 'variant'"""
    kind = 'variant'
    synthetic = True

    def __init__(self, fn, subject, outcome, enum=RESULT):
        self.fn = fn
        self.subject = subject
        self.value = ('discr', subject)
        self.outcome = frozenset({outcome})
        self.enum = enum
        self.sw_bb = None
        self.target = None

    def views(self):
        return [(self.value, self.outcome)]

    def __repr__(self):
        return 'SynthCond(%s is %s)' % (self.subject[0], sorted(self.outcome))


def handler_fn(prog, clv):
    clv = strip(clv)
    if clv[0] in ('closure', 'fnitem') and clv[1] in prog.fns:
        return prog.fns[clv[1]]
    return None


def diverging_handler(prog, clv):
    g = handler_fn(prog, clv)
    return g is not None and diverges(g)


def _is_uoe(v):
    return v[0] == 'call' and isinstance(v[1], str) and v[1].endswith('::unwrap_or_else') and \
        v[1].startswith(('std::result::Result::', 'std::option::Option::')) and len(v[2]) == 2


def _peel(prog, sl, v):
    if not isinstance(v, tuple) or not v:
        return v
    if v[0] in ('const', 'param', 'fnitem', 'constitem', 'unknown', 'closure_env', 'upvar'):
        return v
    out = tuple(_peel(prog, sl, x) if isinstance(x, tuple) else x for x in v)
    if _is_uoe(out) and diverging_handler(prog, out[2][1]):
        return sl.mk_unwrap(out[2][0], 1)
    if out == v:
        return v
    if out[0] == 'unwrap':
        return sl.mk_unwrap(out[1], 1)
    if out[0] == 'field':
        return sl._field(out[1], out[2])
    return out


def norm(prog, sl, v, keep=()):
    """normal form of v: calls to private workspace functions (not in keep) replaced by what they return, and
    `x.unwrap_or_else(h)` with a handler h that never returns replaced by the success payload of x"""
    return _peel(prog, sl, sl.inline_deep(v, keep=keep))


def diverging_unwraps(prog, sl, v, keep=()):
    """[(x, handler Fn)] for every `x.unwrap_or_else(handler that never returns)` inside v (helpers inlined)"""
    out = []
    for x in walk(sl.inline_deep(v, keep=keep)):
        if _is_uoe(x) and diverging_handler(prog, x[2][1]):
            out.append((x[2][0], handler_fn(prog, x[2][1])))
    return out


def ok_requires(sl, v, depth=0):
    """calls whose success is necessary for `v is Ok / Some`: v itself, the receivers of adapters that can only succeed
    when their receiver did (map / map_err / and_then / `?` ..), what the closure of `x.and_then(f)` returns for the
    payload of x, the one non-failure alternative of an early-return phi, and the same inside private helpers"""
    out = []
    while v[0] in ('updated', 'unwrap'):
        v = v[1]
    if depth > 8:
        return out
    if v[0] == 'phi':
        from .lib.value import _err_like
        good = [x for x in v[1] if not _err_like(x)]
        if len(good) == 1:
            out.extend(ok_requires(sl, good[0], depth + 1))
        return out
    if v[0] == 'agg' and v[2] in ('Ok', 'Some') and v[1] in ('std::result::Result', 'std::option::Option'):
        # `let d = read()?; Ok(d)`: a literal success whose payload mentions the payload of x was only built when x
        # succeeded (`?` returned / unwrap panicked otherwise); alternatives of a phi / select need not all have run
        def payloads(x):
            if not isinstance(x, tuple) or not x or x[0] in ('phi', 'select', 'closure') or x[0] in _LEAVES:
                return
            if x[0] == 'unwrap':
                yield x[1]
            for y in x:
                if isinstance(y, tuple):
                    yield from payloads(y)
        for x in payloads(v):
            out.extend(ok_requires(sl, x, depth + 1))
        return out
    if v[0] != 'call' or not isinstance(v[1], str):
        return out
    out.append(v)
    if _adapter(v):
        out.extend(ok_requires(sl, v[2][0], depth + 1))
        if v[1].endswith('::and_then') and len(v[2]) == 2 and v[2][1][0] in ('closure', 'fnitem'):
            r = sl.apply_closure(v[2][1], (sl.mk_unwrap(v[2][0], 1),))
            if r is not None:
                out.extend(ok_requires(sl, r, depth + 1))
        return out
    iv = sl.inline_call(v)
    if iv is not None and iv != v:
        out.extend(ok_requires(sl, iv, depth + 1))
    return out


def _ctor(prog, v):
    """('call', '<enum>::<Variant>', args, ..) of a tuple-variant constructor used as a function (`.map(Self::Detect)`)
    read as the literal it builds"""
    if v[0] != 'call' or not isinstance(v[1], str) or v[1] in prog.fns or '::' not in v[1]:
        return v
    adt, var = v[1].rsplit('::', 1)
    a = prog.adts.get(adt)
    for vv in (a['variants'] if a else []):
        if vv['name'] == var and len(vv['fields']) == len(v[2]):
            return ('agg', adt, var, tuple((f['name'], x) for f, x in zip(vv['fields'], v[2])))
    return v


def norm_pruned(prog, sl, v, keep=()):
    """norm(v) with variant constructors read as literals and, under a downcast `(x as V)`, the alternatives of x that are
    literals of another variant dropped: `(phi(A(p), B(q)) as A).0` is p"""
    from .lib.value import _phi

    def go(v):
        if not isinstance(v, tuple) or not v or v[0] in _LEAVES:
            return v
        out = tuple(go(x) if isinstance(x, tuple) else x for x in v)
        out = _ctor(prog, out)
        if out[0] == 'variant':
            b = out[1]
            while b[0] == 'updated':
                b = b[1]
            if b[0] == 'phi':
                al = [x for x in b[1] if not (x[0] == 'agg' and x[2] is not None and x[2] != out[2])]
                if al:
                    b = _phi(al)
            return sl._variant(b, out[2])
        if out == v:
            return v
        if out[0] == 'unwrap':
            return sl.mk_unwrap(out[1], 1)
        if out[0] == 'field':
            return sl._field(out[1], out[2])
        return out
    return go(norm(prog, sl, v, keep=keep))


# adapters through which an Err / None of the receiver becomes an Err / None of the result
ERR_PROPAGATING = ('map', 'map_err', 'and_then', 'inspect', 'inspect_err', 'ok_or', 'ok_or_else')


def err_flows(sl, v, target, depth=0):
    """a failure of the call `target` is a failure of v: v is that call, an Err-propagating adapter chain on it, a private
    helper returning such a value, or a phi with such an alternative"""
    from .lib.value import canon
    while v[0] == 'updated':
        v = v[1]
    if depth > 8:
        return False
    if v[0] == 'phi':
        return any(err_flows(sl, x, target, depth + 1) for x in v[1])
    if v[0] != 'call' or not isinstance(v[1], str):
        return False
    if v[1] == target[1] and canon(v) == canon(target):
        return True
    if _meth(v, ('std::option::Option::', 'std::result::Result::'), ERR_PROPAGATING) and v[2]:
        return err_flows(sl, v[2][0], target, depth + 1)
    iv = sl.inline_call(v)
    return iv is not None and iv != v and err_flows(sl, iv, target, depth + 1)


class SubstCond:
    """a decision taken inside a private helper, in the terms of the helper's caller"""

    def __init__(self, cd, mapping, sl):
        from .lib.value import subst
        self._cd, self._m, self._sl = cd, mapping, sl
        self.kind, self.outcome, self.enum = cd.kind, cd.outcome, cd.enum
        self.fn, self.sw_bb, self.target = cd.fn, cd.sw_bb, cd.target
        self.value = subst(cd.value, mapping, sl)
        self.subject = subst(cd.subject, mapping, sl) if cd.subject is not None else None
        self.synthetic = True

    def views(self):
        from .lib.value import subst
        return [(subst(v, self._m, self._sl), oc) for v, oc in self._cd.views()]

    def __repr__(self):
        return 'SubstCond(%r)' % (self._cd,)


def implied_by_variant(prog, sl, cd):
    """decisions implied by `cd`: "<value> is of variant V" where the value is (the success payload of) what a private
    function returned — the decisions common to all the ways that function returns a value that can be of variant V, in
    the caller's terms.  `match Invocation::from_args(argv)? { Detect(a) => .. }` holds the `name == "detect"` that
    from_args tested before it built a Detect."""
    from .lib.tables import arm_defs
    from .lib.value import subst, canon, _err_like
    if cd.kind != 'variant' or cd.subject is None or not cd.outcome or not cd.enum:
        return []
    v, n = cd.subject, 0
    for _ in range(8):
        if v[0] == 'updated':
            v = v[1]
        elif v[0] == 'unwrap':
            v, n = v[1], n + 1
        elif _is_uoe(v) and diverging_handler(prog, v[2][1]):
            v, n = v[2][0], n + 1
        elif v[0] == 'call' and isinstance(v[1], str) and v[1] in ('std::ops::Try::branch',) and v[2]:
            v = v[2][0]
        else:
            break
    g = prog.fns.get(v[1]) if v[0] == 'call' and isinstance(v[1], str) else None
    if g is None or g.kind == 'Closure' or g.partial_defs(0):
        return []
    m = {(g.path, i): a for i, a in enumerate(v[2]) if i < g.argc}
    live = g.reachable(0)
    common = None
    keep = {}
    for bb, rv, conds in arm_defs(g, 0, sl):
        if bb not in live:
            continue
        p = rv
        for _ in range(n):
            p = sl.mk_unwrap(p, 1)
        p = norm_pruned(prog, sl, p)
        while p[0] == 'updated':
            p = p[1]
        if p[0] == 'agg' and p[1] == cd.enum and p[2] is not None and p[2] not in cd.outcome:
            continue        # this way of returning yields another variant
        if p[0] == 'unwrap' and _err_like(p[1]) or (n == 0 and _err_like(p)):
            continue        # this way of returning is a failure: no payload
        cur = {}
        for c in conds:
            k = (c.kind, canon(c.subject if c.subject is not None else c.value), c.outcome if not isinstance(c.outcome, frozenset) else tuple(sorted(c.outcome)))
            cur[k] = c
        common = set(cur) if common is None else (common & set(cur))
        keep.update(cur)
    return [SubstCond(keep[k], m, sl) for k in (common or ())]


def eq_views(cd):
    """[(a, b)] for every reading of decision cd as `a == b` holding (`==` taken / `!=` not taken; PartialEq impls of
    the compared type by their resolved or declared name; boolean helpers looked through by Cond.views)"""
    out = []
    if cd.kind != 'bool':
        return out
    for v, oc in cd.views():
        if v[0] != 'call' or 'PartialEq' not in v[1] or len(v[2]) != 2:
            continue
        if (v[1].endswith('::eq') and oc is True) or (v[1].endswith('::ne') and oc is False):
            out.append((v[2][0], v[2][1]))
    return out


def code_rows(prog, sl, fn, v, conds, is_result, via=None, depth=0, site=None):
    """rows (kind 'const'|'result'|'other', value, conds, via, site) of an exit-code value.  is_result(r): r is the phase
    Result whose Ok payload may be forwarded.  `via` is the error-handler closure (Fn) that produced the row's value;
    `site` = (Fn, block) where the row's value was chosen when that is not the place of the exit call itself: a code
    computed by a private function (`exit(run(buildpack))`, every `exit(CODE)` of the inlined spelling a `return CODE`
    there) is read from that function's return table, one row per definition of its return value under the decisions
    around it, in the caller's terms."""
    v = strip(v) if v[0] != 'unwrap' else v
    if v[0] == 'phi':
        for a in v[1]:
            yield from code_rows(prog, sl, fn, a, conds, is_result, via, depth, site)
        return
    if v[0] == 'const':
        yield ('const', v, conds, via, site)
        return
    if v[0] == 'unwrap' and is_result(v[1]):
        yield ('result', v, conds, via, site)
        return
    if v[0] == 'call' and isinstance(v[1], str) and v[1].startswith('std::result::Result::') and depth < 3 and v[2] and is_result(v[2][0]):
        r = v[2][0]
        n = v[1].rsplit('::', 1)[-1]
        okc, errc = SynthCond(fn, r, 'Ok'), SynthCond(fn, r, 'Err')
        okv = errv = ecl = None
        if n == 'unwrap_or_else' and len(v[2]) == 2:
            okv, ecl = ('unwrap', r), v[2][1]
        elif n == 'map_or_else' and len(v[2]) == 3:
            okv, ecl = sl.apply_closure(strip(v[2][2]), (('unwrap', r),)), v[2][1]
        elif n == 'unwrap_or' and len(v[2]) == 2:
            okv, errv = ('unwrap', r), v[2][1]
        elif n == 'map_or' and len(v[2]) == 3:
            okv, errv = sl.apply_closure(strip(v[2][2]), (('unwrap', r),)), v[2][1]
        if okv is not None:
            eg = handler_fn(prog, ecl) if ecl is not None else None
            if ecl is not None:
                errv = sl.apply_closure(strip(ecl), (('unwrap_err', r),)) if eg is not None else None
            if eg is not None and diverges(eg):
                # the handler never returns a code: its exits are rows of their own (EXIT effects inside the closure)
                yield from code_rows(prog, sl, fn, okv, conds + [okc], is_result, via, depth + 1, site)
                return
            if errv is not None:
                yield from code_rows(prog, sl, fn, okv, conds + [okc], is_result, via, depth + 1, site)
                yield from code_rows(prog, sl, fn, errv, conds + [errc], is_result, eg if eg is not None else via, depth + 1, site)
                return
    # a code computed by a private function: `run(..)` itself, or the payload of the Result / Option it returns
    # (`if let Err(code) = ensure_supported_api() { exit(code) }`: the rows are the Err literals the gate returns)
    payload, x = None, v
    if v[0] in ('unwrap', 'unwrap_err'):
        payload, x = ('Err',) if v[0] == 'unwrap_err' else ('Ok', 'Some'), v[1]
        while x[0] == 'updated':
            x = x[1]
    if x[0] == 'call' and isinstance(x[1], str) and depth < 4 and not is_result(x):
        g = prog.fns.get(x[1])
        if g is not None and g.kind != 'Closure' and not g.partial_defs(0):
            from .lib.tables import arm_defs
            from .lib.value import subst
            live = g.reachable(0)
            defs = [d for d in g.whole_defs(0) if d[1] in live]
            table = [(bb, rv, cds) for bb, rv, cds in arm_defs(g, 0, sl) if bb in live]
            if table and len(table) == len(defs):
                m = {(g.path, i): a for i, a in enumerate(x[2]) if i < g.argc}
                for bb, rv, cds in table:
                    sub = [SubstCond(cd, m, sl) for cd in cds] if m else list(cds)
                    rv = subst(rv, m, sl) if m else rv
                    for alt in (alts(rv) if payload else [rv]):
                        if payload:
                            while alt[0] == 'updated':
                                alt = alt[1]
                            if alt[0] == 'agg' and alt[1] in (RESULT, 'std::option::Option') and alt[2] is not None:
                                if alt[2] not in payload:
                                    continue        # this way of returning has no such payload: not a way to this exit
                                alt = dict(alt[3]).get('0', ('unknown',))
                            else:
                                alt = (v[0], alt)
                        yield from code_rows(prog, sl, g, alt, list(conds) + sub, is_result, via, depth + 1, (g, bb))
                return
    yield ('other', v, conds, via, site)


def _replace(v, old, new):
    if v == old:
        return new
    if not isinstance(v, tuple) or not v:
        return v
    return tuple(_replace(x, old, new) if isinstance(x, tuple) else x for x in v)


_LEAVES = ('const', 'param', 'fnitem', 'constitem', 'unknown', 'closure_env', 'upvar')


def replace_norm(sl, v, old, new):
    """v with every occurrence of the sub-value `old` replaced by `new`, and the projections / payloads this exposes
    re-normalised (`(a, b).1` is b, the payload of `Some(x)` is x)"""
    if v == old:
        return new
    if not isinstance(v, tuple) or not v or v[0] in _LEAVES:
        return v
    out = tuple(replace_norm(sl, x, old, new) if isinstance(x, tuple) else x for x in v)
    if out == v:
        return v
    if out[0] == 'unwrap':
        return sl.mk_unwrap(out[1], 1)
    if out[0] == 'field':
        return sl._field(out[1], out[2])
    if out[0] == 'variant':
        return sl._variant(out[1], out[2])
    return out


def decided_by(prog, sl, v, enum, host):
    """calls (made in `host`) inside value v to private workspace functions whose returned value is a table over the
    variants of ONE value of `enum`: `fn split(r) -> (code, plan) { match r.0 { Fail => (100, None), Pass {p} => (0, p) } }`.
    [(call value X, [(variant name, row value in the caller's terms, decided subject in the caller's terms)])] — the
    caller may then reason per row as if the `match` had been written at the call site.  Only complete, disjoint
    tables whose rows are decided by nothing but the variant are returned."""
    from .lib.tables import arm_defs
    from .lib.value import subst, canon
    out, seen = [], set()
    adt = prog.adts.get(enum)
    allv = sorted(x['name'] for x in adt['variants']) if adt else []
    for x in walk(v):
        if x[0] != 'call' or not isinstance(x[1], str) or len(x) < 4 or not x[3] or x[3][0] != host.path or x in seen:
            continue
        g = prog.fns.get(x[1])
        if g is None or g.kind == 'Closure' or g.partial_defs(0) or g.crate != host.crate:
            continue
        seen.add(x)
        m = {(g.path, i): a for i, a in enumerate(x[2]) if i < g.argc}
        rows, subjects = [], set()
        for bb, rv, conds in arm_defs(g, 0, sl):
            if bb not in g.reachable(0):
                continue
            cds = [cd for cd in conds if cd.kind == 'variant' and cd.enum == enum and cd.subject is not None]
            others = [cd for cd in conds if cd not in cds]
            if len(cds) != 1 or others or len(cds[0].outcome) != 1:
                rows = None
                break
            subjects.add(canon(cds[0].subject))
            rows.append((next(iter(cds[0].outcome)), subst(rv, m, sl), subst(cds[0].subject, m, sl)))
        if rows and len(subjects) == 1 and sorted(r[0] for r in rows) == allv and allv:
            out.append((x, rows))
    return out


def err_closure_payload(E, e):
    """(args, implied) of effect e with the payload of `r.map_or_else(|err| .., |ok| ..)`'s *first* closure read as the
    Err payload of r.  (lib/effects binds the parameter of every closure handed to map_or_else to the Ok payload; for
    Result::map_or_else the default closure receives the error.)"""
    args, implied = tuple(e.args or ()), tuple(e.implied or ())
    levels = list(e.chain) + [e.call]
    for i, l in enumerate(e.chain):
        call = getattr(l, 'call', l)
        d = call.decl or ''
        if not (d.startswith('std::result::Result::') and d.endswith('::map_or_else')) or len(call.args) != 3:
            continue
        sl = E.slicer
        clv = strip(sl.operand(call.fn, call.args[1]))
        if clv[0] != 'closure' or clv[1] != levels[i + 1].fn.path:
            continue
        recv = E.subst(sl.operand(call.fn, call.args[0]), getattr(l, 'mapping', None) or {})
        old, new = ('unwrap', sl._ok_core(recv)), ('unwrap_err', recv)
        args = tuple(_replace(a, old, new) for a in args)
        implied = tuple(_replace(x, old, new) for x in implied)
    return args, implied


# ---- slice-length facts (R3 arity) ---------------------------------------------------------------------
# "parse succeeds only for exactly n arguments" is an implication `returns Ok => len(args) == n`.  It is decided on an
# interval domain over len(<slice parameter>): every decision that dominates a success return contributes an interval
# (a comparison of the length, a slice pattern, `split_first()` / `first()` / `get(k)` being Some, a slice -> array
# conversion being Ok, a private helper returning Some / Ok — recursively, in the caller's terms and with the helper's
# const generics bound from the call's instantiated type), the intervals of one return are intersected and the returns
# are joined.  `[_, a, b] = args`, `args.len() == 3`, `match args.len() {3 => ..}`, `split_first` + `try_into::<&[_; 2]>`
# in a const-generic helper are the same fact [3, 3] to the rule; `[_, a, b, ..]` is [3, inf) and an iterator walk
# is [0, inf).
import re

INF = float('inf')
FULL = (0, INF)
EMPTY = (INF, -INF)
SUCCESS = frozenset({'Some', 'Ok', 'Continue'})
FAILURE = frozenset({'None', 'Err', 'Break'})


def _meet(a, b):
    r = (max(a[0], b[0]), min(a[1], b[1]))
    return EMPTY if r[0] > r[1] else r


def _join(a, b):
    if a == EMPTY:
        return b
    if b == EMPTY:
        return a
    return (min(a[0], b[0]), max(a[1], b[1]))


def _shift(r, k):
    """interval of x given the interval r of x + k (lengths are never negative)"""
    if r == EMPTY:
        return r
    return _meet((r[0] - k, r[1] - k), FULL)


_TOK = re.compile(r"[A-Za-z_0-9:']+|\S")
_GENERIC = re.compile(r'[A-Z][A-Za-z0-9_]*$')


def _group(t, j):
    """end index of the type starting at token j"""
    while j < len(t) and (t[j] in ('&', '*', 'mut', 'const') or t[j].startswith("'")):
        j += 1
    if j >= len(t):
        return None
    close = {'[': ']', '(': ')'}
    if t[j] in close:
        depth, k = 0, j
        while k < len(t):
            if t[k] in close:
                depth += 1
            elif t[k] in close.values():
                depth -= 1
                if depth == 0:
                    return k + 1
            k += 1
        return None
    if t[j] in ('dyn', 'impl', 'fn'):
        return None
    k = j + 1
    if k < len(t) and t[k] == '<':
        depth = 0
        while k < len(t):
            if t[k] == '<':
                depth += 1
            elif t[k] == '>':
                depth -= 1
                if depth == 0:
                    return k + 1
            k += 1
        return None
    return k


def unify_types(pat, tgt):
    """{generic parameter: instantiation} from a declared type (`Option<[PathBuf; N]>`) and the type the same position
    has at a use (`Option<[PathBuf; 2]>`); partial on anything unexpected"""
    env = {}
    if not pat or not tgt:
        return env
    p, t = _TOK.findall(pat), _TOK.findall(tgt)
    i = j = 0
    while i < len(p) and j < len(t):
        if p[i] == t[j]:
            i, j = i + 1, j + 1
            continue
        if _GENERIC.match(p[i]):
            k = _group(t, j)
            if k is None:
                break
            val = ' '.join(t[j:k])
            if env.setdefault(p[i], val) != val:
                break
            i, j = i + 1, k
            continue
        break
    return env


def _type_args(ty):
    """top-level generic arguments of `Head<A, B>`"""
    if not ty or '<' not in ty or not ty.endswith('>'):
        return []
    body = ty[ty.index('<') + 1:-1]
    out, depth, cur = [], 0, ''
    for ch in body:
        if ch in '<[(':
            depth += 1
        elif ch in '>])':
            depth -= 1
        if ch == ',' and depth == 0:
            out.append(cur.strip())
            cur = ''
        else:
            cur += ch
    if cur.strip():
        out.append(cur.strip())
    return out


_ARRAY = re.compile(r'^(?:&\s*(?:mut\s+)?|std::boxed::Box<)?\[.*;\s*([A-Za-z_0-9]+)\]>?$')


def _array_len(ty, env):
    m = _ARRAY.match(ty or '')
    if not m:
        return None
    n = m.group(1)
    for _ in range(4):
        if n.isdigit():
            return int(n)
        n = (env.get(n) or '').replace('_usize', '').strip()
    return None


# Option / Result adapters whose result can only be a success when the receiver was one
NEEDS_RECEIVER = ('map', 'map_err', 'and_then', 'filter', 'ok', 'ok_or', 'ok_or_else', 'inspect', 'inspect_err', 'copied', 'cloned',
                  'as_ref', 'as_mut', 'as_deref', 'as_deref_mut', 'zip', 'take_if')
AT_LEAST_ONE = ('split_first', 'split_last', 'first', 'last', 'first_mut', 'last_mut', 'split_first_mut', 'split_last_mut')
CONVERSIONS = ('std::convert::TryInto::try_into', 'std::convert::TryFrom::try_from')
LEN_CALLS = ('core::slice::<impl [T]>::len', 'std::vec::Vec::<T, A>::len', 'std::vec::Vec::<T>::len')
EMPTY_CALLS = ('core::slice::<impl [T]>::is_empty', 'std::vec::Vec::<T, A>::is_empty', 'std::vec::Vec::<T>::is_empty')


def _meth(v, heads, names):
    return v[0] == 'call' and isinstance(v[1], str) and v[1].startswith(heads) and v[1].rsplit('::', 1)[-1] in names


def _slice_meth(v, names):
    return _meth(v, ('core::slice::<impl [T]>::', 'std::vec::Vec::'), names)


def _adapter(v):
    return v[0] == 'call' and v[2] and (v[1] == 'std::ops::Try::branch' or
                                        _meth(v, ('std::option::Option::', 'std::result::Result::'), NEEDS_RECEIVER))


class LenFacts:
    """intervals of the length of a slice value `root` (a parameter) that hold where / when something succeeds"""

    def __init__(self, prog, sl):
        self.prog, self.sl = prog, sl

    def _call_at(self, v):
        site = v[3] if len(v) > 3 else None
        f = self.prog.fns.get(site[0]) if site else None
        if f is None:
            return None
        for c in f.calls:
            if c.bb == site[1]:
                return c
        return None

    def term(self, v):
        """(root value, k) with len(v) == len(root) + k: the rest of split_first / split_last, `&v[k..]`, and a
        slice <-> array conversion keep the length relation"""
        off = 0
        for _ in range(8):
            if v[0] == 'updated':
                v = v[1]
                continue
            if v[0] == 'param':
                return v, off
            if v[0] == 'field' and v[2] == '1' and v[1][0] == 'unwrap':
                c = v[1][1]
                while _adapter(c):
                    c = c[2][0]
                if _slice_meth(c, ('split_first', 'split_last', 'split_first_mut', 'split_last_mut')):
                    v, off = c[2][0], off - 1
                    continue
                return None
            if v[0] == 'unwrap':
                c = v[1]
                while _adapter(c):
                    c = c[2][0]
                if c[0] == 'call' and c[1] in CONVERSIONS and c[2]:
                    v = c[2][0]
                    continue
                return None
            if v[0] == 'call' and isinstance(v[1], str) and v[1].endswith('::index') and len(v[2]) == 2:
                r = v[2][1]
                if r[0] == 'agg' and isinstance(r[1], str) and r[1].endswith('RangeFrom') and len(r[3]) == 1 and r[3][0][1][0] == 'const' \
                        and isinstance(r[3][0][1][1], int):
                    v, off = v[2][0], off - r[3][0][1][1]
                    continue
                return None
            if v[0] == 'call' and isinstance(v[1], str) and v[1].rsplit('::', 1)[-1] in ('as_slice', 'as_ref', 'borrow', 'deref') and len(v[2]) == 1:
                v = v[2][0]
                continue
            return None
        return None

    def _about(self, x, root, r):
        """r holds for len(x): what holds for len(root)"""
        t = self.term(x)
        if t is None or t[0] != root:
            return FULL
        return _shift(r, t[1])

    def _len_of(self, v):
        v = strip(v)
        if v[0] == 'cast':
            v = strip(v[1])
        if v[0] == 'un' and v[1] == 'PtrMetadata':
            return v[2]
        if v[0] == 'call' and v[1] in LEN_CALLS and v[2]:
            return v[2][0]
        return None

    def compare(self, v, oc, root):
        """interval of len(root) when boolean v has outcome oc"""
        v = strip(v)
        if v[0] == 'call' and v[1] in EMPTY_CALLS and v[2]:
            return self._about(v[2][0], root, (0, 0) if oc else (1, INF))
        if v[0] != 'bin':
            return FULL
        op, a, b = v[1], v[2], v[3]
        flip = {'Lt': 'Gt', 'Gt': 'Lt', 'Le': 'Ge', 'Ge': 'Le', 'Eq': 'Eq', 'Ne': 'Ne'}
        neg = {'Lt': 'Ge', 'Ge': 'Lt', 'Gt': 'Le', 'Le': 'Gt', 'Eq': 'Ne', 'Ne': 'Eq'}
        if op not in flip:
            return FULL
        x, k = self._len_of(a), strip(b)
        if x is None:
            x, k, op = self._len_of(b), strip(a), flip[op]
        if x is None or k[0] != 'const' or not isinstance(k[1], int) or isinstance(k[1], bool):
            return FULL
        if not oc:
            op = neg[op]
        n = k[1]
        r = {'Eq': (n, n), 'Lt': (0, n - 1), 'Le': (0, n), 'Gt': (n + 1, INF), 'Ge': (n, INF), 'Ne': FULL}[op]
        if r[0] > r[1]:
            r = EMPTY
        return self._about(x, root, r)

    def cond(self, cd, root, env, depth):
        if cd.kind == 'bool':
            r = FULL
            for v, oc in cd.views():
                r = _meet(r, self.compare(v, oc, root))
            return r
        if cd.kind == 'int':
            x = self._len_of(cd.value)
            if x is not None and isinstance(cd.outcome, int) and not isinstance(cd.outcome, bool):
                return self._about(x, root, (cd.outcome, cd.outcome))
            return FULL
        if cd.kind == 'variant' and cd.subject is not None and cd.outcome and cd.outcome <= SUCCESS:
            return self.success(cd.subject, root, env, depth)
        return FULL

    def at(self, fn, bb, root, env=None, depth=0):
        """interval of len(root) that holds whenever block bb of fn runs"""
        from .lib.guards import conditions
        r = FULL
        for cd in conditions(fn, bb, self.sl):
            r = _meet(r, self.cond(cd, root, env or {}, depth))
        return r

    def success(self, v, root, env=None, depth=0):
        """interval of len(root) implied by `v is Some / Ok`"""
        env = env or {}
        while v[0] == 'updated':
            v = v[1]
        if v[0] == 'phi':
            r = EMPTY
            for a in v[1]:
                r = _join(r, self.success(a, root, env, depth))
            return r
        if v[0] == 'agg' and v[1] in ('std::result::Result', 'std::option::Option', 'std::ops::ControlFlow'):
            return EMPTY if v[2] in FAILURE else FULL
        if v[0] != 'call' or not isinstance(v[1], str) or depth > 6:
            return FULL
        if v[1].endswith('FromResidual::from_residual'):
            return EMPTY
        if _adapter(v):
            return self.success(v[2][0], root, env, depth)
        if _slice_meth(v, AT_LEAST_ONE) and v[2]:
            return self._about(v[2][0], root, (1, INF))
        if _slice_meth(v, ('get', 'get_mut')) and len(v[2]) == 2 and v[2][1][0] == 'const' and isinstance(v[2][1][1], int):
            return self._about(v[2][0], root, (v[2][1][1] + 1, INF))
        if v[1] in CONVERSIONS and v[2]:
            c = self._call_at(v)
            ta = _type_args(c.dty) if c is not None and (c.dty or '').startswith('std::result::Result<') else []
            n = _array_len(ta[0], env) if ta else None
            return self._about(v[2][0], root, (n, n)) if n is not None else FULL
        g = self.prog.fns.get(v[1])
        if g is not None and g.kind != 'Closure':
            c = self._call_at(v)
            genv = dict(env)
            if c is not None:
                for k, val in unify_types(g.ret, c.dty).items():
                    genv[k] = env.get(val, val)
            r = FULL
            for j, a in enumerate(v[2][:g.argc]):
                t = self.term(a)
                if t is None or t[0] != root:
                    continue
                rj = self.fn_success(g, j, genv, depth + 1)
                r = _meet(r, _shift(rj, t[1]))
            return r
        return FULL

    def fn_success(self, g, j, env=None, depth=0):
        """interval of len(parameter j of g) over all the ways g returns Some / Ok"""
        if g.partial_defs(0) or depth > 6:
            return FULL
        root = ('param', g.path, j, g.local_name(j + 1))
        out = EMPTY
        for d in g.whole_defs(0):
            here = self.at(g, d[1], root, env, depth)
            if d[0] == 'stmt' and d[3]['r'] == 'agg' and d[3].get('kind') == 'adt' and d[3].get('adt') in ('std::result::Result', 'std::option::Option'):
                if d[3].get('variant') in FAILURE:
                    continue
            else:
                try:
                    val = self.sl._def_value(g, d, set(), 0)
                except Exception:
                    val = ('unknown',)
                here = _meet(here, self.success(val, root, env, depth))
            out = _join(out, here)
        return out


# ---- FORALL effects of loop nests (R4 build SBOM table) ------------------------------------------------
# lib/effects.find_loops takes every predecessor of an `Iterator::next` block that the block can reach as a latch, which
# for a loop inside another loop is also the edge *entering* the inner loop: the inner loop is then not recognised and
# the effects of its body are not MUST effects of the function.  The natural loops (back edge = predecessor dominated
# by the header) are computed here, and the calls of an inner loop that run for every element of it on every iteration
# of the enclosing loop(s) are expanded with the enclosing loops unrolled when they range over a literal table:
# `for (xs, name, ..) in [(&a, "build", ..), (&b, "launch", ..)] { for x in xs { write(path(x, name), x.data)? } }` has the
# MUST effects of `for x in a { write(path(x, "build"), ..)? } for x in b { write(path(x, "launch"), ..)? }`.
WRITE_DATA = {'std::io::Write::write_all': ('WRITE_DATA', 0)}
CREATE = ('std::fs::File::create', 'std::fs::File::create_new')


class NLoop:
    def __init__(self, fn, header, body, latches, collection, exhaust):
        self.fn, self.header, self.body, self.latches, self.collection, self.exhaust = fn, header, body, latches, collection, exhaust


def natural_loops(E, fn):
    from .lib.mir import op_place
    preds = fn.preds()
    loops = []
    for c in fn.calls:
        if c.indirect or c.decl != 'std::iter::Iterator::next':
            continue
        h = c.bb
        latches = [p for p in preds[h] if fn.dominates(h, p)]
        if not latches:
            continue
        body, work = {h}, list(latches)
        while work:
            b = work.pop()
            if b in body:
                continue
            body.add(b)
            work.extend(preds[b])
        rp = op_place(c.args[0]) if c.args else None
        coll = E.slicer.place(fn, rp) if rp else None
        exhaust = None
        tb = c.target
        if tb is not None and fn.blocks[tb]['t']['t'] == 'switch':
            t = fn.blocks[tb]['t']
            some_t = [b for v, b in t['targets'] if v == 1]
            outs = [b for v, b in t['targets'] if v != 1] + [t['else']]
            outs = [b for b in outs if b not in body and fn.blocks[b]['t']['t'] != 'unreachable']
            if some_t and some_t[0] in body and len(set(outs)) == 1:
                exhaust = (tb, outs[0])
        loops.append(NLoop(fn, h, body, latches, coll, exhaust))
    return loops


def nested_forall_calls(E, fn, site_bbs):
    """[(Call, (outermost collection, .., innermost collection))] for the calls inside loops nested at least two deep
    that run for every element of every level on every path to all of site_bbs"""
    from .lib.guards import edge_dominates
    loops = [L for L in natural_loops(E, fn) if L.exhaust is not None and L.collection is not None]
    out = []

    def children(L):
        for M in loops:
            if M is L or M.header not in L.body or not (M.body < L.body):
                continue
            if any(K is not L and K is not M and K.body < L.body and M.body < K.body for K in loops):
                continue
            # M runs to exhaustion on every iteration of L
            if any(l in M.body for l in L.latches):
                continue
            if all(fn.dominates(M.header, l) and edge_dominates(fn, M.exhaust[0], M.exhaust[1], l) for l in L.latches):
                yield M

    def descend(L, colls, depth):
        for M in children(L):
            cs = colls + (M.collection,)
            for c in fn.calls:
                if c.bb in M.body and c.bb != M.header and all(fn.dominates(c.bb, l) or c.bb == l for l in M.latches):
                    out.append((c, cs))
            if depth < 4:
                descend(M, cs, depth + 1)

    for L in loops:
        if not all(fn.dominates(L.header, b) for b in site_bbs) or any(b in L.body for b in site_bbs):
            continue
        if not all(edge_dominates(fn, L.exhaust[0], L.exhaust[1], b) for b in site_bbs):
            continue
        descend(L, (L.collection,), 0)
    return out


def nested_must(E, fn, site_bbs, level=0):
    """MUST effects (Eff, forall = innermost collection in the terms of the unrolled enclosing rows) of loop nests"""
    from .lib import iters
    sl = E.slicer
    res = []
    for c, colls in nested_forall_calls(E, fn, site_bbs):
        def go(i, m):
            coll = E.subst(colls[i], m)
            al = iters.alts(sl, coll)
            last = i == len(colls) - 1
            if iters.trivial(al, coll):
                rows = [(None, colls[i] if last else None)]
            else:
                rows = [(elem, fa) for elem, fa, filtered in al if not filtered]
            for elem, fa in rows:
                m2 = m
                if elem is not None:
                    m2 = dict(m)
                    m2['__repl__'] = list(m.get('__repl__', ())) + [(iters.loop_key(colls[i]), elem), (iters.loop_key(coll), elem)]
                if not last:
                    go(i + 1, m2)
                    continue
                got = []
                E._expand_call1(fn, c, fa, 'must', m2, (), (fn.path,), got)
                rm = {'__repl__': m2.get('__repl__', [])}
                for e in got:
                    # closures expanded below this call drop the row bindings: re-apply them (idempotent)
                    if rm['__repl__']:
                        e.path = E.subst(e.path, rm) if e.path is not None else None
                        e.args = tuple(E.subst(a, rm) for a in e.args) if e.args is not None else None
                        e.forall = E.subst(e.forall, rm) if e.forall is not None else None
                        e.implied = tuple(E.subst(x, rm) for x in e.implied)
                    e.level, e.level_bb = level, c.bb
                res.extend(got)
        go(0, {})
    return res


def written_data(e, effs):
    """the bytes written to the file effect e creates: the data argument of fs::write (or what lib/effects attached to
    a File::create), else the buffer of the one write_all effect among effs whose receiver is that created file —
    wherever the write_all sits (`File::create(p).and_then(|mut f| f.write_all(d))`).  (value | None, write_all Eff | None)"""
    from .lib.value import canon
    if e.args is not None and len(e.args) > 1:
        return e.args[1], None
    found = []
    for d in effs:
        if d.kind != 'WRITE_DATA' or d.path is None or d.args is None or len(d.args) < 2:
            continue
        r = strip(d.path)
        made = None
        if r[0] == 'call' and r[1] in CREATE and r[2]:
            made = r[2][0]
        elif r[0] == 'call' and r[1] == 'std::fs::OpenOptions::open' and len(r[2]) == 2 and open_mode(r[2][0]) in ('create', 'create_new'):
            made = r[2][1]
        if made is not None and e.path is not None and canon(made) == canon(e.path) \
                and (len(r) < 4 or r[3] is None or r[3] == (e.call.fn.path, e.call.bb)) \
                and (d.forall is None) == (e.forall is None) and (d.forall is None or canon(d.forall) == canon(e.forall)):
            found.append(d)
    if len(found) == 1:
        return found[0].args[1], found[0]
    return None, None


def same_elements(coll):
    """the collection whose elements an iterated expression visits: `&xs`, `xs.iter()`, `xs.into_iter()` are xs"""
    from .lib import iters
    coll = strip(coll)
    while coll[0] == 'call' and len(coll[2]) == 1 and iters._is_source(coll[1]) and coll[1].endswith(iters.SAME_ELEMS):
        coll = strip(coll[2][0])
    return coll


# ---- zipped literal tables (R7: mandatory variables read by a loop over a table) ---------------------------
# `for (slot, (name, to_err)) in values.iter_mut().zip(TABLE) { *slot = env::var(name).map_err(to_err)?; }` visits row i of
# the literal TABLE for every i < min(len(values), len(TABLE)).  lib/iters.alts only decomposes a zip of two one-alternative
# sides; here the rows of the literal side are all visited when the other side is statically at least as long (array
# literal / array type of the producing call), which turns the one FORALL effect into one effect per row.
def static_len(prog, v):
    """number of elements of an array-valued expression, from the literal or from the array type of the call that
    produced it (`<[String; 4]>::default()`); None when unknown"""
    v = same_elements(v)
    for _ in range(6):
        if v[0] == 'array':
            return len(v[1])
        if v[0] == 'repeat' and isinstance(v[2], int):
            return v[2]
        if v[0] == 'call' and len(v) > 3 and v[3]:
            f = prog.fns.get(v[3][0])
            c = f.call_at(v[3][1]) if f is not None else None
            n = _array_len(c.dty, {}) if c is not None else None
            if n is not None:
                return n
        if v[0] == 'call' and len(v[2]) == 1 and _last(v[1]) in ('as_slice', 'as_mut_slice', 'as_ref', 'as_mut', 'each_ref', 'each_mut'):
            v = same_elements(v[2][0])
            continue
        return None
    return None


def zip_rows(prog, sl, coll):
    """[element value] of `zip(A, B)` when every element is known: one side is a literal table of n rows and the other
    has (statically) at least n elements, or both are literal tables; None otherwise"""
    from .lib import iters
    c = same_elements(coll)
    if not (c[0] == 'call' and c[1] == iters.IT + 'zip' and len(c[2]) == 2):
        return None
    sides = []
    for side in c[2]:
        al = iters.alts(sl, side)
        if al and not iters.trivial(al, side) and all(fa is None and not fl for _, fa, fl in al):
            sides.append([e for e, _, _ in al])
        else:
            sides.append(static_len(prog, side))
    a, b = sides
    if isinstance(a, list) and isinstance(b, list):
        n = min(len(a), len(b))
        return [('tuple', (a[i], b[i])) for i in range(n)]
    if isinstance(a, list) and isinstance(b, int) and b >= len(a):
        return [('tuple', (x, ('unknown', 'zip-element'))) for x in a]
    if isinstance(b, list) and isinstance(a, int) and a >= len(b):
        return [('tuple', (('unknown', 'zip-element'), x)) for x in b]
    return None


def unroll_zip(E, prog, effs):
    """effs with every FORALL effect over a fully known zip replaced by one effect per row (element bound to the row)"""
    from .lib import iters
    from .lib.effects import Eff
    out = []
    for e in effs:
        rows = zip_rows(prog, E.slicer, e.forall) if e.forall is not None else None
        if not rows:
            out.append(e)
            continue
        key = iters.loop_key(e.forall)
        for row in rows:
            m = {'__repl__': [(key, row)]}
            r = Eff(e.kind, E.subst(e.path, m) if e.path is not None else None, e.call, e.chain, e.must, None,
                    tuple(E.subst(a, m) for a in e.args) if e.args is not None else None)
            r.level, r.level_bb, r.mapping = e.level, e.level_bb, e.mapping
            r.implied = tuple(E.subst(x, m) for x in e.implied)
            out.append(r)
    return out


# ---- result builders (R8) -------------------------------------------------------------------------------
# The buildpack hands "what it provides" to the runtime through the public builders of build.rs / detect.rs; the inner
# result enums are crate-private, so the builders are the only carriers.  A setter `fn f(mut self, x) -> Self` is read as
# the set of changes it makes to `self` before returning it: field assignments, `Vec::push` through `&mut self.field`,
# or a struct literal of the builder type whose other fields are `self.<same field>` (struct-update spelling).
PUSH = ('std::vec::Vec::<T, A>::push', 'std::vec::Vec::<T>::push')
SET_SOME = ('std::option::Option::<T>::replace', 'std::option::Option::<T>::insert')


def self_updates(prog, sl, f):
    """{field: [(op, value)]} with op 'set' | 'push' | 'other' for the changes f makes to its by-value `self` before
    returning it; None when what f returns is not recognisably `self`"""
    from .lib.mir import op_place
    if f.argc < 1:
        return None
    ret = strip(sl.local(f, 0))
    me = ('param', f.path, 0, f.local_name(1))
    ups = {}
    live = f.reachable(0)
    if ret[0] == 'agg' and ret[1] is not None and f.args and ret[1] == str(f.args[0]).split('<')[0]:
        # `Self { a: Some(x), ..self }`
        for name, v in ret[3]:
            if strip(v) != ('field', me, name):
                ups.setdefault(name, []).append(('set', v))
        clean = True
    elif ret == me:
        clean = False
    else:
        return None
    if f.whole_defs(1):
        return None
    rets = [b for b in f.return_blocks() if b in live]

    def always(bb, op):
        # a change made on some paths only is not "the setter stores its argument"
        return op if rets and all(f.dominates(bb, r) for r in rets) else 'conditional ' + op
    refs = {}
    for bi, b in enumerate(f.blocks):
        if b.get('cleanup') or bi not in live:
            continue
        for si, st in enumerate(b['s']):
            if st[0] == '=' and st[2]['r'] in ('ref', 'rawptr') and st[2]['p'][0] == 1 and (st[2].get('mut') or st[2]['r'] == 'rawptr'):
                p = [x for x in st[2]['p'][1:] if x != '*']
                if len(st[1]) == 1 and len(p) == 1 and p[0].startswith('.'):
                    refs[st[1][0]] = p[0][1:]
                else:
                    ups.setdefault('*', []).append(('other', 'mutable borrow of self'))
    for dd in f.partial_defs(1):
        kind, bi, si, rv, pl = dd
        if f.blocks[bi].get('cleanup') or bi not in live:
            continue
        p = [x for x in pl[1:] if x != '*']
        if len(p) != 1 or not p[0].startswith('.'):
            ups.setdefault('*', []).append(('other', 'nested write'))
            continue
        if kind == 'stmt':
            ups.setdefault(p[0][1:], []).append((always(bi, 'set'), sl._rvalue(f, rv, set(), 0, (bi, si))))
        elif kind == 'call':
            ups.setdefault(p[0][1:], []).append((always(bi, 'set'), sl._call_value(f, dd[3], set(), 0)))
        else:
            ups.setdefault(p[0][1:], []).append(('other', kind))
    for tmp, field in refs.items():
        used = False
        for c in f.calls:
            if c.bb not in live or f.blocks[c.bb].get('cleanup'):
                continue
            for ai, a in enumerate(c.args):
                pl = op_place(a)
                if pl and pl[0] == tmp:
                    used = True
                    if ai == 0 and len(c.args) == 2 and c.name in PUSH:
                        ups.setdefault(field, []).append((always(c.bb, 'push'), sl.operand(f, c.args[1])))
                    elif ai == 0 and len(c.args) == 2 and c.name in SET_SOME:
                        # `self.f.replace(x)` / `self.f.insert(x)` leave Some(x) in the field whatever was there
                        ups.setdefault(field, []).append((always(c.bb, 'set'), ('agg', 'std::option::Option', 'Some', (('0', sl.operand(f, c.args[1])),))))
                    else:
                        ups.setdefault(field, []).append(('other', c.name or 'indirect call'))
        for bi, b in enumerate(f.blocks):
            if b.get('cleanup') or bi not in live:
                continue
            for st in b['s']:
                if st[0] == '=' and st[1][0] == tmp and len(st[1]) > 1:
                    used = True
                    ups.setdefault(field, []).append(('other', 'write through reference'))
        if not used:
            ups.setdefault(field, []).append(('other', 'mutable borrow'))
    if clean and any(k for k in ups if any(op != 'set' for op, _ in ups[k])):
        return None
    return ups


def some_of(v):
    """payload of a `Some(..)` literal, else None"""
    v = strip(v)
    if v[0] == 'agg' and v[1] == 'std::option::Option' and v[2] == 'Some' and len(v[3]) == 1:
        return strip(v[3][0][1])
    return None


def empty_init(v):
    """v is an empty Option / Vec: None, Default::default(), Vec::new()"""
    v = strip(v)
    if v[0] == 'agg' and v[1] == 'std::option::Option' and v[2] == 'None':
        return True
    return v[0] == 'call' and not v[2] and isinstance(v[1], str) and \
        (v[1].endswith(('::default::Default::default', 'Default>::default')) or v[1].startswith('std::vec::Vec::') and v[1].endswith('::new'))


def constructors(prog, adt, crate='libcnb'):
    """paths of the functions of `crate` that build a value of enum / struct `adt`"""
    out = set()
    for f in prog.fns.values():
        if f.crate != crate:
            continue
        for b in f.blocks:
            for st in b['s']:
                if st[0] == '=' and st[2]['r'] == 'agg' and st[2].get('adt') == adt:
                    out.add(f.path)
    return out


# ---- positions of argv (R3 argmap / argv identity, R2 exact name) ----------------------------------------
_IDX = re.compile(r'^\[(\d+)\]$')
_IDXL = re.compile(r'^\[_(\d+)\]$')
# element-wise, order-preserving adapters of arrays / options around a positional list
ELEMWISE = ('each_ref', 'each_mut', 'as_slice', 'as_ref', 'ok', 'ok_or', 'ok_or_else', 'to_vec', 'to_owned', 'iter', 'into_iter', 'as_deref')
CONVERTERS = ('::from', '::into', '::to_path_buf', '::clone', '::to_owned', '::new', '::to_string', '::as_str', '::as_ref')


def _last(name):
    return name.rsplit('::', 1)[-1] if isinstance(name, str) else ''


def elem_pos(prog, sl, v, root, own_fn=None):
    """k when v is (a string / path conversion of) element k of the slice `root`, looked at through slice patterns,
    constant indexing, get / first, split_first rests, slice -> array conversions and element-wise maps with a
    conversion function; None when v is anything else"""
    v = strip(v)
    k = base = None
    if v[0] == 'index' and isinstance(v[2], str) and _IDX.match(v[2]):
        k, base = int(_IDX.match(v[2]).group(1)), v[1]
    elif v[0] == 'index' and isinstance(v[2], str) and _IDXL.match(v[2]) and own_fn is not None:
        # `args[i]` with the index held in a local of own_fn (the caller vouches that v was computed in own_fn)
        iv = strip(sl.local(own_fn, int(_IDXL.match(v[2]).group(1))))
        if iv[0] == 'const' and isinstance(iv[1], int):
            k, base = iv[1], v[1]
    elif v[0] == 'call' and _last(v[1]) == 'index' and len(v[2]) == 2 and strip(v[2][1])[0] == 'const' and isinstance(strip(v[2][1])[1], int):
        k, base = strip(v[2][1])[1], v[2][0]
    elif v[0] == 'call' and _slice_meth(v, ('get', 'get_mut')) and len(v[2]) == 2 and strip(v[2][1])[0] == 'const' and isinstance(strip(v[2][1])[1], int):
        k, base = strip(v[2][1])[1], v[2][0]
    elif v[0] == 'call' and _slice_meth(v, ('first', 'first_mut')) and len(v[2]) == 1:
        k, base = 0, v[2][0]
    elif v[0] == 'field' and v[2] == '0' and strip(v[1])[0] == 'call' and _slice_meth(strip(v[1]), ('split_first', 'split_first_mut')):
        k, base = 0, strip(v[1])[2][0]
    if k is None or isinstance(k, bool):
        return None
    lf = LenFacts(prog, sl)
    for _ in range(12):
        b = base
        while b[0] == 'updated':
            b = b[1]
        if b == root:
            return k
        t = lf.term(b)
        if t is not None and t[0] == root:
            return k - t[1]
        s = strip(b)
        if s == root:
            return k
        if s[0] == 'call' and s[2] and _last(s[1]) in ELEMWISE and len(s[2]) == 1:
            base = s[2][0]
            continue
        if s[0] == 'call' and _last(s[1]) == 'map' and len(s[2]) == 2 and strip(s[2][1])[0] == 'fnitem' and strip(s[2][1])[1].endswith(CONVERTERS):
            base = s[2][0]
            continue
        if s is not b and s != b:
            base = s
            continue
        return None
    return None


ARGV_SAME = ('collect', 'as_slice', 'as_ref', 'deref', 'borrow', 'as_mut_slice', 'to_vec', 'clone', 'into_boxed_slice')


def is_argv(v):
    """v is the complete argument vector of the process: `env::args()` collected, looked at through views that keep
    every element in place"""
    v = strip(v)
    for _ in range(8):
        if v[0] == 'call' and v[1] == 'std::env::args' and not v[2]:
            return True
        if v[0] == 'call' and len(v[2]) == 1 and _last(v[1]) in ARGV_SAME:
            v = strip(v[2][0])
            continue
        return False
    return False


# what may sit between argv and the string compared with "detect" / "build": selecting the first argument, taking the
# final path component and viewing it as text
NAME_STEPS = ('std::ffi::OsStr::to_str', 'std::path::Path::file_name', 'core::slice::<impl [T]>::first', 'std::iter::Iterator::collect',
              'std::path::Path::new', 'std::ffi::OsStr::to_string_lossy', 'std::ffi::OsStr::new', 'std::path::PathBuf::as_path',
              'std::string::String::as_str', 'std::path::Path::as_os_str', 'std::vec::Vec::<T, A>::as_slice', 'std::iter::Iterator::next',
              'std::env::args', 'std::borrow::Cow::<\'_, B>::as_ref')


def name_spine(v):
    """(names of the calls between the compared value and `env::args()` along the receiver spine, reached argv?)"""
    names = []
    for _ in range(24):
        while v[0] in ('unwrap', 'updated'):
            v = v[1]
        if v[0] == 'index' and v[2] == '[0]':
            names.append('core::slice::<impl [T]>::first')
            v = v[1]
            continue
        if v[0] != 'call':
            return names, False
        names.append(v[1])
        if v[1] == 'std::env::args':
            return names, True
        if not v[2]:
            return names, False
        v = v[2][0]
    return names, False


# ---- interprocedural "always and checked" (R4 writes that were moved into helpers) ------------------------
TRUNCATING = ('std::fs::write', 'std::fs::File::create')
from .lib.effects import effect_name, open_mode   # noqa: E402


def _result_of(v, g, c):
    """v is the Result / Option produced by call c of g, possibly seen through adapters that can only succeed when their
    receiver did (map / map_err / and_then / inspect ..)"""
    for _ in range(8):
        while v[0] == 'updated':
            v = v[1]
        if v[0] != 'call':
            return False
        if len(v) > 3 and v[3] == (g.path, c.bb):
            return True
        if _adapter(v):
            v = v[2][0]
            continue
        return False
    return False


def ok_needed(prog, sl, g, c, sites):
    """does g reaching one of its success sites imply that the Result / Option of call c was Ok / Some?  `?`, unwrap, being
    returned, Ok-preserving combinators followed by those (lib/discard.ok_on_success) — or, as a decision: every success
    site lies on the Ok / Some side of a `match` / `if let` / let-else on that very result, whatever the other arms do
    with the error (`match write(..) { Ok(()) => Ok(()), Err(e) => Err(Wrapped(e)) }` is `write(..)?`)."""
    from .lib.discard import ok_on_success
    from .lib.guards import conditions
    if ok_on_success(prog, g, c, sites):
        return True
    if not sites:
        return False
    for bb in sites:
        if not any(cd.kind == 'variant' and cd.outcome and cd.outcome <= {'Ok', 'Some'} and cd.subject is not None and _result_of(cd.subject, g, c)
                   for cd in conditions(g, bb, sl)):
            return False
    return True


def chain_always(E, prog, e, first=1, body=()):
    """[] when, in every workspace function between the entry function and the std call of effect e, the next call of
    the chain is made on every way to that function's success (from chain level `first` on: the levels above are the
    ones that hold the "was it provided" decision and are judged by the caller) and its failure cannot end in that
    success (closures: only the latter); else the reasons"""
    ok_on_success = lambda prog_, g_, c_, sites_: ok_needed(prog_, E.slicer, g_, c_, sites_)
    bad = []
    levels = list(e.chain) + [e.call]
    for i in range(1, len(levels)):
        c = getattr(levels[i], 'call', levels[i])
        g = c.fn
        sites = [st.bb for st in E.sites(g)]
        if g.kind != 'Closure' and i >= first:
            if not sites or not any(x.bb == c.bb for x, _ in E.must_calls(g, sites)):
                bad.append('%s can succeed without calling %s' % (g.path.split('::')[-1], _last(c.name or '?')))
        if c.dty and c.dty.startswith(('std::result::Result<', 'std::option::Option<')) and not ok_on_success(prog, g, c, sites or None):
            bad.append('%s can succeed although %s failed' % (g.path.split('::')[-1], _last(c.name or '?')))
        if g.kind != 'Closure' and sites and g.path not in body:
            # (`body`: the private function that IS the phase after its inputs were read — outcomes_body — tolerates what
            # the phase tolerates, e.g. a missing store.toml)
            # the other fallible steps of the helper (serialising the value, opening the file, ..): a failure there
            # must not end in the helper's success either, or "written" stops meaning "the provided value was written"
            for x, _fa in E.must_calls(g, sites):
                if x is c or x.indirect or not (x.dty or '').startswith('std::result::Result<'):
                    continue
                if not ok_on_success(prog, g, x, sites):
                    bad.append('%s can succeed although %s failed' % (g.path.split('::')[-1], _last(x.name or '?')))
    return bad


# ---- "never returns" through private functions that never return (R4) ----------------------------------------
def can_return(prog, fn, _memo=None, _stack=()):
    """blocks of fn's reachable `return`s, not counting what lies behind a call that cannot come back: `exit`, a panic, or a
    workspace function every path of which ends in one (declared `-> !` or not: `fn bail(code: i32) { exit(code) }`)"""
    memo = _memo if _memo is not None else {}
    if fn.path in memo:
        return memo[fn.path]
    if fn.path in _stack or len(_stack) > 8:
        return [-1]          # recursion: assume it can
    seen, work, rets = set(), [0], []
    calls = {c.bb: c for c in fn.calls}
    while work:
        b = work.pop()
        if b in seen:
            continue
        seen.add(b)
        if fn.blocks[b]['t']['t'] == 'ret':
            rets.append(b)
            continue
        c = calls.get(b)
        nxt = list(fn.succs(b))
        if c is not None and not c.indirect:
            gs = prog.callee_fns(c)
            if gs and all(g.kind != 'Closure' and not can_return(prog, g, memo, _stack + (fn.path,)) for g in gs):
                nxt = [t for t in nxt if t != c.target]
        work.extend(nxt)
    memo[fn.path] = rets
    return rets


# ---- errors of a phase are returned, not raised (R4) ------------------------------------------------------
PANICKING_CALLS = ('std::option::Option::<T>::unwrap', 'std::result::Result::<T, E>::unwrap', 'std::option::Option::<T>::expect',
                   'std::result::Result::<T, E>::expect', 'std::result::Result::<T, E>::unwrap_err', 'std::result::Result::<T, E>::expect_err',
                   'std::result::Result::<T, E>::unwrap_unchecked', 'std::option::Option::<T>::unwrap_unchecked')
PANIC_FNS = ('core::panicking::panic', 'core::panicking::panic_fmt', 'std::rt::begin_panic', 'core::panicking::panic_display',
             'core::panicking::unreachable_display', 'core::panicking::panic_explicit', 'std::rt::panic_fmt')


def raised_errors(prog, sl, fns):
    """[(Call, what)] for the places in fns where a failure is turned into a panic / a diverging handler instead of
    being returned: unwrap / expect on a value that is not a literal success, explicit panics, `unwrap_or_else(<handler
    that never returns>)`"""
    out = []
    for f in fns:
        live = f.reachable(0)
        for c in f.calls:
            if c.indirect or c.bb not in live or f.blocks[c.bb].get('cleanup'):
                continue
            names = c.names()
            if names & set(PANICKING_CALLS):
                r = sl.operand(f, c.args[0])
                while r[0] == 'updated':
                    r = r[1]
                if r[0] == 'agg' and r[2] in ('Some', 'Ok'):
                    continue
                out.append((c, '%s on a fallible value' % _last(c.name)))
            elif names & set(PANIC_FNS):
                out.append((c, 'explicit panic'))
            elif _last(c.name or '') in ('unwrap_or_else', 'map_or_else', 'or_else') and (c.decl or '').startswith(('std::result::Result::', 'std::option::Option::')):
                for a in c.args[1:]:
                    if diverging_handler(prog, sl.operand(f, a)):
                        out.append((c, 'handler that never returns'))
    return out


# ---- paths built by pushing (`let mut p = dir.to_path_buf(); p.push(name)` is `dir.join(name)`) ---------------------
# lib/value models every string-like value built through `&mut x` appends as ('concat', base, pushed, fresh) and does
# not say which append it was: PathBuf::push (a path join: a separator goes in between, an absolute component replaces)
# or String / OsString pushes (plain text concatenation: `<dir><name>` is another file).  The appending calls are looked
# up where the value was built.
PATH_PUSH = 'std::path::PathBuf::push'
JOIN = 'std::path::Path::join'


class PathPushes:
    """which ('concat', ..) values of the functions `fns` are paths extended by PathBuf::push"""

    def __init__(self, prog, sl, fns):
        self.sl = sl
        self.known = set()
        self.only = True        # no other kind of append anywhere in fns: every concat seen from there is a path join
        for g in fns:
            if g is None:
                continue
            sl._appends(g, -1)
            for local, calls in (sl._cache.get(('appends', g.path)) or {}).items():
                if all(c.name == PATH_PUSH for c in calls):
                    v = strip(sl.local(g, local))
                    if v[0] == 'concat':
                        self.known.add(v)
                        self.known.add(strip(sl.inline_deep(v)))
                else:
                    self.only = False

    def join_form(self, v):
        """v with every path built by PathBuf::push rewritten as nested Path::join calls"""
        if not isinstance(v, tuple) or not v or v[0] in _LEAVES:
            return v
        out = tuple(self.join_form(x) if isinstance(x, tuple) else x for x in v)
        if v[0] == 'concat' and (self.only or v in self.known or strip(self.sl.inline_deep(v)) in self.known):
            parts = list(out[2])
            if out[3]:
                if not parts:
                    return out
                acc = parts.pop(0)          # pushing onto the empty path gives the pushed path
            else:
                acc = out[1]
            for p in parts:
                acc = ('call', JOIN, (acc, p), None)
            return acc
        return v if out == v else out


def path_pushes(prog, sl, roots):
    return PathPushes(prog, sl, list(prog.reach([r for r in roots if r is not None]).values()))


# ---- SBOM path function (R4) --------------------------------------------------------------------------
def sbom_path_shape(prog, sl, f):
    """(problems, table) for `cnb_sbom_path(format, dir, name)`: the result is `dir` joined with ONE component built from
    `name` and a per-format text that is defined for every format and different for any two formats"""
    v = strip(path_pushes(prog, sl, [f]).join_form(strip(sl.inline_deep(sl.local(f, 0)))))
    probs = []
    if not (v[0] == 'call' and v[1] in ('std::path::Path::join', 'std::path::PathBuf::join') and len(v[2]) == 2):
        return ['result is not <dir>.join(<file name>): %s' % v[0]], {}
    if f.argc != 3:
        return ['unexpected parameter count'], {}
    par = lambda i: ('param', f.path, i, f.local_name(i + 1))
    if strip(v[2][0]) != par(1):
        probs.append('the directory is not the given base directory')
    name = strip(v[2][1])
    pieces = list(name[1]) if name[0] == 'fmt' else [p for p in concat_pieces(name)]
    if not any(isinstance(p, tuple) and strip(p) == par(2) for p in pieces):
        probs.append('the file name does not contain the given base name')
    if any(isinstance(p, str) and ('/' in p) for p in pieces):
        probs.append('the file name contains a path separator')
    sels = [strip(p) for p in pieces if isinstance(p, tuple) and strip(p)[0] == 'select']
    table = {}
    if len(sels) != 1 or strip(sels[0][1]) != par(0):
        probs.append('no per-format component selected by the given format')
        return probs, table
    sel = sels[0]
    adt = prog.adts.get(sel[2])
    allv = sorted(x['name'] for x in adt['variants']) if adt else []
    for names, val in sel[3]:
        val = strip(val)
        for n in names:
            table[n] = val[1] if val[0] == 'const' else None
    if sorted(table) != allv or not allv:
        probs.append('formats covered %s, expected %s' % (sorted(table), allv))
    vals = list(table.values())
    if any(x is None for x in vals) or len(set(vals)) != len(vals):
        probs.append('two formats share a file name: %s' % table)
    return probs, table


def concat_pieces(v):
    if v[0] == 'concat':
        yield v[1]
        for p in v[2]:
            yield p
    else:
        yield v


# ---- which file-system changes count as "outputs" (R4 no-other-mutation) ---------------------------------------
PATH_STEPS = ('join', 'parent', 'with_file_name', 'with_extension', 'to_path_buf', 'as_path', 'new', 'from')


def elsewhere(v, fn):
    """the path value v names a fixed absolute location that does not depend on the phase's arguments (e.g. the
    telemetry directory under /tmp of the `trace` feature): not one of the places the lifecycle passes / observes"""
    if v is None:
        return False
    if any(x[0] == 'param' and x[1] == fn.path for x in walk(v)):
        return False
    v = strip(v)
    for _ in range(12):
        if v[0] == 'const':
            return isinstance(v[1], str) and v[1].startswith('/')
        if v[0] == 'call' and v[2] and _last(v[1]) in PATH_STEPS:
            v = strip(v[2][0])
            continue
        return False
    return False


def descriptor_reader(prog, E, E_rt, rt, rd, rb, baseline):
    """the private function that reads buildpack.toml for the gate and for both phases.  Under its baseline name when that
    exists; otherwise found by its role: the outermost private libcnb function that lies on the call chain of the READ of
    `<..>/buildpack.toml` from libcnb_runtime, libcnb_runtime_detect and libcnb_runtime_build alike (two helpers merged
    into one that returns (directory, descriptor), a renamed / re-homed read).  The obligations stated on it (path of the
    file, Ok needed at the gate, `?`-propagation into the contexts) are unchanged."""
    if baseline in prog.fns:
        return baseline
    from .lib.value import walk as _walk
    per_entry = []
    for ent, EE in ((rt, E_rt), (rd, E), (rb, E)):
        names = []
        for e in EE.expand(ent, 'may'):
            if e.kind != 'READ' or e.path is None or not any(x == ('const', 'buildpack.toml') for x in _walk(e.path)):
                continue
            for l in e.chain:
                n = getattr(l, 'call', l).name
                g = prog.fns.get(n)
                if g is not None and g.crate == 'libcnb' and g.kind != 'Closure' and g.path not in (rt.path, rd.path, rb.path) and n not in names:
                    names.append(n)
        per_entry.append(names)
    common = [n for n in per_entry[0] if all(n in ns for ns in per_entry[1:])]
    return common[0] if common else baseline


CALL_CLOSURE = ('call_once', 'call_mut', 'call')


def closure_invocation(E, e):
    """effect e sits in a closure K that was handed as an argument to a private function g (last link of e's chain) which
    calls it itself (`fn from_phase_result(r, on_error: impl FnOnce(E)) -> i32 { match r { Err(e) => { on_error(e); 1 } .. } }`).
    Returns (g, c2, m, bind) — the single call site c2 in g of the parameter K was passed for, the bindings m of g's
    parameters in the entry function's terms and the bindings of K's parameters to what c2 passes, in entry terms — or None
    (K not passed to a private function, called from several places / not at all, passed on, kept)."""
    if not e.chain or e.call is None or e.call.fn.kind != 'Closure':
        return None
    K = e.call.fn
    l = e.chain[-1]
    call, lm = getattr(l, 'call', l), getattr(l, 'mapping', None) or {}
    prog, sl = E.prog, E.slicer
    g = prog.fns.get(call.name)
    if g is None or g.kind == 'Closure' or call.indirect:
        return None
    ks = [i for i, a in enumerate(call.args) if i < g.argc and strip(sl.operand(call.fn, a))[0] == 'closure' and strip(sl.operand(call.fn, a))[1] == K.path]
    if len(ks) != 1:
        return None
    k = ks[0]
    is_k = lambda v: strip(v)[0] == 'param' and strip(v)[1] == g.path and strip(v)[2] == k
    uses, sites = 0, []
    for c2 in g.calls:
        vals = [sl.operand(g, a) for a in c2.args]
        if not any(is_k(v) or any(is_k(x) for x in walk(v)) for v in vals):
            continue
        uses += 1
        if (c2.name or '').rsplit('::', 1)[-1] in CALL_CLOSURE and vals and is_k(vals[0]) and len(vals) == 2 and c2.bb in g.reachable(0):
            sites.append((c2, vals[1]))
    if uses != 1 or len(sites) != 1:
        return None
    c2, tup = sites[0]
    m = E.call_mapping(call.fn, call, g, lm)
    tup = strip(E.subst(tup, m))
    if tup[0] != 'tuple':
        return None
    bind = {(K.path, 1 + j): x for j, x in enumerate(tup[1])}
    return g, c2, m, bind


ERR_ONLY = ('std::result::Result::<T, E>::inspect_err', 'std::result::Result::<T, E>::map_err')


def outcomes_body(E, fn):
    """outcomes(E, fn), looking through `body(..).inspect_err(f)` / `.map_err(f)`: when what fn returns at a success site is
    the Result of ONE call of a private function seen through adapters that only touch the Err side, fn succeeds exactly
    when that function does and with its value, so the outcomes are the function's own (effects, decisions and values in
    fn's terms) on top of what fn did on the way to the call.  Each such outcome carries .body_fn / .body_map / .body_call."""
    from .lib.effects import outcomes, Outcome, Link
    prog = E.prog
    res = []
    for o in outcomes(E, fn):
        x = o.value
        while x[0] == 'call' and x[1] in ERR_ONLY and x[2]:
            x = x[2][0]
        g = prog.fns.get(x[1]) if x is not o.value and x[0] == 'call' and isinstance(x[1], str) and len(x) > 3 and x[3] else None
        site = o.sites[-1]
        c = fn.call_at(x[3][1]) if g is not None and len(o.sites) == 1 and x[3][0] == fn.path else None
        if g is None or c is None or g.kind == 'Closure' or g.vis == 'pub' or g.crate != fn.crate or g.path == fn.path \
                or c.name != g.path or not fn.dominates(c.bb, site.bb) or fn.in_loop(c.bb):
            res.append(o)
            continue
        m = E.call_mapping(fn, c, g, {})
        own_must = [e for e in o.must if not (e.level == 0 and e.level_bb == c.bb)]
        own_may = [e for e in o.may if not (e.level == 0 and e.level_bb == c.bb)]
        for sub in outcomes(E, g, m, (Link(c, {}),), (fn.path,)):
            n = Outcome(sub.value, own_must + sub.must, own_may + sub.may, list(o.conds) + list(sub.conds), tuple(o.sites) + tuple(sub.sites))
            n.body_fn, n.body_map, n.body_call = g, m, c
            res.append(n)
    return res
