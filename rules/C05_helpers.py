"""C05 helpers — spelling-independent views of libcnb_runtime's decisions.

  norm()            value normal form: private helpers inlined (inline_deep) and `r.unwrap_or_else(<diverging handler>)`
                    read as the success payload of r (it only yields a value when r was Ok / Some)
  eq_views()        an equality decision `a == b` / `!(a != b)` in either operand order, also through boolean helpers
  code_rows()       arm table of an exit-code value: `match r {Ok(c) => c, Err(e) => {..; 1}}`,
                    `r.unwrap_or_else(|e| {..; 1})`, `r.map_or_else(|e| {..; 1}, |c| c)` and `r.unwrap_or(1)` give the same rows
  SynthCond         the decision a Result combinator takes on behalf of the code (closure runs exactly on Err)
"""
from .lib.discard import diverges
from .lib.paths import strip
from .lib.value import walk

RESULT = 'std::result::Result'


def alts(v):
    return list(v[1]) if v[0] == 'phi' else [v]


class SynthCond:
    """decision implied by a combinator on `subject` (a Result): looks like a guards.Cond of kind 'variant'"""
    kind = 'variant'
    synthetic = True

    def __init__(self, fn, subject, outcome, enum=RESULT):
        self.fn = fn
        self.subject = subject
        self.value = ('discr', subject)
        self.outcome = frozenset({outcome})
        self.enum = enum
        self.sw_bb = None
        self.target = None

    def views(self):
        return [(self.value, self.outcome)]

    def __repr__(self):
        return 'SynthCond(%s is %s)' % (self.subject[0], sorted(self.outcome))


def handler_fn(prog, clv):
    clv = strip(clv)
    if clv[0] in ('closure', 'fnitem') and clv[1] in prog.fns:
        return prog.fns[clv[1]]
    return None


def diverging_handler(prog, clv):
    g = handler_fn(prog, clv)
    return g is not None and diverges(g)


def _is_uoe(v):
    return v[0] == 'call' and isinstance(v[1], str) and v[1].endswith('::unwrap_or_else') and \
        v[1].startswith(('std::result::Result::', 'std::option::Option::')) and len(v[2]) == 2


def _peel(prog, sl, v):
    if not isinstance(v, tuple) or not v:
        return v
    if v[0] in ('const', 'param', 'fnitem', 'constitem', 'unknown', 'closure_env', 'upvar'):
        return v
    out = tuple(_peel(prog, sl, x) if isinstance(x, tuple) else x for x in v)
    if _is_uoe(out) and diverging_handler(prog, out[2][1]):
        return sl.mk_unwrap(out[2][0], 1)
    if out == v:
        return v
    if out[0] == 'unwrap':
        return sl.mk_unwrap(out[1], 1)
    if out[0] == 'field':
        return sl._field(out[1], out[2])
    return out


def norm(prog, sl, v, keep=()):
    """normal form of v: calls to private workspace functions (not in keep) replaced by what they return, and
    `x.unwrap_or_else(h)` with a handler h that never returns replaced by the success payload of x"""
    return _peel(prog, sl, sl.inline_deep(v, keep=keep))


def diverging_unwraps(prog, sl, v, keep=()):
    """[(x, handler Fn)] for every `x.unwrap_or_else(handler that never returns)` inside v (helpers inlined)"""
    out = []
    for x in walk(sl.inline_deep(v, keep=keep)):
        if _is_uoe(x) and diverging_handler(prog, x[2][1]):
            out.append((x[2][0], handler_fn(prog, x[2][1])))
    return out


def eq_views(cd):
    """[(a, b)] for every reading of decision cd as `a == b` holding (`==` taken / `!=` not taken; PartialEq impls of
    the compared type by their resolved or declared name; boolean helpers looked through by Cond.views)"""
    out = []
    if cd.kind != 'bool':
        return out
    for v, oc in cd.views():
        if v[0] != 'call' or 'PartialEq' not in v[1] or len(v[2]) != 2:
            continue
        if (v[1].endswith('::eq') and oc is True) or (v[1].endswith('::ne') and oc is False):
            out.append((v[2][0], v[2][1]))
    return out


def code_rows(prog, sl, fn, v, conds, is_result, via=None, depth=0):
    """rows (kind 'const'|'result'|'other', value, conds, via) of an exit-code value.  is_result(r): r is the phase
    Result whose Ok payload may be forwarded.  `via` is the error-handler closure (Fn) that produced the row's value."""
    v = strip(v) if v[0] != 'unwrap' else v
    if v[0] == 'phi':
        for a in v[1]:
            yield from code_rows(prog, sl, fn, a, conds, is_result, via, depth)
        return
    if v[0] == 'const':
        yield ('const', v, conds, via)
        return
    if v[0] == 'unwrap' and is_result(v[1]):
        yield ('result', v, conds, via)
        return
    if v[0] == 'call' and isinstance(v[1], str) and v[1].startswith('std::result::Result::') and depth < 3 and v[2] and is_result(v[2][0]):
        r = v[2][0]
        n = v[1].rsplit('::', 1)[-1]
        okc, errc = SynthCond(fn, r, 'Ok'), SynthCond(fn, r, 'Err')
        okv = errv = ecl = None
        if n == 'unwrap_or_else' and len(v[2]) == 2:
            okv, ecl = ('unwrap', r), v[2][1]
        elif n == 'map_or_else' and len(v[2]) == 3:
            okv, ecl = sl.apply_closure(strip(v[2][2]), (('unwrap', r),)), v[2][1]
        elif n == 'unwrap_or' and len(v[2]) == 2:
            okv, errv = ('unwrap', r), v[2][1]
        elif n == 'map_or' and len(v[2]) == 3:
            okv, errv = sl.apply_closure(strip(v[2][2]), (('unwrap', r),)), v[2][1]
        if okv is not None:
            eg = handler_fn(prog, ecl) if ecl is not None else None
            if ecl is not None:
                errv = sl.apply_closure(strip(ecl), (('unwrap_err', r),)) if eg is not None else None
            if eg is not None and diverges(eg):
                # the handler never returns a code: its exits are rows of their own (EXIT effects inside the closure)
                yield from code_rows(prog, sl, fn, okv, conds + [okc], is_result, via, depth + 1)
                return
            if errv is not None:
                yield from code_rows(prog, sl, fn, okv, conds + [okc], is_result, via, depth + 1)
                yield from code_rows(prog, sl, fn, errv, conds + [errc], is_result, eg if eg is not None else via, depth + 1)
                return
    yield ('other', v, conds, via)


def _replace(v, old, new):
    if v == old:
        return new
    if not isinstance(v, tuple) or not v:
        return v
    return tuple(_replace(x, old, new) if isinstance(x, tuple) else x for x in v)


def err_closure_payload(E, e):
    """(args, implied) of effect e with the payload of `r.map_or_else(|err| .., |ok| ..)`'s *first* closure read as the
    Err payload of r.  (lib/effects binds the parameter of every closure handed to map_or_else to the Ok payload; for
    Result::map_or_else the default closure receives the error.)"""
    args, implied = tuple(e.args or ()), tuple(e.implied or ())
    levels = list(e.chain) + [e.call]
    for i, l in enumerate(e.chain):
        call = getattr(l, 'call', l)
        d = call.decl or ''
        if not (d.startswith('std::result::Result::') and d.endswith('::map_or_else')) or len(call.args) != 3:
            continue
        sl = E.slicer
        clv = strip(sl.operand(call.fn, call.args[1]))
        if clv[0] != 'closure' or clv[1] != levels[i + 1].fn.path:
            continue
        recv = E.subst(sl.operand(call.fn, call.args[0]), getattr(l, 'mapping', None) or {})
        old, new = ('unwrap', sl._ok_core(recv)), ('unwrap_err', recv)
        args = tuple(_replace(a, old, new) for a in args)
        implied = tuple(_replace(x, old, new) for x in implied)
    return args, implied
