"""C09 — validated identifiers and versions accept exactly the spec grammar.

Decided:
  R1 language        for each validating newtype the regex constant found in FromStr::from_str is compared
                     with the spec grammar as a *language*: MUST-ACCEPT is included, MUST-REJECT is disjoint
                     (automata product over all valid-UTF-8 strings, engine regexlang; shortest counter-example
                     printed)
  R2 one regex       the literal macro generated for the type carries the same regex constant
  R3 acceptor        Deserialize = String -> parse::<T>; the tuple constructor is used only under the `true`
                     edge of the regex match in from_str and in new_unchecked; new_unchecked is only called
                     from expansions of the literal macro; regex errors count as non-match
  R4 proc-macro      verify_regex selects the matched expression on the true edge of is_match(..).unwrap_or(false);
                     the literal macro's unmatched expression is compile_error!
  R5 identity        stored string <- input slice; Display writes field 0; Serialize is the transparent newtype
  R6 versions        BuildpackVersion: split on '.', exactly 3 parts, leading-zero rejection, integer parse guarded
                     against a sign; BuildpackApi: split_once('.'), default minor "0", both parts parsed under the
                     same guard, errors rejected; Display templates in field order
Not decided: the u64 overflow boundary; display/parse being inverse for all triples (core formatting trusted).
"""
import json
import os
import re
import subprocess
from .lib.guards import conditions
from .lib.paths import strip
from .lib.tables import arm_defs
from .lib.value import vstr, walk

VER = 'libcnb_data::buildpack::version::BuildpackVersion'
API = 'libcnb_data::buildpack::api::BuildpackApi'


def regexlang(ctx, jobs):
    exe = os.path.join(ctx.root, 'regexlang', 'target', 'release', 'regexlang')
    if not os.path.exists(exe):
        r = subprocess.run(['cargo', 'build', '--release', '--offline'], cwd=os.path.join(ctx.root, 'regexlang'),
                           stdout=subprocess.PIPE, stderr=subprocess.STDOUT, text=True, env=dict(os.environ, CARGO_NET_OFFLINE='true'))
        if r.returncode != 0:
            raise RuntimeError('cannot build regexlang: ' + r.stdout[-2000:])
    inp = ''.join('%s\t%s\t%s\t%s\n' % j for j in jobs)
    r = subprocess.run([exe], input=inp, stdout=subprocess.PIPE, stderr=subprocess.PIPE, text=True)
    out = {}
    for line in r.stdout.splitlines():
        try:
            d = json.loads(line)
            out[d['id']] = d
        except ValueError:
            pass
    return out


def regex_in_from_str(prog, sl, f):
    """regex constants flowing into fancy_regex::Regex::new inside from_str"""
    res = []
    for g in [f] + prog.closures_of(f):
        for c in g.calls:
            if c.is_('fancy_regex::Regex::new'):
                v = strip(sl.operand(g, c.args[0]))
                res.append(v[1] if v[0] == 'const' else None)
    return res


def digit_guard(prog, sl, fn, bb, parsed_value):
    """is the block guarded by a digits-only / no-sign test of the parsed string"""
    for cd in conditions(fn, bb, sl):
        if cd.kind != 'bool' or cd.value[0] != 'call':
            continue
        n = cd.value[1]
        if n == 'std::iter::Iterator::all' and cd.outcome is True and len(cd.value[2]) == 2:
            src, cl = strip(cd.value[2][0]), strip(cd.value[2][1])
            if src[0] == 'call' and src[1] in ('core::str::<impl str>::bytes', 'core::str::<impl str>::chars') and strip(src[2][0]) == strip(parsed_value):
                if cl[0] == 'closure' and cl[1] in prog.fns:
                    body = prog.fns[cl[1]]
                    bv = strip(sl.local(body, 0))
                    if bv[0] == 'call' and bv[1].endswith('is_ascii_digit') and strip(bv[2][0])[0] == 'param':
                        return 'all(is_ascii_digit)'
        if n == 'core::str::<impl str>::starts_with' and cd.outcome is False and strip(cd.value[2][0]) == strip(parsed_value):
            pat = strip(cd.value[2][1])
            if pat == ('const', '+'):
                return "!starts_with('+')"
    return None


def run(ctx, rep):
    prog, sl = ctx.prog, ctx.slicer
    for r, d in (('R1', 'regex language vs spec grammar (inclusion / disjointness over all strings)'), ('R2', 'FromStr regex = literal-macro regex'),
                 ('R3', 'acceptor discipline: constructor only behind the regex match; Deserialize via parse'), ('R4', 'proc-macro polarity and compile_error! on mismatch'),
                 ('R5', 'accepted value is stored, displayed and serialised unchanged'), ('R6', 'version / API parsing shape incl. sign guard')):
        rep.rule(r, d)
    rep.not_decided = ['u64 overflow boundary', 'display/parse inverse for all u64 triples (core formatting trusted)',
                       'LayerName strings containing /, NUL or newline (spec-silent, see DESIGN §9)']
    T = ctx.table('c09_grammar.json')
    jobs = []
    info = {}
    for t, spec in T['types'].items():
        f = prog.fns.get('<%s as std::str::FromStr>::from_str' % t)
        if f is None:
            rep.unproven('R1', t, '-', 'FromStr impl not found')
            continue
        rep.analysed(f)
        rx = regex_in_from_str(prog, sl, f)
        where = '%s:%d' % (f.file, f.line)
        if len(rx) != 1 or rx[0] is None:
            rep.unproven('R1', t + '/regex', where, 'expected one constant regex in from_str, found %s' % rx)
            continue
        info[t] = (f, rx[0], where)
        jobs.append((t, rx[0], spec['accept'], spec['reject']))
    res = regexlang(ctx, jobs) if jobs else {}
    rep.extra['regex_results'] = res
    for t, (f, rx, where) in info.items():
        d = res.get(t)
        if d is None:
            rep.unproven('R1', t + '/language', where, 'regexlang produced no verdict')
            continue
        if not d.get('supported'):
            rep.unproven('R1', t + '/language', where, 'regex %r is outside the decidable subset: %s' % (rx, d.get('reason')))
            continue
        rep.check(d['accept_included'], 'R1', t + '/must-accept', where, 'every spec-valid string is accepted by %r' % rx,
                  'spec-valid string %s is rejected by %r' % (json.dumps(d.get('accept_cex')), rx), d)
        rep.check(d['reject_disjoint'], 'R1', t + '/must-reject', where, 'no spec-invalid string is accepted by %r' % rx,
                  'spec-invalid string %s is accepted by %r' % (json.dumps(d.get('reject_cex')), rx), d)
    # ---- R2 -----------------------------------------------------------------------------------------
    for t, spec in T['types'].items():
        if t not in info:
            continue
        f, rx, where = info[t]
        ms = [m for m in prog.macros if m['name'] == spec['macro'] and m['crate'] == 'libcnb_data']
        if len(ms) != 1:
            rep.unproven('R2', t, where, 'literal macro %s! not found' % spec['macro'])
            continue
        body = ms[0]['body']
        m = re.search(r'verify_regex\s*!\s*\(\s*r(#*)"(.*?)"\1\s*,', body, re.S)
        lit = m.group(2) if m else None
        rep.check(lit == rx and ms[0]['exported'], 'R2', t, '%s:%s' % (ms[0]['file'], ms[0]['line']), '%s! validates with the same regex' % spec['macro'],
                  'literal macro %s! uses regex %r, from_str uses %r' % (spec['macro'], lit, rx))
        # R4 (macro side): unmatched expression is compile_error!
        after = body[m.end():] if m else ''
        short = t.split('::')[-1]
        ok = ('compile_error' in after) and (short + ' ::         new_unchecked' in after or re.search(re.escape(short) + r'\s*::\s*new_unchecked', after) is not None)
        order_ok = ok and after.index('new_unchecked') < after.index('compile_error')
        rep.check(order_ok, 'R4', 'macro/' + t, '%s:%s' % (ms[0]['file'], ms[0]['line']), 'matched => new_unchecked, unmatched => compile_error!',
                  'literal macro does not pair (matched => constructor, unmatched => compile_error!)')
    # ---- R3 / R5 ------------------------------------------------------------------------------------
    for t in T['types']:
        if t not in info:
            continue
        f, rx, where = info[t]
        short = t.split('::')[-1]
        nu = prog.fns.get('%s::new_unchecked' % t)
        ctor_sites = []
        for g in prog.fns.values():
            if g.derived:
                continue
            for bi, b in enumerate(g.blocks):
                for st in b['s']:
                    if st[0] == '=' and st[2]['r'] == 'agg' and st[2].get('adt') == t:
                        ctor_sites.append((g, bi, st))
            for c in g.calls:
                for a in c.args:
                    k = a.get('k') if isinstance(a, dict) else None
                    if k and k.get('fn') == t and k.get('defkind', '').startswith('Ctor'):
                        ctor_sites.append((g, c.bb, None))
        allowed = {f.path, '%s::new_unchecked' % t}
        stray = [g.path for g, bi, st in ctor_sites if g.path not in allowed]
        rep.check(not stray, 'R3', t + '/constructor-sites', where, 'tuple constructor used only in from_str and new_unchecked', 'unvalidated construction of %s in %s' % (short, stray))
        for g, bi, st in ctor_sites:
            if g.path == f.path and st is not None:
                # the constructor runs only when is_match(Regex::new(<literal>), <input>) is Ok(true); every spelling of
                # "errors count as non-match" reduces to a true-branch on the success payload of that call:
                #   Regex::new(..).and_then(|r| r.is_match(v)).unwrap_or(false)   /   match r.is_match(v) { Ok(true) => .. }
                good = False
                for cd in conditions(f, bi, sl):
                    if cd.kind != 'bool' or cd.outcome is not True:
                        continue
                    v = cd.value
                    if v[0] == 'call' and v[1].endswith('unwrap_or') and len(v[2]) == 2 and strip(v[2][1]) == ('const', False):
                        v = sl.mk_unwrap(v[2][0], 1)
                    if v[0] != 'unwrap':
                        continue
                    m = strip(v)
                    if m[0] == 'call' and m[1] == 'fancy_regex::Regex::is_match' and len(m[2]) == 2:
                        rxv, inp = m[2][0], strip(m[2][1])
                        has_new = rxv[0] == 'unwrap' and strip(rxv)[0] == 'call' and strip(rxv)[1] == 'fancy_regex::Regex::new'
                        good = good or (has_new and inp[0] == 'param' and inp[1] == f.path and inp[2] == 0)
                rep.check(good, 'R3', t + '/guard', where, 'constructed only when Regex::new(..).and_then(is_match(value)).unwrap_or(false) is true',
                          'the constructor in from_str is not guarded by the regex match (errors must count as non-match)')
                v = sl._rvalue(f, st[2], set(), 0, None)
                sv = strip(dict(v[3]).get('0', ('unknown',)))
                rep.check(sv[0] == 'param' and sv[2] == 0, 'R5', t + '/stored', where, 'stored string <- input slice, unmodified', 'stored value is ' + vstr(sv)[:80])
        # Deserialize via parse
        ds = prog.find(r"^<%s as .*Deserialize<'de>>::deserialize$" % re.escape(t))
        ok = False
        if len(ds) == 1:
            rep.analysed(ds[0])
            fulls = {c.full for c in ds[0].calls if c.full}
            via_parse = any(('parse::<%s>' % t) in n for n in fulls) or any(c.res == f.path or c.name == f.path for c in ds[0].calls)
            ok = via_parse and any('for std::string::String>::deserialize' in n for n in fulls) and not any('new_unchecked' in n for n in fulls)
        rep.check(ok, 'R3', t + '/deserialize', where, 'Deserialize = String::deserialize -> parse::<%s>' % short, 'Deserialize for %s does not go through parse' % short)
        # new_unchecked callers only from the literal macro
        mname = T['types'][t]['macro']
        sites = [c for c in prog.callers().get('%s::new_unchecked' % t, []) if c.name == '%s::new_unchecked' % t]
        bad = [c.where() for c in sites if not (c.exp and mname in c.macros)]
        rep.check(not bad, 'R3', t + '/new_unchecked-callers', where, '%d call site(s) of new_unchecked, all from %s! expansions' % (len(sites), mname),
                  'new_unchecked is called outside the literal macro at %s' % bad)
        # Display / Serialize
        dsp = prog.fns.get('<%s as std::fmt::Display>::fmt' % t)
        ok = False
        if dsp is not None:
            v = strip(sl.local(dsp, 0))
            fm = next((x for x in walk(v) if x[0] == 'fmt'), None)
            ok = fm is not None and len(fm[1]) == 1 and not isinstance(fm[1][0], str) and strip(fm[1][0])[0] == 'field' and strip(fm[1][0])[2] == '0'
        rep.check(ok, 'R5', t + '/display', where, 'Display writes the stored string', 'Display does not write field 0 verbatim')
        from .lib import serde_schema as S
        se = S.ser_struct(prog, sl, t)
        rep.check(se is not None and se['kind'] == 'newtype', 'R5', t + '/serialize', where, 'Serialize is the transparent newtype', 'Serialize for %s is not the transparent newtype' % short)
    # ---- R4 proc macro --------------------------------------------------------------------------------
    vr = prog.fn('libcnb_proc_macros::verify_regex')
    rep.analysed(vr)
    table = {}
    for loc in range(len(vr.locals)):
        if len(vr.whole_defs(loc)) < 2:
            continue
        rows = arm_defs(vr, loc, sl)
        vals = {}
        for bi, v, conds in rows:
            v = strip(v)
            if v[0] == 'field' and v[2] in ('expression_when_matched', 'expression_when_unmatched'):
                cd = [c for c in conds if c.kind == 'bool' and c.value[0] == 'call' and c.value[1].endswith('unwrap_or')]
                if cd:
                    inner = strip(cd[-1].value[2][0])
                    if inner[0] == 'call' and inner[1] == 'fancy_regex::Regex::is_match' and strip(cd[-1].value[2][1]) == ('const', False):
                        vals[cd[-1].outcome] = v[2]
        if vals:
            table = vals
    rep.check(table == {True: 'expression_when_matched', False: 'expression_when_unmatched'}, 'R4', 'proc-macro/polarity', '%s:%d' % (vr.file, vr.line),
              'is_match(..).unwrap_or(false): true => matched expression, false => unmatched', 'verify_regex selects %s' % table)
    # ---- R6 versions ------------------------------------------------------------------------------------
    all_parses = {}
    for t, nparts in ((VER, 3), (API, 2)):
        tf = prog.fns.get('<%s as std::convert::TryFrom<std::string::String>>::try_from' % t)
        short = t.split('::')[-1]
        if tf is None:
            rep.unproven('R6', short, '-', 'TryFrom<String> impl not found')
            continue
        rep.analysed(tf)
        where = '%s:%d' % (tf.file, tf.line)
        fns = [tf] + prog.closures_of(tf)
        parses = []
        for g in fns:
            for c in g.calls:
                if c.full and (c.full.endswith('parse::<u64>') or c.full == '<u64 as std::str::FromStr>::from_str'):
                    parses.append((g, c))
        all_parses[t] = parses
        rep.check(len(parses) >= 1, 'R6', short + '/parse-sites', where, '%d integer parse site(s)' % len(parses), 'no integer parse found')
        for i, (g, c) in enumerate(parses):
            pv = sl.operand(g, c.args[0])
            gd = digit_guard(prog, sl, g, c.bb, pv)
            rep.check(gd is not None, 'R6', '%s/sign-guard#%d' % (short, i), c.where(), 'integer parse guarded by %s' % gd,
                      'u64::from_str accepts a leading "+": the parse of a version component is not guarded by a digits-only test, so e.g. "+1" is accepted',
                      {'function': g.path})
        # deserialize via try_from
        ds = prog.find(r"Deserialize<'de> for %s>::deserialize$" % re.escape(t))
        ok = len(ds) == 1 and any(c.full and c.full.startswith('<%s as std::convert::TryFrom<std::string::String>>::try_from' % t)
                                  for g in [ds[0]] + prog.closures_of(ds[0]) for c in g.calls) and \
            any(c.full and 'for std::string::String>::deserialize' in c.full for c in ds[0].calls)
        rep.check(ok, 'R6', short + '/deserialize', where, 'Deserialize via TryFrom<String>', 'Deserialize does not go through try_from')
        # Display template
        dsp = prog.fns.get('<%s as std::fmt::Display>::fmt' % t)
        fields = ['major', 'minor', 'patch'][:nparts]
        ok = False
        if dsp is not None:
            fm = None
            for c in dsp.calls:
                for a in c.args:
                    v = sl.operand(dsp, a)
                    fm = fm or next((x for x in walk(v) if x[0] == 'fmt'), None)
            if fm is not None:
                want = []
                for i, fl in enumerate(fields):
                    if i:
                        want.append('.')
                    want.append(fl)
                got = [p if isinstance(p, str) else (strip(p)[2] if strip(p)[0] == 'field' else '?') for p in fm[1]]
                ok = got == want
        rep.check(ok, 'R6', short + '/display', where, 'Display = %s' % '.'.join('{%s}' % x for x in fields), 'Display template does not print %s in order' % fields)
    # BuildpackVersion specifics: split('.'), exactly 3 parts, leading zero rejection
    tf = prog.fns.get('<%s as std::convert::TryFrom<std::string::String>>::try_from' % VER)
    if tf is not None:
        where = '%s:%d' % (tf.file, tf.line)
        sp = [c for c in tf.calls if c.name == 'core::str::<impl str>::split' and strip(sl.operand(tf, c.args[1])) == ('const', '.')]
        rep.check(len(sp) == 1, 'R6', 'BuildpackVersion/split', where, "split on '.'", "version is not split on '.'")
        oks = [d[1] for d in tf.whole_defs(0) if d[0] == 'stmt' and d[3]['r'] == 'agg' and d[3].get('variant') == 'Ok']
        good = bool(oks)
        for bi in oks:
            eq = [cd for cd in conditions(tf, bi, sl) if cd.kind == 'bool' and cd.outcome is True and cd.value[0] == 'bin' and cd.value[1] == 'Eq'
                  and strip(cd.value[3]) == ('const', 3)]
            good = good and bool(eq)
        rep.check(good, 'R6', 'BuildpackVersion/three-parts', where, 'Ok only for exactly 3 components', 'a version with a component count other than 3 can be accepted')
        # every component takes part in the decision: split('.') -> map(validate) -> collect::<Option<Vec<_>>>()
        # (one invalid component rejects the whole string); adapters that silently drop or truncate components
        # (map_while, filter_map, take_while, take, skip, flatten, ...) would accept "1.2.3.x" as 1.2.3
        its = [c for c in tf.calls if c.decl and c.decl.startswith('std::iter::Iterator::')]
        names = [c.decl.split('::')[-1] for c in its]
        coll = [c for c in its if c.decl.endswith('::collect')]
        all_or_nothing = names.count('map') == 1 and set(names) <= {'map', 'collect'} and len(coll) == 1 and \
            'collect::<std::option::Option<std::vec::Vec<' in (coll[0].full or '')
        rep.check(all_or_nothing, 'R6', 'BuildpackVersion/all-components', where, 'components: split -> map(validate) -> collect::<Option<Vec<_>>>: any invalid component rejects the version',
                  'the component pipeline is %s%s: invalid or surplus components can be dropped instead of rejecting the version (e.g. "1.2.3.x" accepted as 1.2.3)'
                  % (names, '' if not coll else ' collecting into ' + (coll[0].full or '').split('collect::')[-1][:60]))
        lz = False
        from .lib.mir import op_place
        for g in prog.closures_of(tf):
            for sb, blk in enumerate(g.blocks):
                t = blk['t']
                if t['t'] != 'switch' or t.get('oty') != 'bool':
                    continue
                v = strip(sl.operand(g, t['o']))
                if not (v[0] == 'call' and v[1].endswith(('::ne', '::eq')) and strip(v[2][1]) == ('const', '0')):
                    continue
                pre = any(cd.kind == 'bool' and cd.outcome is True and cd.value[0] == 'call' and cd.value[1] == 'core::str::<impl str>::starts_with'
                          and strip(cd.value[2][1]) == ('const', '0') for cd in conditions(g, sb, sl))
                if not pre:
                    continue
                # edge taken when the component starts with '0' and is not exactly "0"
                is_ne = v[1].endswith('::ne')
                tgt = None
                for val, tb in t['targets']:
                    if val == 0 and not is_ne:
                        tgt = tb
                if is_ne:
                    tgt = t['else'] if [x for x, _ in t['targets']] == [0] else None
                if tgt is None:
                    continue
                reach = g.reachable(tgt)
                mine = [c for gg, c in all_parses.get(VER, []) if gg.path == g.path]
                lz = bool(mine) and not any(c.bb in reach for c in mine)
        rep.check(lz, 'R6', 'BuildpackVersion/leading-zero', where, 'components with a redundant leading zero are rejected before parsing',
                  'leading-zero rejection (starts_with("0") && != "0" => reject) not found in front of the integer parse')
    tf = prog.fns.get('<%s as std::convert::TryFrom<std::string::String>>::try_from' % API)
    if tf is not None:
        where = '%s:%d' % (tf.file, tf.line)
        so = [c for c in tf.calls if c.name == 'core::str::<impl str>::split_once' and strip(sl.operand(tf, c.args[1])) == ('const', '.')]
        dv = [c for c in tf.calls if c.name and c.name.endswith('unwrap_or') and any(x == ('const', '0') for x in walk(sl.operand(tf, c.args[1])))]
        rep.check(len(so) == 1 and len(dv) == 1, 'R6', 'BuildpackApi/split', where, "split_once('.') with default minor \"0\"", 'API version is not split_once(".") with default minor "0"')
