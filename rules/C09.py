"""C09 — validated identifiers and versions accept exactly the spec grammar.

Decided:
  R1 language        for each validating newtype the regex constant reaching Regex::new from FromStr::from_str (directly or
                     as the argument of a private helper, lifted to from_str's call of it) is compared
                     with the spec grammar as a *language*: MUST-ACCEPT is included, MUST-REJECT is disjoint
                     (automata product over all valid-UTF-8 strings, engine regexlang; shortest counter-example
                     printed)
  R2 one regex       the literal macro generated for the type carries the same regex constant
  R3 acceptor        Deserialize: the success payload of deserialize is from_str / parse::<T> applied to the success payload
                     of String::deserialize (normal form of the returned value); the tuple constructor is used only in
                     from_str (its closures included) and new_unchecked, and in from_str every path to a construction (the
                     tuple constructor, or a call of new_unchecked, which stores its argument) decides
                     `is_match(Regex::new(<lit>)?, input) == Ok(true)` — by `if`, `match`, `bool::then`, directly or through
                     a private predicate (the ways through its body that return true); new_unchecked is otherwise only
                     called from expansions of the literal macro; regex errors count as non-match
  R4 proc-macro      every place in verify_regex (or a private helper of it) that picks expression_when_matched /
                     _unmatched is classified by the path conditions leading to it: matched <=> is_match == Ok(true) on all
                     paths, unmatched <=> excluded on all paths (unwrap_or(false), matches!, match arms alike);
                     the literal macro's unmatched expression is compile_error!
  R5 identity        stored string <- input slice; Display writes field 0; Serialize is the transparent newtype
  R6 versions        stated on the *validator* of each type (everything TryFrom<String> may enter in the crate: closures,
                     private helpers, fn items) and on the path conditions of its integer parses (C09_helpers.PathConds:
                     `||` chains, named booleans, early returns, bool::then closures, guards at the call sites of private
                     helpers): every parse is guarded by a digits-only / no-sign test of the parsed string and, for
                     BuildpackVersion, by !(starts_with('0') && != "0"); split on '.', exactly 3 components all of which are
                     validated (collect::<Option<Vec<_>>> + length 3, or three validated pulls from one iterator and a
                     fourth pull that is None, or a loop over split('.') that counts its iterations, runs to exhaustion
                     before any Ok and is followed by `count == 3`: C09_helpers.CountingLoop); BuildpackApi: the parsed strings are the halves of split_once('.') with
                     (value, "0") as the default; Deserialize = try_from(String::deserialize(d)?) in normal form; Display
                     writes the fields in order separated by '.' (format template, or the rendered-text normal form
                     C09_helpers.text_pieces of to_string / join spellings)
  R3'/R5'/R4'/R6' (function deepen) the same string travels through every entry point unchanged and nothing else decides:
     deserialize-input       what Deserialize hands to parse / try_from is the success payload of String::deserialize itself
     reject-only-unmatched   every Err of from_str lies behind a failed regex match (accepted <=> match, both directions);
                             an Err produced by combinators (`cond.then(..).ok_or_else(..)`) is read as the ways its
                             value is None / Err (C09_helpers.failure_ways)
     derived-constructors    no derived impl other than Clone builds the newtype (derive(Default) yields an unvalidated value)
     field-private           the newtype's string field is not public (no construction / mutation from outside)
     proc-macro/input-fields the Parse impl of the macro input stores its first / second string literal as written (the
                             reads of the token stream in execution order, also through private generic helpers:
                             effects of ParseBuffer::parse, C09_helpers.stream_reads)
     new_unchecked-stored    new_unchecked stores its argument unchanged
     display-plain           Display uses plain `{}` placeholders formatted with Display (no {:?}, width, precision)
     macro-args              (token facts) the literal macro hands its parameter itself to verify_regex! and new_unchecked
     proc-macro/operands     verify_regex compiles the content of the `regex` literal and matches the content of the
                             `value` literal of its input, unmodified
     split-input             the string that is split is try_from's argument itself
     component-input         the string handed to the integer parse is the split component / split_once half itself
     component-value         every Option<u64> the validator yields carries the success payload of that parse; without
                             such a stage, every integer field of the Ok payload is that success payload (also through a
                             fixed-size array filled slot by slot by the counting loop)
     single-parser           every other function from a string to the type hands the string to try_from
     whole-input-tests       no branch of try_from tests the whole string other than through its components
     parse-gates             conditions about the parsed string on the way to the parse are only the spec's
                             (digits / sign / leading zero / non-empty): no further rejection reasons
  Spelling-independent readings (robustness round 4; all in C09_helpers):
     statics                 a regex compiled once into a lazily initialised / write-once static (LazyLock, OnceLock +
                             get_or_init) denotes what its initialiser returns; the static behind a use is identified by type
                             and Rust scoping (static_table); its initialiser belongs to the validator region
     combinators             booleans produced by is_some_and / is_ok_and / is_none_or / map_or / is_some / is_none and closures
                             run by and_then / map / filter / map_or / unwrap_or_else.. are read as the ways they are true /
                             run (PathConds.combinator_ways, success_ways / failure_ways, context of combinator closures,
                             lift through them); `r.ok()` is Some iff r is Ok (peel_variant); the match result is taken out
                             of its Result by unwrap_or(false), unwrap_or_default(), `== Ok(true)`, is_ok_and(|m| m), map + match
     digits                  "all characters are ASCII digits" = a quantifier (all / !any / !contains / find(..).is_none() /
                             trim_*_matches(..).is_empty() / a loop that leaves on the first offender, also inside a private
                             bool fn) over a character predicate that is *evaluated* on one representative per character
                             class (is_ascii_digit, is_digit(10), matches!(c, '0'..='9'), ('0'..='9').contains(&c), ..)
     leading zero            starts_with('0') / strip_prefix('0') and `!= "0"` / len() > 1 / rest.is_empty(); the tests in front
                             of a parse are additionally *exact*: "0", one digit and several digits reach the parse
                             (parse-gates), decided on representatives (reaches_parse)
     components              collected unchanged into a Vec<&str> and taken by index / slice pattern behind len == 3, or pulled
                             with four next() calls and validated afterwards (slots_validated)
     API halves              split_once('.') with its default in any spelling (pair, private struct, one map_or / match per
                             half: classified by their alternatives, half_class) or the two items of splitn(2, '.')
     Serialize / Display     read off the value serialize returns (newtype struct or the string itself, field 0 also through the
                             type's own AsRef / Deref); Display written by several formatter calls in a row is the sequence
                             of its must-effects on the formatter (display_pieces_seq)
     Deserialize             conversions of the workspace that hand the string on are transparent (serde(try_from) over a
                             TryFrom<String> that calls parse)
     proc-macro picks        any move / borrow of one of the two expressions (under whatever name, in closures and private
                             helpers, with the helper's parameters read at its call site) is classified by the ways it takes
                             effect, incl. eagerly evaluated arguments of then_some / unwrap_or / map_or (selected_paths)
     three-valued verdicts   guard / sign-guard / leading-zero / split: VIOLATED when a way without any test exists, UNPROVEN
                             when every open way passes a test of the value that was not understood
  Robustness round 5 (C09_helpers):
     validator scope         path conditions are taken inside one type's validator region (PathConds(scope=..)): a private
                             helper shared by both version types (`parse_ascii_digits`) is entered from this type's call
                             sites only, so what the other type tests in front of its call neither helps nor hurts; a way
                             through such a helper that a site's constant argument rules out (`parse_component(s, false)`
                             with `if allow_leading_zeros { .. }` inside) is not a way from that site (PathConds.paths)
     validation after parse  `s.parse::<u64>().ok().filter(|n| n.to_string() == s)`, `Ok(n) if n.to_string() == s => Some(n)`:
                             sign-guard / leading-zero also hold when every way the validator stage *yields* the number
                             (yield_ways) passes `u64::to_string(number) == parsed string` (roundtrip_literal; that the
                             rendering is u64's plain Display is read off the MIR operand of the comparison, not off the
                             value, which sees through to_string); a stage that hands the number on untested is followed
                             to the stages calling it (post_guard)
                             to the stages calling it (post_guard); parsed inside try_from by a counting loop whose
                             exhaustion precedes every Ok, the ways round the loop (to its latches) take the place of the
                             ways the stage yields; a number tested in any other way after an unguarded parse: UNPROVEN
     result-gates            (new obligation) on the ways a stage yields a number, the number is not tested in any other way
                             (`n < 100`; for BuildpackApi also the re-rendering test, which would reject "01"); parse-gates
                             also reads the conditions about the parsed *string* that follow the parse on those ways
     component-value         a closure run by an Option / Result combinator yields in terms of the payload it is run on
                             (`r.ok().and_then(|n| c.then_some(n))`, lifted); `x.ok()?` carries the payload of x; `?` leaving
                             with the failure carries none
Not decided: the u64 overflow boundary; display/parse being inverse for all triples (core formatting trusted).
"""
import json
import os
import re
import subprocess
from .lib.guards import conditions
from .lib.mir import op_place
from .lib.paths import strip
from .lib.tables import arm_defs
from .lib.value import canon, vstr, walk
from . import C09_helpers as H

VER = 'libcnb_data::buildpack::version::BuildpackVersion'
API = 'libcnb_data::buildpack::api::BuildpackApi'


def regexlang(ctx, jobs):
    exe = os.path.join(ctx.root, 'regexlang', 'target', 'release', 'regexlang')
    if not os.path.exists(exe):
        r = subprocess.run(['cargo', 'build', '--release', '--offline'], cwd=os.path.join(ctx.root, 'regexlang'),
                           stdout=subprocess.PIPE, stderr=subprocess.STDOUT, text=True, env=dict(os.environ, CARGO_NET_OFFLINE='true'))
        if r.returncode != 0:
            raise RuntimeError('cannot build regexlang: ' + r.stdout[-2000:])
    inp = ''.join('%s\t%s\t%s\t%s\n' % j for j in jobs)
    r = subprocess.run([exe], input=inp, stdout=subprocess.PIPE, stderr=subprocess.PIPE, text=True)
    out = {}
    for line in r.stdout.splitlines():
        try:
            d = json.loads(line)
            out[d['id']] = d
        except ValueError:
            pass
    return out


def regex_in_from_str(prog, sl, f):
    """regex constants flowing into fancy_regex::Regex::new in anything from_str may enter inside its crate (closures,
    private helpers): a pattern that a helper receives as a parameter is re-expressed at from_str's own call of it"""
    res = []
    fns = H.region(prog, f)
    inside = {g.path for g in fns}
    for g in fns:
        for c in g.calls:
            if not c.is_('fancy_regex::Regex::new'):
                continue
            v = strip(sl.operand(g, c.args[0]))
            if v[0] == 'const':
                res.append(v[1])
                continue
            for top, vals in H.lift(prog, sl, g, [v], f):
                lv = strip(vals[0])
                if top.path == f.path:
                    res.append(lv[1] if lv[0] == 'const' else None)
                elif top.path in inside:
                    res.append(None)
                # else: a shared helper is also called by the from_str of the other types; those sites are theirs
    return res


def run(ctx, rep):
    prog, sl = ctx.prog, ctx.slicer
    PC = H.PathConds(prog, sl)
    for r, d in (('R1', 'regex language vs spec grammar (inclusion / disjointness over all strings)'), ('R2', 'FromStr regex = literal-macro regex'),
                 ('R3', 'acceptor discipline: constructor only behind the regex match; Deserialize via parse'), ('R4', 'proc-macro polarity and compile_error! on mismatch'),
                 ('R5', 'accepted value is stored, displayed and serialised unchanged'), ('R6', 'version / API parsing shape incl. sign guard')):
        rep.rule(r, d)
    rep.not_decided = ['u64 overflow boundary', 'display/parse inverse for all u64 triples (core formatting trusted)',
                       'LayerName strings containing /, NUL or newline (spec-silent, see DESIGN §9)']
    T = ctx.table('c09_grammar.json')
    jobs = []
    info = {}
    for t, spec in T['types'].items():
        f = prog.fns.get('<%s as std::str::FromStr>::from_str' % t)
        if f is None:
            rep.unproven('R1', t, '-', 'FromStr impl not found')
            continue
        rep.analysed(f)
        rx = regex_in_from_str(prog, sl, f)
        where = '%s:%d' % (f.file, f.line)
        if len(rx) != 1 or rx[0] is None:
            rep.unproven('R1', t + '/regex', where, 'expected one constant regex in from_str, found %s' % rx)
            continue
        info[t] = (f, rx[0], where)
        jobs.append((t, rx[0], spec['accept'], spec['reject']))
    res = regexlang(ctx, jobs) if jobs else {}
    rep.extra['regex_results'] = res
    for t, (f, rx, where) in info.items():
        d = res.get(t)
        if d is None:
            rep.unproven('R1', t + '/language', where, 'regexlang produced no verdict')
            continue
        if not d.get('supported'):
            rep.unproven('R1', t + '/language', where, 'regex %r is outside the decidable subset: %s' % (rx, d.get('reason')))
            continue
        rep.check(d['accept_included'], 'R1', t + '/must-accept', where, 'every spec-valid string is accepted by %r' % rx,
                  'spec-valid string %s is rejected by %r' % (json.dumps(d.get('accept_cex')), rx), d)
        rep.check(d['reject_disjoint'], 'R1', t + '/must-reject', where, 'no spec-invalid string is accepted by %r' % rx,
                  'spec-invalid string %s is accepted by %r' % (json.dumps(d.get('reject_cex')), rx), d)
    # ---- R2 -----------------------------------------------------------------------------------------
    for t, spec in T['types'].items():
        if t not in info:
            continue
        f, rx, where = info[t]
        ms = [m for m in prog.macros if m['name'] == spec['macro'] and m['crate'] == 'libcnb_data']
        if len(ms) != 1:
            rep.unproven('R2', t, where, 'literal macro %s! not found' % spec['macro'])
            continue
        body = ms[0]['body']
        m = re.search(r'verify_regex\s*!\s*\(\s*r(#*)"(.*?)"\1\s*,', body, re.S)
        lit = m.group(2) if m else None
        rep.check(lit == rx and ms[0]['exported'], 'R2', t, '%s:%s' % (ms[0]['file'], ms[0]['line']), '%s! validates with the same regex' % spec['macro'],
                  'literal macro %s! uses regex %r, from_str uses %r' % (spec['macro'], lit, rx))
        # R4 (macro side): unmatched expression is compile_error!
        after = body[m.end():] if m else ''
        short = t.split('::')[-1]
        ok = ('compile_error' in after) and (short + ' ::         new_unchecked' in after or re.search(re.escape(short) + r'\s*::\s*new_unchecked', after) is not None)
        order_ok = ok and after.index('new_unchecked') < after.index('compile_error')
        rep.check(order_ok, 'R4', 'macro/' + t, '%s:%s' % (ms[0]['file'], ms[0]['line']), 'matched => new_unchecked, unmatched => compile_error!',
                  'literal macro does not pair (matched => constructor, unmatched => compile_error!)')
    # ---- R3 / R5 ------------------------------------------------------------------------------------
    for t in T['types']:
        if t not in info:
            continue
        f, rx, where = info[t]
        short = t.split('::')[-1]
        nu = prog.fns.get('%s::new_unchecked' % t)
        ctor_sites = []
        for g in prog.fns.values():
            if g.derived:
                continue
            for bi, b in enumerate(g.blocks):
                for st in b['s']:
                    if st[0] == '=' and st[2]['r'] == 'agg' and st[2].get('adt') == t:
                        ctor_sites.append((g, bi, st))
            for c in g.calls:
                for a in c.args:
                    k = a.get('k') if isinstance(a, dict) else None
                    if k and k.get('fn') == t and k.get('defkind', '').startswith('Ctor'):
                        ctor_sites.append((g, c.bb, None))
        # from_str and the closures written in it are one body; a call of new_unchecked there is a construction like the
        # tuple constructor (new_unchecked-stored: it stores its argument unchanged) and carries the same obligations
        own = {f.path} | {g.path for g in prog.closures_of(f)}
        # .. and so are crate-private functions that only from_str's region calls (`fn build(value: &str) -> Self`): their
        # paths carry the decisions taken at their call sites
        reg = {g.path: g for g in H.region(prog, f)}
        for g in reg.values():
            if g.kind in ('Fn', 'AssocFn') and g.vis != 'pub' and not g.impl_trait and g.path != f.path and not g.path.endswith('::new_unchecked'):
                refs = prog.callers().get(g.path, [])
                if refs and all(cs.fn.path in reg and not cs.indirect and cs.name == g.path for cs in refs):
                    own |= {g.path} | {h.path for h in prog.closures_of(g)}
        mname = T['types'][t]['macro']
        nu_sites = [c for c in prog.callers().get('%s::new_unchecked' % t, []) if c.name == '%s::new_unchecked' % t]
        nu_other = [c for c in nu_sites if not (c.exp and mname in c.macros)]
        allowed = own | {'%s::new_unchecked' % t}
        stray = [g.path for g, bi, st in ctor_sites if g.path not in allowed]
        rep.check(not stray, 'R3', t + '/constructor-sites', where, 'tuple constructor used only in from_str and new_unchecked', 'unvalidated construction of %s in %s' % (short, stray))
        # the constructor runs only when is_match(Regex::new(<literal>), <input>) is Ok(true); every spelling of
        # "errors count as non-match" reduces to a true-branch on the success payload of that call:
        #   Regex::new(..).and_then(|r| r.is_match(v)).unwrap_or(false)   /   match r.is_match(v) { Ok(true) => .. }
        #   / a private predicate fn(regex, value) -> bool tested by `if` or `bool::then` (its ways of returning true)

        def by_match(path, f=f):
            for lit in path:
                ml = H.match_literal(sl, lit)
                if ml is None or ml[1] is not True:
                    continue
                rxv, inp = ml[0][2][0], strip(ml[0][2][1])
                has_new = rxv[0] == 'unwrap' and strip(rxv)[0] == 'call' and strip(rxv)[1] == 'fancy_regex::Regex::new'
                if has_new and inp[0] == 'param' and inp[1] == f.path and inp[2] == 0:
                    return True
            return False
        builds = [(g, bi, st, None) for g, bi, st in ctor_sites if g.path in own] + [(c.fn, c.bb, None, c) for c in nu_other if c.fn.path in own]
        for g, bi, st, call in builds:
            # on every path to the constructor (not only in the decisions that dominate it)
            cpaths = PC.paths(g, bi)
            good = H.holds_on_all(cpaths, by_match)

            def not_understood(path):
                # a decision about the outcome of a regex match that none of the readings above covers
                return any(H.match_literal(sl, l) is None and any(x[0] == 'call' and x[1] == 'fancy_regex::Regex::is_match' for x in walk(l.value))
                           for l in path)
            open_paths = [p for p in (cpaths or []) if H.consistent(p) and not by_match(p)]
            if not good and open_paths and all(not_understood(p) for p in open_paths):
                rep.unproven('R3', t + '/guard', where, 'the constructor is reached under a decision about the regex match that was not understood: %s'
                             % [repr(l)[:120] for l in open_paths[0]][:3])
            else:
                rep.check(good, 'R3', t + '/guard', where, 'constructed only when Regex::new(..).and_then(is_match(value)).unwrap_or(false) is true',
                          'the constructor in from_str is not guarded by the regex match (errors must count as non-match)')
            if st is not None:
                v = sl._rvalue(g, st[2], set(), 0, None)
                sv = strip(dict(v[3]).get('0', ('unknown',)))
                if not (sv[0] == 'param' and sv[1] == f.path):
                    rows = H.lifted_to(prog, sl, g, [sv], f)
                    if rows and all(r is not None and canon(strip(r[0])) == canon(strip(rows[0][0])) for r in rows if r is not None) and rows[0] is not None:
                        sv = strip(rows[0][0])
            elif call is not None:
                rows = H.lifted_to(prog, sl, g, [sl.operand(g, call.args[0])], f) if call.args else []
                sv = strip(rows[0][0]) if len(rows) == 1 and rows[0] is not None else ('unknown',)
            else:
                continue
            rep.check(sv[0] == 'param' and sv[1] == f.path and sv[2] == 0, 'R5', t + '/stored', where, 'stored string <- input slice, unmodified', 'stored value is ' + vstr(sv)[:80])
        # Deserialize via parse: the success payload of deserialize is from_str(success payload of String::deserialize(d)),
        # read off the normal form of the returned value (`?` / and_then / map_err / match spellings coincide);
        # a constructor or new_unchecked in its place is not a call of from_str
        ds = prog.find(r"^<%s as .*Deserialize<'de>>::deserialize$" % re.escape(t)) or \
            prog.find(r"Deserialize<'de> for %s>::deserialize$" % re.escape(t))
        ok = False
        if len(ds) == 1:
            rep.analysed(ds[0])
            fulls = {c.full for c in ds[0].calls if c.full}
            via_parse = any(('parse::<%s>' % t) in n for n in fulls) or any(c.res == f.path or c.name == f.path for c in ds[0].calls)
            ok = via_parse and any('for std::string::String>::deserialize' in n for n in fulls) and not any('new_unchecked' in n for n in fulls)
            ch = H.deser_chain(prog, sl, ds[0])
            if ch is not None and not ok:
                conv = ch[0]
                ok = bool(conv.full and ('parse::<%s>' % t) in conv.full) or conv.res == f.path or conv.name == f.path
            if not ok:
                # through conversions of the workspace that hand the string on (TryFrom<String> behind serde(try_from))
                dt = H.deser_through(prog, sl, ds[0], lambda c, t=t, f=f: bool(c.full and ('parse::<%s>' % t) in c.full) or c.res == f.path or c.name == f.path)
                ok = dt is not None and dt[2] is not None
        rep.check(ok, 'R3', t + '/deserialize', where, 'Deserialize = String::deserialize -> parse::<%s>' % short, 'Deserialize for %s does not go through parse' % short)
        # new_unchecked callers only from the literal macro
        # (a call inside from_str is a construction site of from_str: guarded by the match and checked above)
        sites = nu_sites
        bad = [c.where() for c in nu_other if c.fn.path not in own]
        rep.check(not bad, 'R3', t + '/new_unchecked-callers', where, '%d call site(s) of new_unchecked, all from %s! expansions%s'
                  % (len(sites), mname, '' if len(nu_other) == 0 else ' or behind the regex match in from_str'),
                  'new_unchecked is called outside the literal macro at %s' % bad)
        # Display / Serialize
        dsp = prog.fns.get('<%s as std::fmt::Display>::fmt' % t)
        ok = False
        if dsp is not None:
            v = strip(sl.local(dsp, 0))
            fm = next((x for x in walk(v) if x[0] == 'fmt'), None)
            ok = fm is not None and len(fm[1]) == 1 and not isinstance(fm[1][0], str) and strip(fm[1][0])[0] == 'field' and strip(fm[1][0])[2] == '0'
            # the same text written without a template: f.write_str(&self.0) / f.pad(&self.0) / Display::fmt(&self.0, f)
            pcs = H.display_pieces(sl, dsp)
            ok = ok or (pcs is not None and len(pcs) == 1 and not isinstance(pcs[0], str) and strip(pcs[0])[0] == 'field' and strip(pcs[0])[2] == '0'
                        and strip(strip(pcs[0])[1])[0] == 'param')
            # `f.write_str(self.as_ref())` / `f.write_str(self)`: self through the newtype's own AsRef / Deref / Borrow impl,
            # which hands out field 0
            ok = ok or (pcs is not None and len(pcs) == 1 and not isinstance(pcs[0], str) and H.self_as_field0(prog, sl, dsp, pcs[0]))
        rep.check(ok, 'R5', t + '/display', where, 'Display writes the stored string', 'Display does not write field 0 verbatim')
        # Serialize hands field 0 itself to the serializer it was given, as a newtype struct (what the derive emits) or as
        # the plain string — read off the value serialize returns, for the derived and a hand-written impl alike
        forms = H.serialize_forms(prog, sl, t)
        rep.check(bool(forms) and all(x in ('newtype', 'str') for x in forms), 'R5', t + '/serialize', where, 'Serialize is the transparent newtype',
                  'Serialize for %s is not the transparent newtype: %s' % (short, forms))
    # ---- R4 proc macro --------------------------------------------------------------------------------
    vr = prog.fn('libcnb_proc_macros::verify_regex')
    rep.analysed(vr)
    # every place (in verify_regex or a private helper it calls) that picks one of the two expressions is classified by
    # the decisions on *all* paths leading to it: P = `is_match(..) == Ok(true)` taken on every path => matched side,
    # P excluded on every path (Ok(false), Err, `.unwrap_or(false)` false, `matches!(.., Ok(true))` false) => unmatched
    table = {}
    names = ('expression_when_matched', 'expression_when_unmatched')
    # Taking the input struct apart (`let VerifyRegexInput { a, b, .. } = input;`, `let m = input.a;`) picks nothing yet:
    # a local that is assigned once, unconditionally on entry, and only moved on is another name of the field; the pick
    # is where that name is used.
    # A pick is any place where one of the two fields (under whatever name) is moved or borrowed to be used; it is
    # classified by the ways that use takes effect: the paths to it, and — for an eagerly evaluated argument of a selecting
    # combinator (`cond.then_some(a).unwrap_or(b)`, `opt.map_or(b, |_| a)`) — the ways the combinator yields that argument.
    def names_field(g, pl):
        fv = strip(sl.place(g, pl)) if pl else None
        return fv[2] if fv is not None and fv[0] == 'field' and fv[2] in names else None

    def about_match(l):
        return H.match_literal(sl, l) is not None or any(x[0] == 'call' and x[1] in ('fancy_regex::Regex::is_match',) for x in walk(l.value))

    def renames(g, st, bi):
        dest = st[1]
        if len(dest) != 1 or dest[0] == 0:
            return False
        if H.is_field_alias(g, dest, bi):
            return True
        # assigned once, where nothing about the match has been decided yet: another name, not a selection
        if len(g.whole_defs(dest[0])) != 1 or g.partial_defs(dest[0]) or g.in_loop(bi):
            return False
        return not any(about_match(l) for p in (PC.paths(g, bi) or []) for l in p)

    for g in H.region(prog, vr):
        for bi, b in enumerate(g.blocks):
            if bi not in g.reachable(0):
                continue
            for st in b['s']:
                if st[0] != '=' or st[2]['r'] not in ('use', 'ref'):
                    continue
                pl = op_place(st[2]['o']) if st[2]['r'] == 'use' else st[2].get('p')
                name = names_field(g, pl)
                if name is None:
                    continue
                paths, selecting = H.selected_paths(PC, g, bi, st)
                if not selecting and renames(g, st, bi):
                    continue
                rep.analysed(g)
                pol = None
                for want in (True, False):
                    if H.holds_on_all(paths, lambda p, want=want: any((H.match_literal(sl, l) or (None, None))[1] is want for l in p)):
                        pol = want
                table[pol] = name if table.get(pol, name) == name else 'both'
    rep.check(table == {True: 'expression_when_matched', False: 'expression_when_unmatched'}, 'R4', 'proc-macro/polarity', '%s:%d' % (vr.file, vr.line),
              'is_match(..).unwrap_or(false): true => matched expression, false => unmatched', 'verify_regex selects %s' % table)
    # ---- R6 versions ------------------------------------------------------------------------------------
    # The validator of a type is everything its TryFrom<String> may enter inside the crate: closures, private helpers and
    # fn items handed to adapters.  Guards of an integer parse are read off the path conditions of the parse site.
    def is_int_parse(c):
        return _is_int_parse_call(c, sl)

    def sign_guard(path, pv, PC=PC):
        for l in path:
            if H.digits_literal(PC, l, pv) is True:
                return 'a digits-only test'
            if l.kind == 'bool' and l.outcome is True and H.is_digits_test(prog, sl, l.value, pv):
                return 'all(is_ascii_digit)'
            if l.kind == 'bool' and l.outcome is False and H.is_nondigit_test(prog, sl, l.value, pv):
                return '!any(!is_ascii_digit)'
            if l.kind == 'bool' and l.outcome is False and H.is_starts_with(l.value, pv, '+'):
                return "!starts_with('+')"
        return None

    all_parses = {}
    regions = {}
    VPC = {}    # path conditions inside one validator: a helper shared with the other validator is entered from this one's sites
    for t, nparts in ((VER, 3), (API, 2)):
        tf = prog.fns.get('<%s as std::convert::TryFrom<std::string::String>>::try_from' % t)
        short = t.split('::')[-1]
        if tf is None:
            rep.unproven('R6', short, '-', 'TryFrom<String> impl not found')
            continue
        rep.analysed(tf)
        where = '%s:%d' % (tf.file, tf.line)
        fns = regions[t] = H.region(prog, tf)
        PCt = VPC[t] = H.PathConds(prog, sl, scope={g.path for g in fns})
        parses = []
        for g in fns:
            for c in g.calls:
                if is_int_parse(c):
                    parses.append((g, c))
                    rep.analysed(g)
        all_parses[t] = parses
        rep.check(len(parses) >= 1, 'R6', short + '/parse-sites', where, '%d integer parse site(s)' % len(parses), 'no integer parse found')
        for i, (g, c) in enumerate(parses):
            pv = sl.operand(g, c.args[0])
            paths = PCt.paths(g, c.bb)
            ok = H.holds_on_all(paths, lambda p, pv=pv: sign_guard(p, pv, PCt) is not None)
            gd = ' / '.join(sorted({sign_guard(p, pv, PCt) for p in paths if H.consistent(p)} - {None})) if ok else None
            if not ok and H.scanned(PCt, g, c.bb, pv):
                # reached only after a loop over the characters that leaves on the first one that is no digit
                ok, gd = True, 'a loop over its characters that rejects the first non-digit'
            post = post_guard(prog, sl, PCt, g, c, pv) if not ok else None
            if post is True:
                # validated after the parse: the number is only yielded when it re-renders to the parsed string
                ok, gd = True, 'the number being yielded only when u64::to_string of it equals the parsed string'
            open_paths = [p for p in (paths or []) if H.consistent(p) and sign_guard(p, pv, PCt) is None]
            if not ok and post == 'unknown':
                rep.unproven('R6', '%s/sign-guard#%d' % (short, i), c.where(), 'the parse is not guarded, and the number it yields is tested afterwards in a way that was '
                             'not recognised as "its decimal rendering equals the parsed string"', {'function': g.path})
            elif not ok and open_paths and all(unknown_tests(PCt, p, pv, g, t) for p in open_paths):
                # every unguarded way to the parse passes a test of the string that was not understood
                rep.unproven('R6', '%s/sign-guard#%d' % (short, i), c.where(), 'the parsed string is tested in a way that was not recognised as a digits-only test: %s'
                             % unknown_tests(PCt, open_paths[0], pv, g, t)[:2], {'function': g.path})
            else:
                rep.check(ok, 'R6', '%s/sign-guard#%d' % (short, i), c.where(), 'integer parse guarded by %s' % gd,
                          'u64::from_str accepts a leading "+": the parse of a version component is not guarded by a digits-only test, so e.g. "+1" is accepted',
                          {'function': g.path})
        # deserialize via try_from: success payload of deserialize = try_from(success payload of String::deserialize(d))
        ds = prog.find(r"Deserialize<'de> for %s>::deserialize$" % re.escape(t)) or \
            prog.find(r"^<%s as .*Deserialize<'de>>::deserialize$" % re.escape(t))
        tfn = '<%s as std::convert::TryFrom<std::string::String>>::try_from' % t
        ok = len(ds) == 1 and any(c.full and c.full.startswith(tfn) for g in [ds[0]] + prog.closures_of(ds[0]) for c in g.calls) and \
            any(c.full and 'for std::string::String>::deserialize' in c.full for c in ds[0].calls)
        if len(ds) == 1:
            rep.analysed(ds[0])
            ch = H.deser_chain(prog, sl, ds[0])
            # the derived `try_from = "String"` impl and a hand-written one have the same normal form
            ok = ok or (ch is not None and bool(ch[0].full) and ch[0].full.startswith(tfn))
            if not ok:
                dt = H.deser_through(prog, sl, ds[0], lambda c, tfn=tfn: bool(c.full) and c.full.startswith(tfn))
                ok = dt is not None and dt[2] is not None
        rep.check(ok, 'R6', short + '/deserialize', where, 'Deserialize via TryFrom<String>', 'Deserialize does not go through try_from')
        # Display template
        dsp = prog.fns.get('<%s as std::fmt::Display>::fmt' % t)
        fields = ['major', 'minor', 'patch'][:nparts]
        ok = False
        if dsp is not None:
            fm = None
            for c in dsp.calls:
                for a in c.args:
                    v = sl.operand(dsp, a)
                    fm = fm or next((x for x in walk(v) if x[0] == 'fmt'), None)
            if fm is not None:
                want = []
                for i, fl in enumerate(fields):
                    if i:
                        want.append('.')
                    want.append(fl)
                got = [p if isinstance(p, str) else (strip(p)[2] if strip(p)[0] == 'field' else '?') for p in fm[1]]
                ok = got == want
            if not ok:
                # the same text rendered without one template: [self.major, ..].map(|c| c.to_string()).join(".") etc.,
                # read as the pieces the single formatter call of fmt writes
                pcs = H.display_pieces(sl, dsp)
                if pcs is not None:
                    pcs = [q for p in pcs for q in ([p] if isinstance(p, str) else H.text_pieces(sl, p))]
                    want = [x for i, fl in enumerate(fields) for x in (['.'] if i else []) + [fl]]
                    got = [p if isinstance(p, str) else (strip(p)[2] if strip(p)[0] == 'field' and strip(strip(p)[1])[0] == 'param' else '?') for p in pcs]
                    ok = got == want
        rep.check(ok, 'R6', short + '/display', where, 'Display = %s' % '.'.join('{%s}' % x for x in fields), 'Display template does not print %s in order' % fields)
    # BuildpackVersion specifics: split('.'), exactly 3 parts, leading zero rejection
    tf = prog.fns.get('<%s as std::convert::TryFrom<std::string::String>>::try_from' % VER)
    if tf is not None:
        where = '%s:%d' % (tf.file, tf.line)
        sp = [c for g in regions[VER] for c in g.calls if c.name == 'core::str::<impl str>::split' and strip(sl.operand(g, c.args[1])) == ('const', '.')]
        if not sp and not [c for g in regions[VER] for c in g.calls if (c.name or '').startswith('core::str::<impl str>::') and 'split' in c.name]:
            rep.unproven('R6', 'BuildpackVersion/split', where, "how the version string is cut into components was not recognised (no str::split('.'))")
        else:
            rep.check(len(sp) == 1, 'R6', 'BuildpackVersion/split', where, "split on '.'", "version is not split on '.'")
        oks = [d[1] for d in tf.whole_defs(0) if d[0] == 'stmt' and d[3]['r'] == 'agg' and d[3].get('variant') == 'Ok']
        # Two ways of establishing "exactly 3 components, each of them validated" at every Ok site:
        #  (a) the components are collected all-or-nothing and the collection's length is compared with 3;
        #  (b) they are pulled one by one from a single iterator `split('.').map(validate)`: the first three pulls are
        #      Some (and their payload, the validation result, is Some), the fourth is None.
        pl = H.pulls(sl, tf)
        pull_rows = []
        if pl is not None:
            for bi in oks:
                conds = conditions(tf, bi, sl)
                pull_rows.append([H.pull_status(conds, tf, c) for c in pl[1]])
        by_len = bool(oks)
        for bi in oks:
            eq = [cd for cd in conditions(tf, bi, sl) if cd.kind == 'bool' and cd.outcome is True and cd.value[0] == 'bin' and cd.value[1] == 'Eq'
                  and strip(cd.value[3]) == ('const', 3)]
            by_len = by_len and bool(eq)
        by_pull = bool(oks) and pl is not None and all(
            len(row) >= 4 and all('some' in st for st in row[:3]) and 'none' in row[3] for row in pull_rows)
        #  (c) they are counted by the loop that iterates them: `let mut n = 0; for s in value.split('.') { ..; n += 1 }`,
        #      every Ok site lies behind the loop's exhaustion and `n == 3` tested after it (C09_helpers.CountingLoop:
        #      n is the number of elements taken; an element whose iteration does not reach the increment leaves the
        #      loop for good and cannot reach Ok), and nothing else pulls from that iterator
        by_count = None
        for cl in H.counting_loops(tf, sl):
            L = cl.loop
            stages_, src = H.split_source(L.collection) if L.collection is not None else (None, ('unknown',))
            if stages_ != [] or not (src[0] == 'call' and src[1] == 'core::str::<impl str>::split'):
                continue
            others = [c for c in tf.calls if c.decl and c.decl.startswith(H.IT) and c is not L.next_call and c.args
                      and H.split_source(sl.operand(tf, c.args[0]))[1] == src]
            if not others and oks and all(H.exact_count(tf, sl, cl, bi) == 3 for bi in oks):
                by_count = cl
        #  (d) they are collected unchanged into a Vec<&str>: every Ok site lies behind `len == 3` of that Vec and behind a
        #      successful validation of each of its elements 0, 1, 2
        coll = H.collected_components(sl, tf)
        vnames = {g.path for g in regions[VER] if _yields_u64(g)}

        def is_validator(c):
            return is_int_parse(c) or (c.name in vnames) or (c.res in vnames)
        by_slots = coll is not None and bool(oks) and all(H.slots_validated(prog, sl, tf, bi, coll, 3, is_validator) for bi in oks)
        #  (e) the collected components are converted into a fixed-size array: `Vec<T> -> [T; 3]` (try_into / try_from)
        #      succeeds iff there are exactly 3; every way to an Ok site passes that conversion being Ok
        def into_array3(l):
            if l.kind != 'variant' or l.outcome != frozenset(['Ok']) or l.value[0] != 'call' or len(l.value[2]) != 1:
                return False
            c = H.call_of(prog, l.value)
            if c is None or (c.decl or '') not in ('std::convert::TryInto::try_into', 'std::convert::TryFrom::try_from'):
                return False
            m = re.match(r'std::result::Result<\[[^;\]]+; (\d+)\], ', c.dty or '')
            src = H.split_source(l.value[2][0])[1]
            return m is not None and int(m.group(1)) == 3 and src[0] == 'call' and src[1] == 'core::str::<impl str>::split'
        by_array = bool(oks) and all(H.holds_on_all(PC.paths(tf, bi), lambda p: any(into_array3(l) for l in p)) for bi in oks)
        def counts_differently(bi):
            # a comparison of a length / count with a number, on the way to Ok, that is not `== 3`
            for cd in conditions(tf, bi, sl):
                v = cd.value
                if cd.kind == 'bool' and v is not None and v[0] == 'bin' and len(v) == 4 and v[1] in ('Eq', 'Ne', 'Lt', 'Le', 'Gt', 'Ge'):
                    ks = [strip(x)[1] for x in (v[2], v[3]) if strip(x)[0] == 'const' and isinstance(strip(x)[1], int) and not isinstance(strip(x)[1], bool)]
                    if len(ks) == 1 and not ((v[1] == 'Eq' and cd.outcome is True and ks[0] == 3) or (v[1] == 'Ne' and cd.outcome is False and ks[0] == 3)):
                        return True
            return False
        recognised_three = by_len or by_pull or by_count is not None or by_slots or by_array
        if not recognised_three and oks and pl is None and not H.counting_loops(tf, sl) and not any(counts_differently(bi) for bi in oks):
            rep.unproven('R6', 'BuildpackVersion/three-parts', where, 'how "exactly three components" is established on the way to Ok was not recognised')
        else:
            rep.check(recognised_three, 'R6', 'BuildpackVersion/three-parts', where,
                  'Ok only for exactly 3 components (%s)' % ('length == 3' if by_len or by_slots or by_array else '3 pulls are Some, the 4th is None' if by_pull
                                                             else 'counted by the loop over the components, count == 3 after it'),
                  'a version with a component count other than 3 can be accepted')
        # every component takes part in the decision: split('.') -> map(validate) -> collect::<Option<Vec<_>>>()
        # (one invalid component rejects the whole string); adapters that silently drop or truncate components
        # (map_while, filter_map, take_while, take, skip, flatten, ...) would accept "1.2.3.x" as 1.2.3
        its = [c for c in tf.calls if c.decl and c.decl.startswith('std::iter::Iterator::')]
        names = [c.decl.split('::')[-1] for c in its]
        coll = [c for c in its if c.decl.endswith('::collect')]
        all_or_nothing = names.count('map') == 1 and set(names) <= {'map', 'collect'} and len(coll) == 1 and \
            ('collect::<std::option::Option<std::vec::Vec<' in (coll[0].full or '') or 'collect::<std::result::Result<std::vec::Vec<' in (coll[0].full or ''))
        pulled_all = False
        if by_pull and not all_or_nothing:
            stages, src = H.pipeline(pl[0])
            pulled_all = stages == ['map'] and src[0] == 'call' and src[1] == 'core::str::<impl str>::split' and \
                set(names) <= {'map', 'next'} and names.count('map') == 1 and \
                all('valid' in st for row in pull_rows for st in row[:3])
        # (b') pulled one by one from split('.') itself and validated afterwards: three pulls are Some, the fourth is None,
        #      and every Ok site lies behind a successful validation of each of the three items
        pulled_plain = False
        if by_pull and not all_or_nothing and not pulled_all:
            stages, src = H.pipeline(pl[0])
            pcalls = H.pull_slot_calls(prog, sl, tf, pl[1][:3])
            pulled_plain = stages == [] and src[0] == 'call' and src[1] == 'core::str::<impl str>::split' and set(names) <= {'next'} and \
                all(H.slots_validated(prog, sl, tf, bi, None, 3, is_validator, pcalls) for bi in oks)
        # (c) an explicit loop over split('.') itself (no adapter in between) that runs to exhaustion before any Ok: every
        #     component goes through one iteration, and every way round the loop passes the integer parse of the loop
        #     variable being Ok (its guards are the sign / leading-zero obligations on the paths to that parse)
        looped_all = False
        if by_count is not None and not all_or_nothing and not pulled_all:
            L = by_count.loop
            elem = canon(strip(H.loop_element(tf, sl, L)))
            looped_all = bool(L.latches)
            for lb in L.latches:
                good = False
                for cd in conditions(tf, lb, sl):
                    if cd.kind != 'variant' or cd.subject is None or cd.outcome != frozenset(['Ok']) or cd.sw_bb not in L.body:
                        continue
                    pc = H.call_of(prog, cd.subject) if cd.subject[0] == 'call' else None
                    if pc is not None and is_int_parse(pc) and pc.fn is tf and pc.bb in L.body and tf.dominates(pc.bb, lb) \
                            and canon(strip(sl.operand(tf, pc.args[0]))) == elem:
                        good = True
                looped_all = looped_all and good
        DROPPING = {'map_while', 'filter_map', 'filter', 'take_while', 'skip_while', 'take', 'skip', 'flatten', 'flat_map', 'step_by', 'nth', 'last',
                    'find', 'find_map', 'scan', 'zip', 'peekable', 'fuse', 'rev', 'chain', 'min', 'max', 'position'}
        region_its = {c.decl.split('::')[-1] for g in regions[VER] for c in g.calls if c.decl and c.decl.startswith('std::iter::Iterator::')}
        recognised_all = all_or_nothing or pulled_all or pulled_plain or looped_all or by_slots
        if not recognised_all and not (set(names) & DROPPING) and not (coll and 'Option<' not in (coll[0].full or '') and 'Result<' not in (coll[0].full or '')
                                                                        and names.count('map') >= 1) and pl is None:
            # nothing in the pipeline drops or truncates components, but how each of them is validated was not recognised
            rep.unproven('R6', 'BuildpackVersion/all-components', where, 'the way the components %s are validated one by one was not recognised'
                         % sorted(region_its))
        else:
            rep.check(recognised_all, 'R6', 'BuildpackVersion/all-components', where,
                  'components: split -> %s: any invalid component rejects the version'
                  % ('map(validate) -> collect::<Option<Vec<_>>>' if all_or_nothing else 'map(validate) -> three validated pulls and an exhausted iterator' if pulled_all
                     else 'three pulls, each validated, and an exhausted iterator' if pulled_plain
                     else 'a loop that validates each one and runs to exhaustion' if looped_all else 'collect::<Vec<&str>> of length 3, each element validated'),
                  'the component pipeline is %s%s: invalid or surplus components can be dropped instead of rejecting the version (e.g. "1.2.3.x" accepted as 1.2.3)'
                  % (names, '' if not coll else ' collecting into ' + (coll[0].full or '').split('collect::')[-1][:60]))
        # leading zero: every path to an integer parse of the validator passes `!(s.starts_with('0') && s != "0")`,
        # i.e. contains `starts_with(s, '0') == false` or `s == "0"` for the parsed string s — however the test is
        # spelled (`||` chains, named booleans, early return, a private predicate)
        # (`s.len() > 1` for `s != "0"` and `strip_prefix('0')` for `starts_with('0')` say the same)
        def no_leading_zero(path, pv):
            return any(H.zero_prefix_literal(l, pv) in ('no', 'just') or H.len_le1(l, pv) is True for l in path)
        mine = all_parses.get(VER, [])
        lz = bool(mine)
        lz_unknown = bool(mine)
        PCv = VPC.get(VER, PC)
        for g, c in mine:
            pv = sl.operand(g, c.args[0])
            paths = PCv.paths(g, c.bb)
            tested = any(H.zero_prefix_literal(l, pv) in ('no', 'other') for p in paths for l in p)
            here = tested and H.holds_on_all(paths, lambda p, pv=pv: no_leading_zero(p, pv))
            post = post_guard(prog, sl, PCv, g, c, pv) if not here else None
            # u64::to_string never writes a redundant leading zero: a number that re-renders to the parsed string had none
            here = here or post is True
            lz = lz and here
            if not here:
                open_paths = [p for p in (paths or []) if H.consistent(p) and not no_leading_zero(p, pv)]
                lz_unknown = lz_unknown and (post == 'unknown' or (bool(open_paths) and all(unknown_tests(PCv, p, pv, g, VER) for p in open_paths)))
        if not lz and lz_unknown:
            rep.unproven('R6', 'BuildpackVersion/leading-zero', where, 'the parsed component (or the number parsed from it) is tested in a way that was not recognised as the leading-zero rejection')
        else:
            rep.check(lz, 'R6', 'BuildpackVersion/leading-zero', where, 'components with a redundant leading zero are rejected before parsing',
                      'leading-zero rejection (starts_with("0") && != "0" => reject) not found in front of the integer parse')
    tf = prog.fns.get('<%s as std::convert::TryFrom<std::string::String>>::try_from' % API)
    if tf is not None:
        where = '%s:%d' % (tf.file, tf.line)
        so = [c for g in regions[API] for c in g.calls if c.name == 'core::str::<impl str>::split_once' and strip(sl.operand(g, c.args[1])) == ('const', '.')]
        sn = [c for g in regions[API] for c in g.calls if c.name == 'core::str::<impl str>::splitn']
        dv = [c for c in tf.calls if c.name and c.name.endswith('unwrap_or') and any(x == ('const', '0') for x in walk(sl.operand(tf, c.args[1])))]
        by_unwrap_or = len(so) == 1 and len(dv) == 1 and not sn
        # semantically: the strings handed to the integer parses, re-expressed in try_from's terms, are the two halves
        # of  split_once(value, '.')  with  (value, "0")  standing in when there is no '.'  — or, the same two strings,
        # the first and the second item of  value.splitn(2, '.')  with "0" standing in for a missing second item
        by_value = False
        if len(so) + len(sn) == 1 and not by_unwrap_or:
            lifted = []
            for g, c in all_parses.get(API, []):
                for top, vals in H.lift(prog, sl, g, [sl.operand(g, c.args[0])], tf):
                    lifted.append(H.pull_key(strip(vals[0])) if top.path == tf.path else None)
            by_value = any(None not in lifted and set(lifted) <= (a | b) and set(lifted) & a and set(lifted) & b for a, b in api_halves(prog, sl, tf))
        if not (by_unwrap_or or by_value) and not so and not sn:
            rep.unproven('R6', 'BuildpackApi/split', where, "how the API version string is cut into major and minor was not recognised (no split_once('.') / splitn(2, '.'))")
        else:
            rep.check(by_unwrap_or or by_value, 'R6', 'BuildpackApi/split', where, "split_once('.') with default minor \"0\"", 'API version is not split_once(".") with default minor "0"')
    deepen(ctx, rep, prog, sl, PC, T, info, regions, all_parses, VPC)


def post_guard(prog, sl, PC, g, c, pv, depth=0):
    """validation after the integer parse c (in g, of the string pv): True when every way the validator stage yields
    the parsed number passes `u64::to_string(number) == pv` (the number's canonical rendering is the parsed string: only
    ASCII digits, no sign, no redundant leading zero); 'unknown' when every way that does not passes some other test of the
    number; else False.  A stage that hands the number on untested (`fn parse_number(s) -> Option<u64> { s.parse().ok() }`)
    is followed to the stages that call it, with its call as the source of the number."""
    def is_src(cc):
        return cc.fn is c.fn and cc.bb == c.bb
    if depth > 2:
        return False
    if not _yields_u64(g):
        # not a stage that yields the number (parsed inside try_from, in a loop): how a later test of the number bears on
        # what is accepted is not decided here
        # Parsed in a loop that counts the components it takes (C09_helpers.CountingLoop) with every Ok behind the loop's
        # exhaustion: an element whose iteration does not reach the latch leaves the loop for good and cannot reach Ok, so
        # the accepted numbers are those whose iteration passes the re-rendering test on every way round the loop
        oks = [d[1] for d in g.whole_defs(0) if d[0] == 'stmt' and d[3]['r'] == 'agg' and d[3].get('variant') == 'Ok']
        for cl in H.counting_loops(g, sl):
            L = cl.loop
            if c.bb in L.body and L.latches and oks and all(H.exact_count(g, sl, cl, bi) is not None for bi in oks) and \
                    all(H.holds_on_all(PC.paths(g, lb), lambda p: any(H.roundtrip_literal(PC, l, pv, c) is True for l in p)) for lb in L.latches):
                return True
        for rb in g.return_blocks():
            if any(H.number_tests(PC, p, is_src) for p in PC.paths(g, rb) if H.consistent(p)):
                return 'unknown'
        return False
    yw = H.yield_ways(PC, g)
    if yw is None:
        return False
    ways = [p for p in yw if H.consistent(p)]
    if not ways:
        return False

    open_ways = [p for p in ways if not any(H.roundtrip_literal(PC, l, pv, c) is True for l in p)]
    if not open_ways:
        return True
    if all(H.number_tests(PC, p, is_src) for p in open_ways):
        return 'unknown'
    # handed on as it is: the callers of this stage inside the validator
    spv = strip(pv)
    if g.kind in ('Fn', 'AssocFn') and g.vis != 'pub' and not g.impl_trait and spv[0] == 'param' and spv[1] == g.path:
        refs = prog.callers().get(g.path, [])
        if PC.scope is not None:
            refs = [cs for cs in refs if cs.fn.path in PC.scope]
        sites = [cs for cs in refs if not cs.indirect and cs.name == g.path and cs.fn.path != g.path and spv[2] < len(cs.args)]
        if sites and len(sites) == len(refs):
            res = [post_guard(prog, sl, PC, cs.fn, cs, sl.operand(cs.fn, cs.args[spv[2]]), depth + 1) for cs in sites]
            if all(r is True for r in res):
                return True
            if all(r in (True, 'unknown') for r in res):
                return 'unknown'
    return False


def known_test(PC, l, pv, g, t):
    """literal l is one of the tests of the parsed string pv that this rule reads (digits, sign, leading zero, length 1,
    emptiness, the digits scan, "there is a component") — with either outcome"""
    prog, sl = PC.prog, PC.sl
    if H.digits_literal(PC, l, pv) is not None or H.scan_step_literal(PC, g, l, pv):
        return True
    if H.zero_prefix_literal(l, pv) is not None or H.len_le1(l, pv) is not None:
        return True
    if l.kind == 'variant' and pv[0] == 'unwrap' and canon(l.value) == canon(pv[1]):
        return True
    if l.kind == 'variant' and l.outcome == frozenset(['Some']) and strip(pv)[0] == 'param' and H.same(l.value, pv):
        return True
    if l.kind != 'bool':
        return False
    v = l.value
    if H.is_digits_test(prog, sl, v, pv) or H.is_nondigit_test(prog, sl, v, pv) or H.is_starts_with(v, pv, '+') or H.is_starts_with(v, pv, '-'):
        return True
    return v[0] == 'call' and v[1] == 'core::str::<impl str>::is_empty' and len(v[2]) == 1 and H.same(v[2][0], pv)


def unknown_tests(PC, path, pv, g, t):
    """renderings of the literals of `path` that mention the parsed string pv and are none of the known tests"""
    key = canon(strip(pv))
    out = []
    for l in path:
        if any(canon(strip(x)) == key for x in walk(l.value) if isinstance(x, tuple)) and not known_test(PC, l, pv, g, t):
            out.append(repr(l)[:140])
    return out


def half_alts(sl, v, depth=0):
    """the alternatives a value can denote, with defaults of Option combinators and joins of match arms spelled out:
    phi(a | b) -> {a, b};  o.map_or(d, f) / o.map(f).unwrap_or(d) -> {d, f(payload of o)};  pair.i -> {alt.i};
    the set is the same for `match o { Some((a, _)) => a, None => d }`, `o.map_or(d, |(a, _)| a)`, `o.unwrap_or((d, e)).0`"""
    if depth > 8 or not isinstance(v, tuple) or not v:
        return {v}
    if v[0] == 'phi':
        out = set()
        for x in v[1]:
            out |= half_alts(sl, x, depth + 1)
        return out
    if v[0] == 'updated':
        return half_alts(sl, v[1], depth + 1)
    if v[0] == 'select' and len(v) == 4:
        out = set()
        for _names, x in v[3]:
            out |= half_alts(sl, x, depth + 1)
        return out
    if v[0] == 'call' and v[2]:
        n, a = v[1], v[2]
        if n in ('std::option::Option::<T>::map_or',) and len(a) == 3:
            r = sl.apply_closure(strip(a[2]), (H.payload_nf(sl, a[0]),))
            if r is not None:
                return half_alts(sl, a[1], depth + 1) | half_alts(sl, r, depth + 1)
        if n in ('std::option::Option::<T>::unwrap_or',) and len(a) == 2:
            return half_alts(sl, a[1], depth + 1) | half_alts(sl, H.payload_nf(sl, a[0]), depth + 1)
    if v[0] == 'field':
        out = set()
        for b in half_alts(sl, v[1], depth + 1):
            out |= half_alts(sl, sl._field(b, v[2]), depth + 1) if b != v[1] else {v}
        return out
    return {v}


def half_class(sl, tf, v):
    """0 when v denotes the text before the first '.' of tf's argument (the whole argument when there is none), 1 when it
    denotes the text after it ("0" when there is none) — read off the alternatives of v: {split_once(value, '.')?.i, default_i}"""
    alts = {canon(strip(x)) for x in half_alts(sl, v)}
    if len(alts) != 2:
        return None
    for i, is_default in ((0, lambda d: d[0] == 'param' and d[1] == tf.path and d[2] == 0), (1, lambda d: d == ('const', '0'))):
        some = [x for x in alts if x[0] == 'field' and x[2] == str(i)]
        rest = [x for x in alts if x not in some]
        if len(some) != 1 or len(rest) != 1 or not is_default(rest[0]):
            continue
        so = some[0][1]
        so = so[1] if so[0] == 'unwrap' else so
        if so[0] == 'call' and so[1] == 'core::str::<impl str>::split_once' and len(so[2]) == 2 and strip(so[2][1]) == ('const', '.') \
                and H.is_param(so[2][0], tf, 0):
            return i
    return None


def api_parse_args(prog, sl, tf):
    """the strings handed to the integer parses of BuildpackApi's validator, re-expressed in try_from's terms (None where
    that is not possible)"""
    out = []
    for g in H.region(prog, tf):
        for c in g.calls:
            if _is_int_parse_call(c, sl):
                for top, vals in H.lift(prog, sl, g, [sl.operand(g, c.args[0])], tf):
                    out.append(vals[0] if top.path == tf.path else None)
    return out


def api_halves(prog, sl, tf):
    """[({keys of the values denoting the major string}, {.. the minor string})] (H.pull_key of the stripped value): the
    halves of split_once('.') with (value, "0") as the default, or the two items of splitn(2, '.') with "0" for a missing
    second one"""
    out = []
    for p in default_pairs(prog, sl, tf):
        out.append(({H.pull_key(strip(sl._field(p, '0')))}, {H.pull_key(strip(sl._field(p, '1')))}))
    sp = H.splitn_halves(prog, sl, tf)
    if sp is not None:
        out.append(sp)
    # the halves as they reach the integer parses, whichever way the default was spelled (match arms, a private struct,
    # one map_or / unwrap_or per half): classified by their alternatives
    majors, minors = set(), set()
    for v in api_parse_args(prog, sl, tf):
        k = half_class(sl, tf, v) if v is not None else None
        if k is not None:
            (majors if k == 0 else minors).add(H.pull_key(strip(v)))
    if majors and minors:
        out.append((majors, minors))
    return out


def default_pairs(prog, sl, tf):
    """values of tf denoting `split_once(value, '.')` with the pair (value, "0") as the default: spelled
    `.unwrap_or((value, "0"))` or as a match / if-let / let-else whose Some arm yields the payload and whose None arm
    yields the literal pair"""
    def is_so(v):
        v = strip(v) if v[0] != 'unwrap' else v
        return v[0] == 'call' and v[1] == 'core::str::<impl str>::split_once' and len(v[2]) == 2 and strip(v[2][1]) == ('const', '.') \
            and strip(v[2][0])[0] == 'param' and strip(v[2][0])[1] == tf.path and strip(v[2][0])[2] == 0

    def is_default(v):
        v = strip(v)
        return v[0] == 'tuple' and len(v[1]) == 2 and strip(v[1][0])[0] == 'param' and strip(v[1][0])[1] == tf.path and strip(v[1][0])[2] == 0 \
            and strip(v[1][1]) == ('const', '0')
    out = []
    for c in tf.calls:
        if c.name and c.name.endswith('unwrap_or') and len(c.args) == 2 and is_so(sl.operand(tf, c.args[0])) and is_default(sl.operand(tf, c.args[1])):
            out.append(sl._call_value(tf, c, set(), 0))
    for loc in range(len(tf.locals)):
        if len(tf.whole_defs(loc)) != 2:
            continue
        some = none = False
        for bi, v, conds in arm_defs(tf, loc, sl):
            vs = [cd for cd in conds if cd.kind == 'variant' and cd.subject is not None and is_so(cd.subject)]
            if v[0] == 'unwrap' and is_so(v[1]) and any(cd.outcome == frozenset(['Some']) for cd in vs):
                some = True
            elif v[0] == 'tuple' and len(v[1]) == 2 and all(
                    x[0] == 'field' and x[2] == str(i) and x[1][0] == 'unwrap' and is_so(x[1][1]) for i, x in enumerate(v[1])) \
                    and any(cd.outcome == frozenset(['Some']) for cd in vs):
                some = True     # `Some((a, b)) => (a, b)`: the payload taken apart and put together again
            elif is_default(v) and any(cd.outcome == frozenset(['None']) for cd in vs):
                none = True
        if some and none:
            out.append(sl.local(tf, loc))
    return out


# ---- deepening round ------------------------------------------------------------------------------------------------

def _yields_u64(g):
    """a validator stage: a function yielding an optional number (Option<u64>, or Result<u64, _> whose Err rejects)"""
    return g.ret == 'std::option::Option<u64>' or (g.ret or '').startswith('std::result::Result<u64, ')


def _is_int_parse_call(c, sl=None):
    """str::parse::<u64>(s) / u64::from_str(s) / u64::from_str_radix(s, 10): the same function of s"""
    if c is None or not c.full:
        return False
    if c.full.endswith('parse::<u64>') or c.full in ('<u64 as std::str::FromStr>::from_str', 'core::num::<impl std::str::FromStr for u64>::from_str'):
        return True
    if c.full == 'core::num::<impl u64>::from_str_radix' and len(c.args) == 2:
        return sl is not None and strip(sl.operand(c.fn, c.args[1])) == ('const', 10)
    return False


def deepen(ctx, rep, prog, sl, PC, T, info, regions, all_parses, VPC=None):
    from .lib.value import canon
    # ---- newtypes ---------------------------------------------------------------------------------------------
    for t in T['types']:
        if t not in info:
            continue
        f, rx, where = info[t]
        short = t.split('::')[-1]
        # Deserialize: the string that is validated is the deserialised string itself
        ds = prog.find(r"^<%s as .*Deserialize<'de>>::deserialize$" % re.escape(t)) or \
            prog.find(r"Deserialize<'de> for %s>::deserialize$" % re.escape(t))
        if len(ds) == 1:
            di = H.deser_input(prog, sl, ds[0])
            if di is not None and not (bool(di[0].full and ('parse::<%s>' % t) in di[0].full) or di[0].res == f.path or di[0].name == f.path):
                di = H.deser_through(prog, sl, ds[0], lambda c, t=t, f=f: bool(c.full and ('parse::<%s>' % t) in c.full) or c.res == f.path or c.name == f.path) or di
            if di is None:
                rep.unproven('R3', t + '/deserialize-input', where, 'the success payload of deserialize is not one conversion of one value: %s'
                             % vstr(sl.mk_unwrap(sl.local(ds[0], 0), 1))[:160])
            else:
                conv, inp, sc = di
                is_parse = bool(conv.full and ('parse::<%s>' % t) in conv.full) or conv.res == f.path or conv.name == f.path
                if not is_parse:
                    rep.unproven('R3', t + '/deserialize-input', where, 'the deserialised value is produced by %s, not by parse::<%s>' % (conv.name, short))
                else:
                    rep.check(sc is not None, 'R3', t + '/deserialize-input', where, 'parse::<%s> is applied to the success payload of String::deserialize itself' % short,
                              'Deserialize validates %s instead of the deserialised string itself: a string is accepted or rejected by deserialisation but not by parse'
                              % vstr(inp)[:120])
        # from_str: Err only behind a failed match
        live = f.reachable(0)
        defs = [d for d in f.whole_defs(0) if d[1] in live]
        # the ways from_str yields Err: the paths to an `Err(..)` construction, and for a result produced by Option / Result
        # combinators (`cond.then(..).ok_or_else(..)`) the paths to that call joined with the ways its value is Err
        err_ways, decided = [], not f.partial_defs(0)
        for d in defs:
            if d[0] == 'stmt' and d[3]['r'] == 'agg' and d[3].get('variant') in ('Ok', 'Err'):
                if d[3].get('variant') == 'Err':
                    err_ways.append(PC.paths(f, d[1]))
            elif d[0] == 'call' and (d[3].decl or '').endswith('FromResidual::from_residual'):
                # `x?` leaving with the error: an Err of from_str, reached on the ways x is Err
                err_ways.append(PC.paths(f, d[1]))
            elif d[0] == 'call':
                ways = H.failure_ways(PC, sl._call_value(f, d[3], set(), 0))
                if ways is None:
                    decided = False
                elif ways:
                    err_ways.append([p + w for p in PC.paths(f, d[1]) for w in ways])
            else:
                decided = False
        if not err_ways or not decided:
            rep.unproven('R3', t + '/reject-only-unmatched', where, 'the results of from_str are not all Ok(..) / Err(..) constructions in from_str itself')
        else:
            def unmatched(path, f=f):
                for lit in path:
                    ml = H.match_literal(sl, lit)
                    if ml is not None and ml[1] is False:
                        return True
                    # `let Ok(regex) = Regex::new(<lit>) else { return Err }`: a pattern that does not compile matches nothing
                    # likewise `Regex::new(<lit>).and_then(|r| r.is_match(v))` being Err: the success payload of the tested
                    # Result is the compiled regex / the match result, and there is none
                    if lit.kind == 'variant' and 'Ok' not in lit.outcome and lit.outcome:
                        core = strip(sl.mk_unwrap(lit.value, 1))
                        if core[0] == 'call' and core[1] in ('fancy_regex::Regex::new', 'fancy_regex::Regex::is_match'):
                            return True
                return False
            good = all(H.holds_on_all(ps, unmatched) for ps in err_ways)
            if good:
                rep.holds('R3', t + '/reject-only-unmatched', where, 'every Err of from_str lies behind a failed regex match')
            else:
                # whether the further condition is implied by the regex is not decided here
                rep.unproven('R3', t + '/reject-only-unmatched', where,
                             'from_str can return Err although the regex matches: unless the further condition is implied by the grammar, strings of the spec grammar are rejected')
        # derived impls that build the type
        derived = []
        for g in prog.fns.values():
            if not g.derived or g.crate != f.crate:
                continue
            builds = any(st[0] == '=' and st[2]['r'] == 'agg' and st[2].get('adt') == t for b in g.blocks for st in b['s'])
            if builds and not g.path.endswith(' as std::clone::Clone>::clone') and g.path != '<%s as std::clone::Clone>::clone' % t:
                derived.append(g.path)
        rep.check(not derived, 'R3', t + '/derived-constructors', where, 'no derived impl other than Clone builds a %s' % short,
                  'a derived impl builds %s without validation: %s' % (short, derived))
        # literal macro (token facts): the literal that verify_regex! validates and the one new_unchecked stores are both
        # the macro's own parameter, untouched
        spec = T['types'][t]
        ms = [m for m in prog.macros if m['name'] == spec['macro'] and m['crate'] == 'libcnb_data']
        if len(ms) == 1:
            body = ms[0]['body']
            mw = '%s:%s' % (ms[0]['file'], ms[0]['line'])
            pm = re.match(r'\s*\(\s*\$(\w+)\s*:\s*(?:expr|literal)\s*,?\s*\)\s*=>', body)
            if pm is None:
                rep.unproven('R4', 'macro-args/' + t, mw, 'the literal macro does not have the one-parameter form ($x:expr) => ..')
            else:
                par = re.escape('$' + pm.group(1))
                checked = re.search(r'verify_regex\s*!\s*\(\s*r(#*)".*?"\1\s*,\s*' + par + r'\s*,', body, re.S) is not None
                ctor_args = re.findall(r'new_unchecked\s*\(((?:[^()]|\([^()]*\))*)\)', body)
                stored = bool(ctor_args) and all(re.fullmatch(r'\s*' + par + r'\s*', a) for a in ctor_args)
                rep.check(checked and stored, 'R4', 'macro-args/' + t, mw, 'verify_regex! validates and new_unchecked stores the macro parameter itself',
                          'the literal macro validates / stores something other than its parameter: verify_regex!(.., %s, ..) %s, new_unchecked(%s)'
                          % ('$' + pm.group(1), 'found' if checked else 'NOT found', ' | '.join(a.strip() for a in ctor_args)[:80]))
        # nobody outside the module can build or change the value: the string field is private
        adt = prog.adt(t)
        fl = [fd for vnt in (adt or {}).get('variants', []) for fd in vnt.get('fields', [])]
        if len(fl) != 1:
            rep.unproven('R3', t + '/field-private', where, 'the newtype does not have exactly one field')
        else:
            rep.check(fl[0].get('vis') != 'pub', 'R3', t + '/field-private', where, 'the string field is private to its module',
                      'the string field of %s is public: any crate can build or change a value without validation' % short)
        # new_unchecked stores its argument
        nu = prog.fns.get('%s::new_unchecked' % t)
        if nu is None:
            rep.unproven('R5', t + '/new_unchecked-stored', where, 'new_unchecked not found')
        else:
            rep.analysed(nu)
            v = strip(sl.local(nu, 0))
            alts = v[1] if v[0] == 'phi' else [v]
            ok = bool(alts)
            got = []
            for a in alts:
                a = strip(a)
                fv = strip(dict(a[3]).get('0', ('unknown',))) if a[0] == 'agg' and a[1] == t else ('unknown',)
                got.append(vstr(fv)[:60])
                ok = ok and H.is_param(fv, nu, 0)
            rep.check(ok, 'R5', t + '/new_unchecked-stored', where, 'new_unchecked stores its argument unchanged',
                      'new_unchecked (the literal macro) stores %s instead of the validated literal' % got)
        # Display: plain `{}` of the stored string
        dsp = prog.fns.get('<%s as std::fmt::Display>::fmt' % t)
        if dsp is not None:
            bad = H.fmt_conversions(prog, dsp)
            rep.check(not bad, 'R5', t + '/display-plain', where, 'Display formats with plain `{}` placeholders',
                      'Display does not render the stored string verbatim: %s' % bad[:3])
    # ---- proc macro: which strings are compiled and matched ------------------------------------------------------
    vr = prog.fns.get('libcnb_proc_macros::verify_regex')
    if vr is not None:
        where = '%s:%d' % (vr.file, vr.line)
        # the input struct carries the macro's first two string literals as they were written
        pf = [g for g in prog.find(r'^<libcnb_proc_macros::\w+ as syn::parse::Parse>::parse$')
              if any(c.name == g.path or c.res == g.path for c in vr.calls) or 'VerifyRegexInput' in g.path]
        if len(pf) > 1:
            pf = [g for g in pf if 'VerifyRegexInput' in g.path]
        if len(pf) != 1:
            rep.unproven('R4', 'proc-macro/input-fields', where, 'Parse impl of the macro input not found')
        else:
            g = pf[0]
            rep.analysed(g)
            nf = strip(sl.mk_unwrap(sl.local(g, 0), 1))
            fields = dict(nf[3]) if nf[0] == 'agg' else {}
            # the tokens taken from the macro's input stream, in execution order, also through private (generic) helpers
            # (effects of `ParseBuffer::parse` with the stream substituted into parse's terms): the first / second one
            # that reads a string literal yields `regex` / `value`, and the field is that read's own result
            reads, sometimes = H.stream_reads(prog, sl, g)
            lits = [e for ty, e in reads if ty == 'syn::LitStr']
            ok = len(lits) >= 2 and not any(e.forall is not None for ty, e in reads)
            # a read that happens only on some runs (an optional trailing comma) must come after the second literal:
            # otherwise which token is "the second string literal" depends on the run
            if ok:
                t2 = H.read_top(lits[1])
                ok = all(H.read_top(e).fn is g and H.read_top(e) is not t2 and g.dominates(t2.bb, H.read_top(e).bb) for e in sometimes)
            got = {}
            for i, name in enumerate(('regex', 'value')):
                fv = strip(fields.get(name, ('unknown',)))
                got[name] = vstr(fv)[:80]
                ok = ok and i < len(lits) and H.read_result(prog, sl, g, fv, lits[i])
            rep.check(ok, 'R4', 'proc-macro/input-fields', '%s:%d' % (g.file, g.line), 'regex / value of the macro input are its first and second string literal, as written',
                      'the macro input does not carry the literals as written: %s' % got)
        sites = [(g, c) for g in H.region(prog, vr) for c in g.calls if c.is_('fancy_regex::Regex::is_match') and len(c.args) == 2]
        if not sites:
            rep.unproven('R4', 'proc-macro/operands', where, 'no is_match call found in verify_regex')

        def lit_content(v, field):
            """base value when v is `<base>.<field>.value()` of a syn::LitStr"""
            v = strip(v)
            if v[0] == 'call' and v[1].endswith('LitStr::value') and len(v[2]) == 1:
                b = strip(v[2][0])
                if b[0] == 'field' and b[2] == field:
                    return b[1]
            return None
        for g, c in sites:
            rep.analysed(g)
            rows = H.lifted_to(prog, sl, g, [sl.operand(g, c.args[0]), sl.operand(g, c.args[1])], vr)
            ok, why = bool(rows), ''
            for row in rows:
                if row is None:
                    ok, why = False, 'the operands of is_match cannot be expressed in verify_regex'
                    continue
                rxv, txt = row
                rn = strip(rxv)
                b1 = lit_content(rn[2][0], 'regex') if rn[0] == 'call' and rn[1] == 'fancy_regex::Regex::new' and len(rn[2]) == 1 else None
                b2 = lit_content(txt, 'value')
                from_input = b1 is not None and b2 is not None and canon(strip(b1)) == canon(strip(b2)) and \
                    any(x[0] == 'param' and x[1] == vr.path and x[2] == 0 for x in walk(b1))
                if not from_input:
                    ok, why = False, 'is_match(%s, %s)' % (vstr(rxv)[:90], vstr(txt)[:90])
            rep.check(ok, 'R4', 'proc-macro/operands', c.where(), 'the content of the `value` literal is matched against the compiled content of the `regex` literal',
                      'the literal macro does not match the literal itself against the regex itself: %s' % why)
    # ---- versions ------------------------------------------------------------------------------------------------
    PCall = PC
    for t, split_name in ((VER, 'core::str::<impl str>::split'), (API, 'core::str::<impl str>::split_once')):
        tf = prog.fns.get('<%s as std::convert::TryFrom<std::string::String>>::try_from' % t)
        short = t.split('::')[-1]
        if tf is None or t not in regions:
            continue
        where = '%s:%d' % (tf.file, tf.line)
        fns = regions[t]
        PC = (VPC or {}).get(t, PCall)     # path conditions inside this type's validator
        # the string that is split is the argument itself
        sps = [(g, c) for g in fns for c in g.calls if c.name == split_name and len(c.args) == 2]
        if t == API:
            # value.splitn(2, '.') cuts at the same place as split_once('.') (R6/BuildpackApi/split decides how it is used)
            sps += [(g, c) for g in fns for c in g.calls if c.name == 'core::str::<impl str>::splitn' and len(c.args) == 3]
        ok = bool(sps)
        got = []
        for g, c in sps:
            for row in H.lifted_to(prog, sl, g, [sl.operand(g, c.args[0])], tf):
                got.append(vstr(row[0])[:80] if row else '?')
                ok = ok and row is not None and H.is_param(row[0], tf, 0)
        if not sps:
            rep.unproven('R6', short + '/split-input', where, 'no %s call found: how the input is cut was not recognised' % split_name.split('::')[-1])
        else:
            rep.check(ok, 'R6', short + '/split-input', where, 'the string that is split is the argument of try_from itself',
                  'try_from splits %s instead of its argument: strings outside the grammar (e.g. surrounding whitespace) are accepted' % got)
        # deserialize hands the deserialised string itself to try_from
        ds = prog.find(r"Deserialize<'de> for %s>::deserialize$" % re.escape(t)) or \
            prog.find(r"^<%s as .*Deserialize<'de>>::deserialize$" % re.escape(t))
        tfn = '<%s as std::convert::TryFrom<std::string::String>>::try_from' % t
        if len(ds) == 1:
            di = H.deser_input(prog, sl, ds[0])
            if di is not None and not (di[0].full and di[0].full.startswith(tfn)):
                di = H.deser_through(prog, sl, ds[0], lambda c, tfn=tfn: bool(c.full) and c.full.startswith(tfn)) or di
            if di is None or not (di[0].full and di[0].full.startswith(tfn)):
                rep.unproven('R6', short + '/deserialize-input', where, 'the success payload of deserialize is not try_from of one value: %s'
                             % vstr(sl.mk_unwrap(sl.local(ds[0], 0), 1))[:160])
            else:
                rep.check(di[2] is not None, 'R6', short + '/deserialize-input', where, 'try_from is applied to the success payload of String::deserialize itself',
                          'Deserialize validates %s instead of the deserialised string itself' % vstr(di[1])[:120])
        # try_from is the only way from text to the type: any other function that takes a string and yields the type
        # must hand that string to try_from (a second, differently written parser accepts a different language)
        tfn = '<%s as std::convert::TryFrom<std::string::String>>::try_from' % t
        others = []
        for g in prog.fns.values():
            if g.derived or g.path == tf.path or g.kind not in ('Fn', 'AssocFn') or t not in (g.ret or ''):
                continue
            if not any(('str' in a or 'String' in a) for a in (g.args or [])):
                continue
            nf = sl.mk_unwrap(sl.local(g, 0), 1)
            core = nf[1] if nf[0] == 'unwrap' else nf
            c = H.call_of(prog, core) if core[0] == 'call' else None
            if not (c is not None and c.full and c.full.startswith(tfn)):
                others.append(g.path)
        rep.check(not others, 'R6', short + '/single-parser', where, 'no other function turns text into a %s' % short,
                  'another conversion from text to %s does not go through try_from: %s' % (short, others))
        # the input is examined only through its components: no branch of try_from (or of a closure / private helper,
        # in the caller's terms) tests the whole string in another way (length caps, prefixes, ...)
        elems = component_values(prog, sl, tf, fns, t)
        halves = set().union(*[w for g0, w in elems if g0 is tf]) if elems else set()

        key_of = H.pull_key if t == API else canon

        def bare(v, tf=tf, split_name=split_name, halves=halves, t=t, key_of=key_of, depth=0):
            if not isinstance(v, tuple) or not v or depth > 40:
                return False
            if not isinstance(v[0], str):    # a tuple of values (arguments, fields)
                return any(bare(x, depth=depth + 1) for x in v if isinstance(x, tuple))
            if v[0] == 'param':
                return v[1] == tf.path and v[2] == 0
            if v[0] == 'call' and v[1] == split_name and len(v[2]) == 2 and H.is_param(v[2][0], tf, 0):
                return False
            if t == API and H.is_splitn2(v, tf):
                return False
            if v[0] == 'tuple' and len(v[1]) == 2 and H.is_param(v[1][0], tf, 0) and strip(v[1][1]) == ('const', '0'):
                return False    # the default pair (value, "0") of an API version without '.'
            if v[0] != 'param' and key_of(strip(v)) in halves:
                return False    # a half of split_once('.') with its default, however the pair was put together
            if v[0] in ('const', 'fnitem', 'constitem', 'unknown', 'closure_env', 'upvar'):
                return False
            return any(bare(x, depth=depth + 1) for x in v[1:] if isinstance(x, tuple))
        tests = []
        for g in fns:
            for rb in g.return_blocks():
                for p in PC.paths(g, rb):
                    if not H.consistent(p):
                        continue
                    for l in p:
                        # whether `x.ok_or_else(|| err(value.clone()))?` continues depends on x alone: what the error is
                        # built from is no test of the input
                        if bare(H.decision_core(l.value) if l.kind == 'variant' else l.value):
                            tests.append(repr(l)[:140])
        if not tests:
            rep.holds('R6', short + '/whole-input-tests', where, 'the input is examined only through its components')
        else:
            rep.unproven('R6', short + '/whole-input-tests', where,
                         'try_from also decides on the whole string: %s — not shown to follow from the grammar, so strings of the grammar may be rejected (or others accepted)'
                         % sorted(set(tests))[:3])
        dsp = prog.fns.get('<%s as std::fmt::Display>::fmt' % t)
        if dsp is not None:
            bad = H.fmt_conversions(prog, dsp)
            rep.check(not bad, 'R6', short + '/display-plain', where, 'Display formats the numbers with plain `{}` placeholders',
                      'Display does not render the plain decimal numbers: %s' % bad[:3])
        # what the integer parse is given / what the validator yields
        parses = all_parses.get(t, [])
        for i, (g, c) in enumerate(parses):
            pv = sl.operand(g, c.args[0])
            if elems is None:
                rep.unproven('R6', '%s/component-input#%d' % (short, i), c.where(), 'the components handed to the validator were not recognised')
            else:
                ok, got = True, []
                rows = []
                for top, want in elems:
                    for tt, vals in H.lift(prog, sl, g, [pv], top):
                        if tt.path == top.path:
                            rows.append((vals[0], want))
                if not rows:
                    ok = False
                for val, want in rows:
                    got.append(vstr(val)[:80])
                    ok = ok and key_of(strip(val)) in want
                rep.check(ok, 'R6', '%s/component-input#%d' % (short, i), c.where(), 'the integer parse is given the split component itself',
                          'the integer parse is given %s, not the component itself: components outside the grammar are accepted' % got)
            # conditions about the parsed string on the way to the parse
            key = canon(strip(pv))

            def mentions(l, key=key):
                return any(canon(strip(x)) == key for x in walk(l.value) if isinstance(x, tuple))

            def spec_gate(l, pv=pv, t=t, g=g):
                if l.kind == 'variant' and pv[0] == 'unwrap' and canon(l.value) == canon(pv[1]) and l.outcome == frozenset(['Some']):
                    return True     # "there is a component" (the Option that carries it is Some) says nothing about its text
                if l.kind == 'variant' and l.outcome == frozenset(['Some']) and strip(pv)[0] == 'param' and H.same(l.value, pv):
                    return True     # the same, stated at a call site about the Option whose payload is passed as pv
                dl = H.digits_literal(PC, l, pv)
                if dl is not None:
                    return dl
                if H.scan_step_literal(PC, g, l, pv):
                    return True
                if t == VER and (H.zero_prefix_literal(l, pv) is not None or H.len_le1(l, pv) is not None):
                    return True
                if l.kind != 'bool':
                    return False
                v = l.value
                if H.is_digits_test(prog, sl, v, pv):
                    return l.outcome is True
                if H.is_nondigit_test(prog, sl, v, pv):
                    return l.outcome is False
                if H.is_starts_with(v, pv, '+') or H.is_starts_with(v, pv, '-'):
                    return l.outcome is False
                if v[0] == 'call' and v[1] == 'core::str::<impl str>::is_empty' and len(v[2]) == 1 and H.same(v[2][0], pv):
                    return l.outcome is False
                if t == VER and (H.is_starts_with(v, pv, '0') or H.is_eq_const(v, pv, '0')):
                    return True
                return False
            extra = []
            paths = [p for p in PC.paths(g, c.bb) if H.consistent(p)]
            for p in paths:
                for l in p:
                    if mentions(l) and not spec_gate(l):
                        extra.append(repr(l)[:140])
            if _yields_u64(g):
                # .. and after the parse, on the ways the stage yields the number (`.filter(|_| s.len() < 5)`): whether the
                # parse succeeded, and for BuildpackVersion the number re-rendering to the string, are the spec's
                seen = {(l.kind, l.key, l.outcome) for p in paths for l in p}
                for p in (H.yield_ways(PC, g) or []):
                    if not H.consistent(p):
                        continue
                    for l in p:
                        if (l.kind, l.key, l.outcome) in seen or not mentions(l) or spec_gate(l):
                            continue
                        if H.is_source_success(prog, l, lambda cc, c=c: cc.fn is c.fn and cc.bb == c.bb) is True:
                            continue
                        if t == VER and H.roundtrip_literal(PC, l, pv, c) is True:
                            continue
                        if t == API and H.roundtrip_literal(PC, l, pv, c) is not None:
                            continue    # reported by result-gates
                        extra.append('after the parse: ' + repr(l)[:120])
            if paths and not extra:
                # exactness, decided on one representative per class of digit strings: those the grammar allows reach the
                # parse (for versions: "0", one digit, several digits without a leading zero)
                for what, text in (H.ZERO_CLASSES.items() if t == VER else [('a digit string', '10'), ('"0"', '0'), ('"007"', '007')]):
                    r = H.reaches_parse(PC, g, paths, pv, text, mentions)
                    if r is not True:
                        extra.append('%s %s the integer parse' % (what, 'does not reach' if r is False else 'was not shown to reach'))
            if paths and not extra:
                rep.holds('R6', '%s/parse-gates#%d' % (short, i), c.where(), 'the parse is reached under the spec\'s conditions only (digits, sign, leading zero)')
            else:
                rep.unproven('R6', '%s/parse-gates#%d' % (short, i), c.where(),
                             'a component is also tested in a way not shown to follow from the grammar (valid components may be rejected): %s' % sorted(set(extra))[:3])
        # conditions about the *number* after the parse: a parsed number is yielded as it is — the only test of it that
        # follows from the grammar is, for BuildpackVersion, that it re-renders to the parsed string (no sign, no redundant
        # leading zero); anything else (`n < 100`, for BuildpackApi also the re-rendering, which rejects "01") rejects
        # strings of the grammar
        vnames = {g.path for g in fns if g is not tf and _yields_u64(g)}

        def number_source(cc, vnames=vnames):
            return _is_int_parse_call(cc, sl) or cc.name in vnames or cc.res in vnames
        after = []
        for g in fns:
            if g is tf or not _yields_u64(g):
                continue
            for p in (H.yield_ways(PC, g) or []):
                if not H.consistent(p):
                    continue
                for l in H.number_tests(PC, p, number_source):
                    if not (t == VER and H.roundtrip_any(PC, l, number_source) is True):
                        after.append(repr(l)[:140])
        if not after:
            rep.holds('R6', short + '/result-gates', where, 'a parsed number is yielded without further conditions on it')
        else:
            rep.unproven('R6', short + '/result-gates', where, 'the parsed number is also tested in a way not shown to follow from the grammar '
                         '(valid components may be rejected): %s' % sorted(set(after))[:3])
        # every optional integer of the validator is the parse's success payload
        opt = [g for g in fns if g is not tf and _yields_u64(g)]
        ok = bool(opt)
        got = []
        for g in opt:
            ps = H.payloads(sl, sl.local(g, 0))
            ok = ok and bool(ps)
            for p in ps:
                # a closure run by an Option / Result combinator on the payload of its receiver (`r.ok().and_then(|n| ..)`)
                # yields in terms of that payload; `x.ok()?` carries the payload of x
                cands = [p]
                if any(x[0] == 'param' and x[1] == g.path for x in walk(p)):
                    cands = [vals[0] for top, vals in H.lift(prog, sl, g, [p], tf)]
                for q in cands:
                    q = H.drop_adapters(q)
                    core = q[1] if q[0] == 'unwrap' else None
                    good = core is not None and core[0] == 'call' and _is_int_parse_call(H.call_of(prog, core), sl)
                    if not good:
                        got.append('%s yields %s' % (g.path.split('::')[-1], vstr(q)[:80]))
                    ok = ok and good
        if not opt:
            # no Option<u64> stage: the numbers are read off the value that try_from returns — every integer field of
            # every Ok payload is the success payload of the integer parse, directly or through a fixed-size array that
            # the counting loop over the components fills slot by slot (C09_helpers.filled_array_reads)
            nums, why = [], None
            cls = H.counting_loops(tf, sl)
            ok_defs = [d for d in tf.whole_defs(0) if d[0] == 'stmt' and d[3]['r'] == 'agg' and d[3].get('variant') == 'Ok' and d[1] in tf.reachable(0)]
            if not ok_defs or tf.partial_defs(0):
                why = 'no Ok(..) construction in try_from'
            for d in ok_defs:
                pay = sl._rvalue(tf, d[3], set(), 0, None)
                pay = dict(pay[3]).get('0') if pay[0] == 'agg' else None
                built = sl.inline_deep(pay) if pay is not None else None
                if built is None or built[0] != 'agg' or built[1] != t:
                    why = 'the Ok payload is not a %s built from its fields: %s' % (short, vstr(built or ('unknown',))[:80])
                    continue
                cbb = (H.call_of(prog, pay).bb if pay[0] == 'call' and H.call_of(prog, pay) is not None and H.call_of(prog, pay).fn is tf else d[1])
                for fname, fv in built[3]:
                    srcs = None
                    if fv[0] == 'index':
                        for cl in cls:
                            srcs = srcs or H.filled_array_reads(tf, sl, cl, fv, cbb)
                    nums.extend([(fname, x) for x in (srcs if srcs is not None else [fv])])
            bad = ['%s <- %s' % (fname, vstr(x)[:80]) for fname, x in nums
                   if not (x[0] == 'unwrap' and x[1][0] == 'call' and _is_int_parse_call(H.call_of(prog, x[1]), sl))]
            if why is not None or not nums:
                rep.unproven('R6', short + '/component-value', where, 'no function of the validator yields Option<u64> and %s' % (why or 'the Ok payload has no fields'))
            else:
                rep.check(not bad, 'R6', short + '/component-value', where, 'every number of the accepted value is the success payload of parse::<u64> (a parse error rejects)',
                          'a component value does not come from a successful integer parse: %s' % bad[:3])
        else:
            rep.check(ok, 'R6', short + '/component-value', where, 'a validated component is the success payload of parse::<u64> (a parse error rejects)',
                      'a component value does not come from a successful integer parse: %s' % got[:3])


def component_values(prog, sl, tf, fns, t):
    """[(function, {canonical values})]: for the functions that receive one component of the input, the values that
    denote that component.  BuildpackVersion: the element parameter of the function handed to `map` over split('.');
    BuildpackApi: in try_from itself, the two halves of split_once('.') with (value, "0") as the default."""
    from .lib.value import canon
    if t == VER:
        out = []
        for g in fns:
            for c in g.calls:
                if c.decl == 'std::iter::Iterator::map' and len(c.args) == 2:
                    names, src = H.pipeline(sl.operand(g, c.args[0]))
                    if names or not (src[0] == 'call' and src[1] == 'core::str::<impl str>::split'):
                        return None
                    for v in prog.fn_item_args(c):
                        idx = 1 if v.kind == 'Closure' else 0
                        out.append((v, {canon(('param', v.path, idx, v.local_name(idx + 1)))}))
            # `for s in value.split('.') { .. }`: the loop variable (payload of the loop's next()) is the component
            for L in H._loops(g, sl):
                if L.collection is None:
                    continue
                names, src = H.split_source(L.collection)
                if not (src[0] == 'call' and src[1] == 'core::str::<impl str>::split'):
                    continue
                if names:
                    return None
                out.append((g, {canon(strip(H.loop_element(g, sl, L)))}))
        # `let parts: Vec<&str> = value.split('.').collect()`: the elements parts[i], and the parameter of a function
        # that is handed an element
        coll = H.collected_components(sl, tf)
        slot_uses = H.slot_calls(prog, sl, tf, coll) if coll is not None else []
        pl = H.pulls(sl, tf)
        if pl is not None:
            stages, src = H.pipeline(pl[0])
            if stages == [] and src[0] == 'call' and src[1] == 'core::str::<impl str>::split':
                slot_uses = slot_uses + H.pull_slot_calls(prog, sl, tf, pl[1])
        if slot_uses:
            for i, c, j in slot_uses:
                callee = None
                for n in (c.res, c.name):
                    callee = callee or (prog.fns.get(n) if n else None)
                if callee is not None and callee in fns:
                    out.append((callee, {canon(('param', callee.path, j, callee.local_name(j + 1)))}))
                else:
                    arg = sl.operand(tf, c.args[j]) if j < len(c.args) else None
                    if arg is not None:
                        out.append((tf, {canon(strip(arg))}))
        return out or None
    halves = api_halves(prog, sl, tf)
    if not halves:
        return None
    want = set()
    for a, b in halves:
        want |= a | b
    return [(tf, want)]
