"""C10 helpers — the content of a delta, independent of how it is filled.

A `LayerEnvDelta` stored in one of the implicit-path fields gets its entries in two ways:
  * `insert` calls on the field (effects; enumerated by lib/effects with the row of an unrolled table substituted), and
  * the value the field is *constructed* with: `LayerEnvDelta { entries: <iterator expression>.collect() }`, possibly
    produced by a local closure / private helper and placed into the `LayerEnv` literal.
Both are reduced to the same record

    Entry(fld, target, beh, name, val, views, where)

where `views` are the (boolean value, required outcome) pairs the entry exists under: branch decisions around an insert
call, or the predicates of the `filter` / `filter_map` / `then_some` stages an element went through.  C10.R1-R3 are then
stated on these records only.
"""
from .lib import iters
from .lib.iters import IT, SAME, FEWER, COLLECTING, SAME_ELEMS, elem_of
from .lib.paths import strip
from .lib.value import canon

DELTA = 'libcnb::layer_env::LayerEnvDelta'
FIELDS = ('layer_paths_build', 'layer_paths_launch')
THEN_SOME = ('std::primitive::bool::then_some', 'core::bool::<impl bool>::then_some', 'std::bool::<impl bool>::then_some')
THEN = ('std::primitive::bool::then', 'core::bool::<impl bool>::then', 'std::bool::<impl bool>::then')


class Entry:
    __slots__ = ('fld', 'target', 'beh', 'name', 'val', 'views', 'where', 'how', 'opaque', 'groups', 'levels')

    def __init__(self, fld, target, beh, name, val, views, where, how, opaque=False, groups=None, levels=()):
        self.fld, self.target, self.beh, self.name, self.val = fld, target, beh, name, val
        self.views, self.where, self.how = views, where, how
        self.opaque = opaque    # the entry also depends on a filter whose predicate could not be expressed
        # the boolean decisions the entry depends on, one list of (value, outcome) spellings per decision
        self.groups = groups if groups is not None else groups_of(views)
        self.levels = levels    # (Call, mapping) per level of the call chain that leads to the insert


# ---- normal form of a delta value -------------------------------------------------------------------------------
def _call_closure(prog, sl, v):
    """`f(args)` where f is a local closure value: what the closure returns for these arguments"""
    if v[0] != 'call' or len(v[2]) != 2:
        return None
    g = prog.fns.get(v[1])
    clv = strip(v[2][0])
    if clv[0] not in ('closure', 'fnitem') or (clv[0] == 'closure' and (g is None or g.kind != 'Closure')):
        return None
    tup = strip(v[2][1])
    if tup[0] != 'tuple':
        return None
    return sl.apply_closure(clv, tuple(tup[1]))


def normal(prog, sl, v, depth=0):
    """v with closure calls applied, private helpers inlined and field projections resolved, until an aggregate
    (or something opaque) is reached"""
    for _ in range(12):
        if not isinstance(v, tuple) or not v:
            return v
        v = strip(v)
        if v[0] == 'call':
            r = _call_closure(prog, sl, v)
            if r is None and v[1] in prog.fns:
                r = sl.inline_call(v)
            if r is None or r == v:
                return v
            v = r
            continue
        if v[0] == 'field' and depth < 6:
            b = normal(prog, sl, v[1], depth + 1)
            r = sl._field(b, v[2]) if b is not v[1] else v
            if r == v:
                return v
            v = r
            continue
        if v[0] == 'phi':
            alts = tuple(normal(prog, sl, x, depth + 1) for x in v[1]) if depth < 6 else v[1]
            uniq = []
            for a in alts:
                if a not in uniq:
                    uniq.append(a)
            return uniq[0] if len(uniq) == 1 else ('phi', tuple(uniq))
        return v
    return v


def is_empty_collection(v):
    """`BTreeMap::new()`, `Default::default()`, `Vec::new()`, `[]`: no elements"""
    v = strip(v)
    if v[0] == 'array' and not v[1]:
        return True
    if v[0] == 'call' and not v[2]:
        n = v[1]
        return n.endswith('::new') or n.endswith('::default') or n.endswith('::new_in') or n == 'std::iter::empty'
    return False


# ---- elements of an iterator expression, with the predicates they passed ---------------------------------------------
def _pred_views(sl, p, outcome=True, depth=0):
    """(boolean value, outcome) pairs that all hold when predicate value p evaluates to `outcome`"""
    out = []
    if not isinstance(p, tuple) or not p or depth > 4:
        return out
    p = strip(p)
    if p[0] == 'un' and str(p[1]).lower() in ('not', '!'):
        return _pred_views(sl, p[2], not outcome, depth + 1)
    if p[0] == 'bin' and str(p[1]).lower() in ('bitand', '&') and outcome is True:
        return _pred_views(sl, p[2], True, depth + 1) + _pred_views(sl, p[3], True, depth + 1)
    if p[0] == 'bin' and str(p[1]).lower() in ('bitor', '|') and outcome is False:
        return _pred_views(sl, p[2], False, depth + 1) + _pred_views(sl, p[3], False, depth + 1)
    if p[0] == 'phi':
        # `a && b` is phi(false, b) / `a || b` is phi(true, b): being true (false) needs the non-constant alternative
        rest = [x for x in p[1] if x != ('const', not outcome)]
        if len(rest) == 1 and len(rest) < len(p[1]):
            return _pred_views(sl, rest[0], outcome, depth + 1)
        return out
    out.append((p, outcome))
    q = sl.inline_deep(p)
    if q != p:
        for x in _pred_views(sl, q, outcome, depth + 1):
            note_alt(x, (p, outcome))       # another spelling of the same decision (see groups_of)
            if x not in out:
                out.append(x)
    return out


def _lossy(p, depth=0):
    """the boolean value p is the join of a branch (`a && b` computed with a jump is phi(false, b)): its being true also
    depends on the branch decision, which the value does not show"""
    if not isinstance(p, tuple) or not p or depth > 6:
        return False
    p = strip(p)
    if p[0] == 'un':
        return _lossy(p[2], depth + 1)
    if p[0] == 'bin':
        return _lossy(p[2], depth + 1) or _lossy(p[3], depth + 1)
    return p[0] == 'phi'


def _closure_pred_views(sl, clv, args, outcome=True):
    """a boolean closure written with branches (`|r| !r.is_symlink() && r.is_dir()`, `if c { x } else { false }`): every
    decision its returning `outcome` depends on — the value assigned on the one path that can yield `outcome` *and* the
    branch decisions that lead there — in the caller's terms.  None if the closure is not of that shape"""
    from .lib.guards import conditions
    from .lib.value import subst
    if not (isinstance(clv, tuple) and clv and clv[0] == 'closure'):
        return None
    g = sl.prog.fns.get(clv[1])
    if g is None or sl.apply_closure(clv, args) is None:     # (also creates the symbolic-capture slicer)
        return None
    sym = sl._sym
    defs = g.whole_defs(0)
    if len(defs) < 2:
        return None
    m = {(g.path, 1 + i): a for i, a in enumerate(args)}
    for i, uv in enumerate(clv[2]):
        m[('upvar', g.path, i)] = uv
    cands = []
    for d in defs:
        if d[0] not in ('stmt', 'call') or g.in_loop(d[1]):
            return None
        val = subst(sym._def_value(g, d, set(), 0), m, sl)
        if strip(val) == ('const', not outcome):
            continue
        cands.append((d, val))
    if len(cands) != 1:
        return None
    d, val = cands[0]
    if _lossy(val):
        return None
    out = []
    if strip(val) != ('const', outcome):
        out.extend(_pred_views(sl, val, outcome))
    for cd in conditions(g, d[1], sym):
        if cd.kind != 'bool' or _lossy(cd.value):
            return None
        for x in _pred_views(sl, subst(cd.value, m, sl), cd.outcome):
            if x not in out:
                out.append(x)
    return out


def _filter_views(sl, clv, args):
    """(views that hold for an element the predicate closure accepts, complete?)"""
    pv = _closure_pred_views(sl, clv, args)
    if pv is not None:
        return pv, True
    p = sl.apply_closure(clv, args)
    if p is None:
        return [], False
    return _pred_views(sl, p), not _lossy(p)


def _optional(sl, r, depth):
    """an Option-valued closure result as elements: [(payload, guards, opaque)] or None if r is not an Option shape"""
    r = strip(r) if isinstance(r, tuple) and r else r
    if not isinstance(r, tuple) or not r:
        return None
    if r[0] == 'agg' and r[1] == 'std::option::Option':
        if r[2] == 'None':
            return []
        if r[2] == 'Some' and len(r[3]) == 1:
            return [(r[3][0][1], (), False)]
        return None
    if r[0] == 'call' and len(r[2]) == 2 and r[1] in THEN_SOME:
        return [(r[2][1], tuple(_pred_views(sl, r[2][0])), _lossy(r[2][0]))]
    if r[0] == 'call' and len(r[2]) == 2 and r[1] in THEN:
        x = sl.apply_closure(r[2][1], ())
        if x is not None:
            return [(x, tuple(_pred_views(sl, r[2][0])), _lossy(r[2][0]))]
        return None
    if r[0] == 'phi' and depth < 6:
        out = []
        for x in r[1]:
            o = _optional(sl, x, depth + 1)
            if o is None:
                return None
            # which alternative is taken is decided by a branch this value does not show
            out.extend((e, g, True) for e, g, _ in o)
        return out
    return None


def _closure_optional(sl, clv, args):
    """an Option-returning closure written with branches (`if c { Some(x) } else { None }`): every `Some(..)` it can
    return, with the branch decisions that lead to it, in the caller's terms.  None if the closure is not of that shape"""
    from .lib.guards import conditions
    from .lib.value import subst
    if not (isinstance(clv, tuple) and clv and clv[0] == 'closure'):
        return None
    g = sl.prog.fns.get(clv[1])
    if g is None or sl.apply_closure(clv, args) is None:     # (also creates the symbolic-capture slicer)
        return None
    sym = sl._sym
    defs = g.whole_defs(0)
    if not defs:
        return None
    m = {(g.path, 1 + i): a for i, a in enumerate(args)}
    for i, uv in enumerate(clv[2]):
        m[('upvar', g.path, i)] = uv
    out = []
    for d in defs:
        if d[0] != 'stmt' or d[3].get('r') != 'agg' or d[3].get('kind') != 'adt' or d[3].get('adt') != 'std::option::Option':
            return None
        if d[3]['variant'] == 'None':
            continue
        if d[3]['variant'] != 'Some' or len(d[3]['ops']) != 1 or g.in_loop(d[1]):
            return None
        payload = subst(sym.operand(g, d[3]['ops'][0]), m, sl)
        guards = []
        lossy = False
        for cd in conditions(g, d[1], sym):
            if cd.kind != 'bool':
                continue
            lossy = lossy or _lossy(cd.value)
            for v, oc in cd.views():
                for x in _pred_views(sl, subst(v, m, sl), oc):
                    if x not in guards:
                        guards.append(x)
        out.append((payload, tuple(guards), lossy))
    return out


def _apply_optional(sl, clv, args):
    """closure result as optional elements [(payload, guards, opaque)], or None"""
    r = sl.apply_closure(clv, args)
    if r is None:
        return None
    opt = _optional(sl, r, 0)
    if opt is None or any(o for _, _, o in opt):
        br = _closure_optional(sl, clv, args)
        if br is not None:
            return br
    return opt


def elements(sl, v, depth=0):
    """[(element, collection | None, guards, opaque)] for iterating v — lib/iters.alts, additionally carrying the
    predicates of the filtering stages: guards = ((boolean value, outcome)..) hold for the element; opaque = the element
    also went through a filter whose predicate could not be expressed"""
    if depth > 10 or not isinstance(v, tuple) or not v:
        return [(elem_of(v), v, (), False)]
    k = v[0]
    if k in ('unwrap', 'updated'):
        inner = elements(sl, v[1], depth + 1)
        if not (len(inner) == 1 and inner[0][1] is not None and canon(inner[0][1]) == canon(v[1])):
            return inner
        return [(elem_of(v), v, (), False)]
    if k == 'tuple' and len(v[1]) == 1:
        return elements(sl, v[1][0], depth + 1)    # the argument tuple of a closure call
    if is_empty_collection(v):
        return []
    if k == 'array' and len(v[1]) <= 16:
        return [(x, None, (), False) for x in v[1]]
    if k == 'phi':
        out = []
        for x in v[1]:
            out.extend(elements(sl, x, depth + 1))
        return out
    if k == 'call' and v[2]:
        name, args = v[1], v[2]
        if name == 'std::iter::once' and len(args) == 1:
            return [(args[0], None, (), False)]
        if name == IT + 'chain' and len(args) == 2:
            return elements(sl, args[0], depth + 1) + elements(sl, args[1], depth + 1)
        if name in SAME or name in COLLECTING:
            return elements(sl, args[0], depth + 1)
        if name == IT + 'filter' and len(args) == 2:
            out = []
            for e, f, g, o in elements(sl, args[0], depth + 1):
                pv, complete = _filter_views(sl, args[1], (e,))
                out.append((e, f, g + tuple(x for x in pv if x not in g), o or not pv or not complete))
            return out
        if name in FEWER:
            return [(e, f, g, True) for e, f, g, o in elements(sl, args[0], depth + 1)]
        if name == IT + 'map' and len(args) == 2:
            out = []
            for e, f, g, o in elements(sl, args[0], depth + 1):
                r = sl.apply_closure(args[1], (e,))
                out.append((r if r is not None else ('call', 'closure-result', (args[1], e), None), f, g, o))
            return out
        if name in (IT + 'filter_map', IT + 'map_while') and len(args) == 2:
            out = []
            for e, f, g, o in elements(sl, args[0], depth + 1):
                r = sl.apply_closure(args[1], (e,))
                opt = _apply_optional(sl, args[1], (e,))
                if opt is None:
                    out.append((sl.mk_unwrap(r, 1) if r is not None else ('unknown', 'filter_map'), f, g, True))
                    continue
                for e2, g2, o2 in opt:
                    out.append((e2, f, g + tuple(x for x in g2 if x not in g), o or o2 or name != IT + 'filter_map'))
            return out
        if name == IT + 'flat_map' and len(args) == 2:
            out = []
            for e, f, g, o in elements(sl, args[0], depth + 1):
                r = sl.apply_closure(args[1], (e,))
                if r is None:
                    return [(elem_of(v), v, (), False)]
                opt = _apply_optional(sl, args[1], (e,))
                inner = [(e2, None, g2, o2) for e2, g2, o2 in opt] if opt is not None else elements(sl, r, depth + 1)
                for e2, f2, g2, o2 in inner:
                    out.append((e2, f if f is not None else f2, g + tuple(x for x in g2 if x not in g), o or o2))
            return out
        if name == IT + 'flatten' and len(args) == 1:
            out = []
            for e, f, g, o in elements(sl, args[0], depth + 1):
                opt = _optional(sl, e, 0)
                inner = [(e2, None, g2, o2) for e2, g2, o2 in opt] if opt is not None else elements(sl, e, depth + 1)
                for e2, f2, g2, o2 in inner:
                    out.append((e2, f if f is not None else f2, g + tuple(x for x in g2 if x not in g), o or o2))
            return out
        if iters._is_source(name) and len(args) == 1 and name.endswith(SAME_ELEMS):
            return elements(sl, args[0], depth + 1)
        # enumerate / zip / other sources: what lib/iters says, without predicates
        return [(e, f, (), bool(fl)) for e, f, fl in iters.alts(sl, v, depth)]
    return [(elem_of(v), v, (), False)]


# ---- entries a delta value is constructed with -----------------------------------------------------------------------
def split_entry(elem):
    """an element of `entries`: ((behaviour, name), value) -> (behaviour, name, value) or None"""
    e = strip(elem)
    if e[0] != 'tuple' or len(e[1]) != 2:
        return None
    key = strip(e[1][0])
    if key[0] != 'tuple' or len(key[1]) != 2:
        return None
    return key[1][0], key[1][1], e[1][1]


def constructed(prog, sl, g, fields=FIELDS):
    """what the implicit-path fields of the `LayerEnv` returned by g are constructed with.
    -> (entries: [Entry], opaque: [(fld, value)] fields whose initial content could not be enumerated)"""
    where = '%s:%d' % (g.file, g.line)
    ok = sl.mk_unwrap(sl.local(g, 0), 1)
    entries, opaque = [], []
    for fld in fields:
        fv = normal(prog, sl, sl._field(ok, fld))
        alts_ = fv[1] if fv[0] == 'phi' else (fv,)
        if len(alts_) > 1 and any(strip(x)[0] == 'agg' and strip(x)[1] == DELTA for x in alts_):
            # `if c { LayerEnvDelta { entries: .. } } else { LayerEnvDelta::new() }`: which content the field gets is
            # decided by a branch the entries do not show
            opaque.append((fld, fv))
        for dv in alts_:
            dv = strip(dv)
            if is_empty_collection(dv):
                continue
            if not (dv[0] == 'agg' and dv[1] == DELTA):
                opaque.append((fld, dv))
                continue
            ev = sl._field(dv, 'entries')
            if ev[0] == 'field':
                opaque.append((fld, dv))
                continue
            for elem, forall, guards, opq in elements(sl, ev):
                sp = split_entry(elem)
                if sp is None or forall is not None:
                    # elements that are not literal rows of a table (e.g. entries read from somewhere else)
                    opaque.append((fld, elem if forall is None else forall))
                    continue
                entries.append(Entry(fld, ('field', ('const', 'Self'), fld), sp[0], sp[1], sp[2], list(guards), where,
                                     'constructed', opq))
    return entries, opaque



# ---- inserts into a delta that a private helper creates, fills and returns -------------------------------------------
def _creation(v):
    """(callee name, site) of a value that is the result of one particular call (`LayerEnvDelta::new()` at bb0 of the
    helper): the identity of the object, independent of the argument spelling.  None for anything else"""
    v = strip(v)
    if v[0] == 'agg' and v[1] == 'std::result::Result' and v[2] == 'Ok' and len(v[3]) == 1:
        v = strip(v[3][0][1])       # `Ok(delta)`: the caller's `?` / unwrap names the payload
    if v[0] == 'call' and len(v) == 4 and isinstance(v[3], tuple) and len(v[3]) == 2 and isinstance(v[3][0], str):
        return v[1], v[3]
    return None


def returned_into(prog, sl, g, ok, target, levels, fields=FIELDS):
    """`fn from_rows(rows) -> LayerEnvDelta { let mut d = LayerEnvDelta::new(); for .. { d.insert(..) } d }` with
    `LayerEnv { layer_paths_build: from_rows(&[..]), .. }`: the insert acts on the object the helper creates, the helper
    returns that very object (its return value *is* the creation call, not an alternative of it), and the result of the
    call of the helper that is on the effect's chain *is* what the field of the returned LayerEnv is constructed with
    (again exactly, not one alternative).  -> the field name, or None if the object cannot be followed into one of
    `fields` that way (then the insert is what it looks like: an insert into some other delta)"""
    ident = _creation(target)
    for _ in range(6):
        if ident is None:
            return None
        name, (fpath, bb) = ident
        if fpath == g.path:
            for fld in fields:
                if _creation(sl._field(ok, fld)) == ident:
                    # no other field / alternative is constructed with the same object
                    if not any(_creation(sl._field(ok, o)) == ident for o in fields if o != fld):
                        return fld
            return None
        h = prog.fns.get(fpath)
        if h is None or h.kind == 'Closure' or (isinstance(bb, int) and h.in_loop(bb)):
            return None
        if _creation(sl.local(h, 0)) != ident:
            return None     # the helper returns something else (or only sometimes this object)
        up = [c for c, _ in levels if c.name == fpath and not c.indirect]
        if len(up) != 1:
            return None
        ident = (fpath, (up[0].fn.path, up[0].bb))
    return None


# ---- loop elements that become literal rows only at the call site ---------------------------------------------------
def _replace(v, key, new):
    """v with every sub-value whose canonical form is `key` replaced by `new`"""
    if not isinstance(v, tuple) or not v:
        return v
    if canon(v) == key:
        return new
    return tuple(_replace(x, key, new) if isinstance(x, tuple) else x for x in v)


def _rows_of(sl, coll):
    """concrete elements of coll: [(element, guards, opaque)] or None if coll does not decompose into literal rows"""
    els = elements(sl, coll)
    if not els or any(fa is not None for _, fa, _, _ in els):
        return None
    return [(el, g, o) for el, _, g, o in els]


def _adapter_rows(E, e, coll):
    """a closure run by an iterator adapter / consumer (`rows.iter().filter(p).for_each(body)`) names its element after
    the underlying collection; the stages between the collection and the closure (filters, filter_maps) decide for which
    rows the closure runs.  -> [(row, guards, opaque)] from the receiver of that adapter call in the entry function's
    terms, evaluated row by row; None if the receiver cannot be found / evaluated"""
    sl = E.slicer
    key = canon(coll)
    rows = _rows_of(sl, coll)
    if rows is None:
        return None
    for link in reversed(e.chain):
        d = link.decl or ''
        if not d.startswith('std::iter::') or not link.args:
            continue
        ridx = 1 if d == 'std::iter::Extend::extend' else 0
        if ridx >= len(link.args):
            continue
        recv = E.subst(sl.operand(link.fn, link.args[ridx]), link.mapping or {})
        if not any(x[0] == 'array' and canon(x) == key for x in _walk(recv)):
            continue
        out = []
        for row, g0, o0 in rows:
            els = elements(sl, _replace(recv, key, ('array', (row,))))
            if any(fa is not None for _, fa, _, _ in els):
                return None
            if not els:
                continue        # no element of the pipeline stems from this row: the closure does not run for it
            common = [gd for gd in els[0][2] if all(gd in x[2] for x in els[1:])]
            out.append((row, tuple(g0) + tuple(gd for gd in common if gd not in g0), o0 or any(x[3] for x in els)))
        return out
    # a `for` loop of a private helper over a pipeline on a parameter (`for &(n, p) in specs.iter().filter(pred)` with the
    # table handed in by the caller): the loop element is named after the caller's table; the stages in the loop header
    # decide for which rows the body runs.  The header pipeline in the entry function's terms, evaluated row by row.
    for call, m in reversed(level_calls(e)):
        plain = dict(m or {})
        plain.pop('__repl__', None)
        for lp in sorted(E.loops(call.fn), key=lambda l: len(l.body)):
            if call.bb not in lp.body or call.bb == lp.header or lp.collection is None:
                continue
            recv = E.subst(lp.collection, plain)
            if not any(x[0] == 'array' and canon(x) == key for x in _walk(recv)):
                continue
            out = []
            for row, g0, o0 in rows:
                els = elements(sl, _replace(recv, key, ('array', (row,))))
                if any(fa is not None for _, fa, _, _ in els):
                    return None
                if not els:
                    continue
                common = [gd for gd in els[0][2] if all(gd in x[2] for x in els[1:])]
                out.append((row, tuple(g0) + tuple(gd for gd in common if gd not in g0), o0 or any(x[3] for x in els)))
            return out
    # the adapter call is not on the chain: the rows are known, what filters them is not
    return [(row, g, True) for row, g, _ in rows]


def _walk(v):
    from .lib.value import walk
    return walk(v)


def _loop_elements(E, e, vals):
    """`unwrap(Iterator::next(coll))` sub-values of vals that are the element of a loop around the effect e (or around
    a call of e's chain) whose collection — in the entry function's terms, i.e. after the caller's arguments have been
    substituted — decomposes into concrete elements: [(loop element value, [(element, guards, opaque)])].
    (lib/effects unrolls a loop when its collection is a literal table in the terms of the function that contains the
    loop; a private helper that is handed the table as a parameter is the same loop seen from one level down.)"""
    sl = E.slicer
    calls = list(e.chain) + ([e.call] if e.call is not None else [])
    out, seen = [], set()
    for v in vals:
        for x in _walk(v):
            if not (x[0] == 'unwrap' and isinstance(x[1], tuple) and x[1] and x[1][0] == 'call' and x[1][1] == IT + 'next'
                    and len(x[1]) == 4 and len(x[1][2]) == 1):
                continue
            key = canon(x)
            if key in seen:
                continue
            seen.add(key)
            site = x[1][3]
            if site is None:
                # lib/iters.elem_of: the parameter of a closure run by an iterator adapter over the collection
                rows = _adapter_rows(E, e, x[1][2][0]) if strip(x[1][2][0])[0] == 'array' else None
                if rows is not None:
                    out.append((x, rows))
                continue
            if not (isinstance(site, tuple) and len(site) == 2):
                continue
            fpath, hbb = site
            f = E.prog.fns.get(fpath)
            if f is None:
                continue
            # the `next` call must be the head of a loop whose body contains the effect (a lone `it.next().unwrap()`
            # names the first element only)
            lp = [l for l in E.loops(f) if l.header == hbb]
            if not lp or not any(c.fn.path == fpath and c.bb in lp[0].body and c.bb != hbb for c in calls):
                continue
            rows = _rows_of(sl, x[1][2][0])
            if rows is not None:
                out.append((x, rows))
    return out


def unrolled(E, e, args, views, depth=0):
    """the effect e (argument values, guard views) once per row of the literal tables its loop elements range over:
    [(args, views, opaque)]"""
    from .lib.value import subst
    sl = E.slicer
    if depth > 3:
        return [(args, views, False)]
    les = _loop_elements(E, e, list(args) + [v for v, _ in views])
    if not les:
        return [(args, views, False)]
    x, els = les[0]
    out = []
    for el, guards, opq in els:
        m = {'__repl__': [(canon(x), el)]}
        a2 = tuple(subst(a, m, sl) for a in args)
        v2 = [(subst(v, m, sl), oc) for v, oc in views]
        v2.extend(gd for gd in guards if gd not in v2)
        for a3, v3, o3 in unrolled(E, e, a2, v2, depth + 1):
            out.append((a3, v3, opq or o3))
    return out


# =====================================================================================================================
# "exactly when": the other direction.  R2 says an implicit entry exists *only if* its directory is one; the functions
# below decide that it exists *whenever* the directory is one:
#   * guard groups      every boolean decision an entry depends on is the Path::is_dir test of its own directory (an extra
#                       conjunct — `is_dir() && !is_symlink()` — makes the entry rarer than the property allows)
#   * bypass            in the control-flow graph of every function on the way to the insert, no path gets from the start
#                       of the region (the loop iteration / the function) to its end without the insert, unless it leaves
#                       through the "not a directory" edge of the is_dir test (or cannot end in a success of the function)
#   * exhaustive        the loop over the rows is only left when the rows are exhausted (a `break` / early `return Ok`
#                       / a short-circuiting consumer whose closure can say "stop" skips the remaining rows)
# =====================================================================================================================
IS_DIR = 'std::path::Path::is_dir'
EXISTS = 'std::path::Path::exists'
_ALT = {}      # canonical (view, outcome) -> canonical (view, outcome) it is another spelling of (helper inlined)


def note_alt(view, of):
    k, r = (canon(view[0]), view[1]), (canon(of[0]), of[1])
    if k != r:
        _ALT[k] = r


def group_key(view):
    k = (canon(view[0]), view[1])
    for _ in range(8):
        if k not in _ALT:
            break
        k = _ALT[k]
    return k


def groups_of(views):
    """views that are spellings of the same decision, together: [[(value, outcome)..]..]"""
    out, idx = [], {}
    for v in views:
        k = group_key(v)
        if k not in idx:
            idx[k] = len(out)
            out.append([])
        out[idx[k]].append(v)
    return out


def is_dir_of(view, root, comps, weak=False):
    """the directory name d when the view is `Path::is_dir(<root>/d) == true`, else None; weak: `Path::exists(<root>/d)
    == true` as well (implied by is_dir: `p.exists() && p.is_dir()` depends on nothing but is_dir)"""
    v, oc = view
    if isinstance(v, tuple) and v and v[0] == 'call' and v[1] in ((IS_DIR, EXISTS) if weak else (IS_DIR,)) and oc is True and v[2]:
        cs = comps(v[2][0], root)
        if cs is not None and len(cs) == 1 and isinstance(cs[0], str):
            return cs[0]
    return None


def is_layer_dir_test(view, root, comps):
    """`Path::is_dir(<root>) == true` / `Path::exists(<root>) == true`: holds whenever a sub-directory of the layer
    directory is a directory, so it takes nothing away from the row's own test"""
    v, oc = view
    return isinstance(v, tuple) and bool(v) and v[0] == 'call' and v[1] in (IS_DIR, EXISTS) and oc is True \
        and bool(v[2]) and comps(v[2][0], root) == ()


def level_calls(e):
    """(Call, mapping) of every level of the chain of effect e, outermost first"""
    from .lib.effects import Link
    return [(l.call, l.mapping) for l in e.chain if isinstance(l, Link)] + ([(e.call, e.mapping)] if e.call is not None else [])


def header_guards(E, e):
    """a loop that lib/effects unrolled over `rows.into_iter().filter(p)` (a pipeline in the loop header) runs its body
    only for the rows that pass the stages: the predicates of those stages for the row of this effect, in the entry
    function's terms.  -> ([(value, outcome)..], opaque)"""
    sl = E.slicer
    guards, opaque = [], False
    for call, m in level_calls(e):
        m = m or {}
        for key, row in m.get('__repl__', ()) or ():
            if _is_loop_elem(row) and any(canon(x) == canon(row) for a in e.args[:4] for x in _walk(a)):
                continue        # not one row but "the element" of the caller's table: unrolled() evaluates the header
                                # pipeline row by row (_adapter_rows), with the predicates of each row
            for lp in E.loops(call.fn):
                if call.bb not in lp.body or lp.collection is None or iters.loop_key(lp.collection) != key:
                    continue
                plain = dict(m)
                plain.pop('__repl__', None)
                coll = E.subst(lp.collection, plain)
                if not any(x[0] == 'call' and x[1].startswith(IT) for x in _walk(coll)):
                    continue        # a plain table: every row is visited
                els = elements(sl, coll)
                hit = [x for x in els if x[1] is None and canon(x[0]) == canon(row)]
                if len(hit) != 1:
                    opaque = True
                    continue
                for gd in hit[0][2]:
                    if gd not in guards:
                        guards.append(gd)
                opaque = opaque or hit[0][3]
    # `rows.into_iter().filter(p).for_each(|row| ..)`: lib/effects runs the closure once per row of the receiver, with the
    # row bound to the closure's parameter; the stages between the table and the consumer decide for which rows
    lv = level_calls(e)
    for i, (call, m) in enumerate(lv[:-1]):
        d = call.decl or ''
        if not d.startswith('std::iter::') or not call.args:
            continue
        g = lv[i + 1][0].fn
        while g.kind == 'Closure' and g.parent and creation_fn(E.prog, g) is not call.fn and g.parent in E.prog.fns and E.prog.fns[g.parent].kind == 'Closure':
            g = E.prog.fns[g.parent]
        m2 = lv[i + 1][1] or {}
        bound = [m2[k] for k in ((g.path, 1), (g.path, 2)) if k in m2]
        ridx = 1 if d == 'std::iter::Extend::extend' else 0
        if not bound or ridx >= len(call.args):
            continue
        plain = dict(m or {})
        plain.pop('__repl__', None)
        recv = E.subst(sl.operand(call.fn, call.args[ridx]), m or {})
        if not any(x[0] == 'call' and x[1].startswith(IT) and x[1] != IT + 'next' for x in _walk(recv)):
            continue
        els = elements(sl, recv)
        hit = [x for x in els if x[1] is None and any(canon(x[0]) == canon(b) for b in bound)]
        if len(hit) != 1:
            opaque = True
            continue
        for gd in hit[0][2]:
            if gd not in guards:
                guards.append(gd)
        opaque = opaque or hit[0][3]
    return guards, opaque


def _is_loop_elem(v):
    return isinstance(v, tuple) and len(v) == 2 and v[0] == 'unwrap' and isinstance(v[1], tuple) and len(v[1]) == 4 and \
        v[1][0] == 'call' and v[1][1] == IT + 'next' and v[1][3] is None


def creation_fn(prog, g):
    from .lib.guards import creation_site
    return creation_site(prog, g)[0]


def _succ_reach(E, f):
    """(success blocks, blocks from which one of them can be reached)"""
    succ = {s.bb for s in E.sites(f)} or set(f.return_blocks())
    preds = f.preds()
    back, work = set(), list(succ)
    while work:
        b = work.pop()
        if b in back:
            continue
        back.add(b)
        work.extend(preds[b])
    return succ, back


def _search(f, starts, avoid, skip, stop):
    """first block satisfying stop() that is reachable from starts without entering a block of `avoid` or using an edge of
    `skip`; None if there is none"""
    seen, work = set(), [b for b in starts]
    while work:
        b = work.pop()
        if b in seen or b in avoid:
            continue
        seen.add(b)
        if stop(b):
            return b
        for s in f.succs(b):
            if (b, s) not in skip:
                work.append(s)
    return None


def _row_infeasible_edges(E, f, lp, m):
    """edges of `match <projection of the row>` switches inside loop lp that no row of the (literal) table takes:
    `_ => continue` next to `Scope::Build` / `Scope::Launch` arms is dead code when every row is Build or Launch"""
    from .lib.guards import _discr_info
    from .lib.value import subst
    sl = E.slicer
    out = set()
    if lp.collection is None:
        return out
    plain = dict(m or {})
    plain.pop('__repl__', None)
    rows = _rows_of(sl, E.subst(lp.collection, plain))
    if not rows:
        return out
    key = iters.loop_key(lp.collection)
    for sb in lp.body:
        t = f.blocks[sb]['t']
        if t['t'] != 'switch':
            continue
        di = _discr_info(f, sb, t['o'])
        if not di:
            continue
        place, vmap, enum = di
        subj = sl.place(f, place)
        taken = set()
        for row, _, _ in rows:
            sv = strip(subst(E.subst(subj, plain), {'__repl__': [(key, row)]}, sl))
            if sv[0] == 'agg' and sv[1] == enum and sv[2] is not None:
                taken.add(sv[2])
            else:
                taken = None
                break
        if not taken:
            continue
        listed = {v for v, _ in t['targets']}
        live = set()
        for v, tb in t['targets']:
            if vmap.get(v) in taken:
                live.add(tb)
        if any(n in taken for v, n in vmap.items() if v not in listed):
            live.add(t['else'])
        for s in f.succs(sb):
            if s not in live:
                out.add((sb, s))
    return out


def _no_layer_dir_edges(f, sl, root, comps):
    """edges taken when the layer directory itself does not exist / is not a directory (`if !layer_dir.is_dir() { return
    Ok(Self::new()) }`): none of its sub-directories is a directory then, so nothing is lost on them"""
    out = set()
    for sb, blk in enumerate(f.blocks):
        t = blk['t']
        if t['t'] != 'switch' or t.get('oty') != 'bool':
            continue
        val, neg = sl.operand(f, t['o']), False
        while val[0] == 'un' and val[1] == 'Not':
            val, neg = val[2], not neg
        if not (val[0] == 'call' and val[1] in (IS_DIR, 'std::path::Path::exists') and val[2] and comps(val[2][0], root) == ()):
            continue
        for v, tb in t['targets']:
            if (v == 0) != neg:
                out.add((sb, tb))
        listed = [v for v, _ in t['targets']]
        if (listed == [1]) != neg and len(listed) == 1:
            out.add((sb, t['else']))
    return out


def sufficiency(E, call, mapping, targets, root=None, comps=None):
    """problems [(kind 'always' | 'exhaustive' | 'unknown', text)] with "the call runs for every row whose directory
    exists" inside call.fn; `targets` = blocks of all calls of this function that lead to an entry of the same kind;
    root / comps: the layer directory in call.fn's terms (given for the entry function only)"""
    from .lib.guards import conditions
    f, bb, sl = call.fn, call.bb, E.slicer
    probs = []
    succ, back = _succ_reach(E, f)
    skip = set()
    if root is not None:
        skip |= _no_layer_dir_edges(f, sl, root, comps)
    for cd in conditions(f, bb, sl):
        if cd.kind == 'bool' and any(isinstance(v, tuple) and v and v[0] == 'call' and v[1] in (IS_DIR, EXISTS) for v, _ in cd.views()):
            for s in f.succs(cd.sw_bb):
                if s != cd.target:
                    skip.add((cd.sw_bb, s))
    loops = sorted([lp for lp in E.loops(f) if bb in lp.body and bb != lp.header], key=lambda lp: len(lp.body))
    avoid = set(targets)
    for lp in loops:
        ex = getattr(lp, 'exhaust', None)
        if ex is None:
            probs.append(('unknown', 'the loop at bb%d of %s around the insert has no recognisable exhaustion edge' % (lp.header, f.path)))
            avoid = {lp.header}
            continue
        dead = _row_infeasible_edges(E, f, lp, mapping)
        skip |= dead
        starts = [s for s in f.succs(ex[0]) if s in lp.body]
        hit = _search(f, starts, avoid, skip, lambda b: b == lp.header or (b not in lp.body and b in back))
        if hit is not None:
            probs.append(('always', 'an iteration of the row loop of %s can end (bb%d) without the insert although the is_dir test of the row passed'
                          % (f.path.split('::')[-1], hit)))
        for b in sorted(lp.body):
            for s in f.succs(b):
                # (leaving through the "not a directory" edge of the is_dir test is leaving early, too)
                if s in lp.body or (b, s) == tuple(ex) or (b, s) in dead or s not in back:
                    continue
                probs.append(('exhaustive', 'the row loop of %s is left at bb%d -> bb%d before the rows are exhausted: the remaining rows are skipped'
                              % (f.path.split('::')[-1], b, s)))
        avoid = {lp.header}
    hit = _search(f, [0], avoid, skip, lambda b: b in succ)
    if hit is not None:
        probs.append(('always', '%s can return successfully (bb%d) without getting to the insert although the is_dir test passed'
                      % (f.path.split('::')[-1], hit)))
    return probs


CONTINUE_AGG = {('std::option::Option', 'Some'), ('std::result::Result', 'Ok'), ('std::ops::ControlFlow', 'Continue')}
# consumers that call their closure for every element they are given (the lazy adapters — map, inspect, filter.. — call
# theirs only as far as whatever consumes them pulls: a side effect in there is not known to happen for every row)
EVERY_ELEMENT = {IT + 'for_each', IT + 'fold'}


def adapter_problem(E, call, mapping):
    """a closure that carries the insert is run by an iterator adapter: does the adapter run it for every element?
    None | (kind, text)"""
    sl = E.slicer
    d = call.decl or ''
    if not d.startswith('std::iter::'):
        return None
    if d in EVERY_ELEMENT:
        return None
    if d in (IT + 'try_for_each', IT + 'try_fold'):
        ci = 1 if d == IT + 'try_for_each' else 2
        if ci < len(call.args):
            clv = strip(sl.operand(call.fn, call.args[ci]))
            g = E.prog.fns.get(clv[1]) if clv and clv[0] == 'closure' else None
            if g is not None:
                rv = strip(sl.local(g, 0))
                alts_ = rv[1] if rv[0] == 'phi' else (rv,)
                if all(a[0] == 'agg' and (a[1], a[2]) in CONTINUE_AGG for a in map(strip, alts_)):
                    return None
                return ('exhaustive', '%s stops at the first row for which its closure returns None / Err / Break, and the closure can: the remaining '
                        'rows are skipped' % d.split('::')[-1])
    return ('unknown', 'the insert runs inside a closure handed to %s, which need not call it for every row' % d.split('::')[-1])


# ---- LayerData.env ---------------------------------------------------------------------------------------------------
LAYER_DATA = 'libcnb::layer::trait_api::LayerData'


def _closure_binding(prog, sl, g):
    """a closure handed to an Option / Result combinator (`read(..).map_err(..).map(|env| ..)`): (closure value in the
    parent's terms, value its first parameter is bound to) or (None, None)"""
    from .lib.guards import creation_site
    parent, cb = creation_site(prog, g)
    if parent is None:
        return None, None
    for c in parent.calls:
        if c.indirect or len(c.args) != 2:
            continue
        n = c.decl or c.name or ''
        if not n.startswith(('std::option::Option::', 'std::result::Result::')) or not n.endswith(('::map', '::and_then')):
            continue
        clv = strip(sl.operand(parent, c.args[1]))
        if clv[0] == 'closure' and clv[1] == g.path:
            return clv, ('unwrap', sl._ok_core(sl.operand(parent, c.args[0])))
    return None, None


def layer_data_inits(prog, sl, reader):
    """every construction of a `LayerData` value: [(fn, where, env value, path value, why-not-decidable | None)] with the
    env / path field values in the terms of the function that runs the construction (closure parameters bound through
    the combinator the closure was handed to)"""
    from .lib.value import subst
    out = []
    for f in prog.fns.values():
        if f.crate != 'libcnb' or getattr(f, 'derived', False):
            continue
        for bi, b in enumerate(f.blocks):
            for s in b['s']:
                if s[0] != '=' or s[2].get('r') != 'agg' or s[2].get('kind') != 'adt' or s[2].get('adt') != LAYER_DATA:
                    continue
                names = s[2].get('fields', [])
                ops = s[2].get('ops', [])
                where = '%s:%d' % (f.file, f.line)
                if 'env' not in names or 'path' not in names or len(ops) != len(names):
                    out.append((f, where, None, None, 'construction not understood'))
                    continue
                src = sl
                m = None
                if f.kind == 'Closure':
                    clv, bound = _closure_binding(prog, sl, f)
                    if clv is None or sl.apply_closure(clv, (bound,)) is None:
                        out.append((f, where, None, None, 'built inside a closure whose argument could not be traced'))
                        continue
                    src = sl._sym
                    m = {(f.path, 1): bound}
                    for i, uv in enumerate(clv[2]):
                        m[('upvar', f.path, i)] = uv
                ev = src.operand(f, ops[names.index('env')])
                pv = src.operand(f, ops[names.index('path')])
                if m is not None:
                    ev, pv = subst(ev, m, sl), subst(pv, m, sl)
                out.append((f, where, ev, pv, None))
    return out
