"""C10 helpers — the content of a delta, independent of how it is filled.

A `LayerEnvDelta` stored in one of the implicit-path fields gets its entries in two ways:
  * `insert` calls on the field (effects; enumerated by lib/effects with the row of an unrolled table substituted), and
  * the value the field is *constructed* with: `LayerEnvDelta { entries: <iterator expression>.collect() }`, possibly
    produced by a local closure / private helper and placed into the `LayerEnv` literal.
Both are reduced to the same record

    Entry(fld, target, beh, name, val, views, where)

where `views` are the (boolean value, required outcome) pairs the entry exists under: branch decisions around an insert
call, or the predicates of the `filter` / `filter_map` / `then_some` stages an element went through.  C10.R1-R3 are then
stated on these records only.
"""
from .lib import iters
from .lib.iters import IT, SAME, FEWER, COLLECTING, SAME_ELEMS, elem_of
from .lib.paths import strip
from .lib.value import canon

DELTA = 'libcnb::layer_env::LayerEnvDelta'
FIELDS = ('layer_paths_build', 'layer_paths_launch')
THEN_SOME = ('std::primitive::bool::then_some', 'core::bool::<impl bool>::then_some', 'std::bool::<impl bool>::then_some')
THEN = ('std::primitive::bool::then', 'core::bool::<impl bool>::then', 'std::bool::<impl bool>::then')


class Entry:
    __slots__ = ('fld', 'target', 'beh', 'name', 'val', 'views', 'where', 'how', 'opaque')

    def __init__(self, fld, target, beh, name, val, views, where, how, opaque=False):
        self.fld, self.target, self.beh, self.name, self.val = fld, target, beh, name, val
        self.views, self.where, self.how = views, where, how
        self.opaque = opaque    # the entry also depends on a filter whose predicate could not be expressed


# ---- normal form of a delta value -------------------------------------------------------------------------------
def _call_closure(prog, sl, v):
    """`f(args)` where f is a local closure value: what the closure returns for these arguments"""
    if v[0] != 'call' or len(v[2]) != 2:
        return None
    g = prog.fns.get(v[1])
    clv = strip(v[2][0])
    if clv[0] not in ('closure', 'fnitem') or (clv[0] == 'closure' and (g is None or g.kind != 'Closure')):
        return None
    tup = strip(v[2][1])
    if tup[0] != 'tuple':
        return None
    return sl.apply_closure(clv, tuple(tup[1]))


def normal(prog, sl, v, depth=0):
    """v with closure calls applied, private helpers inlined and field projections resolved, until an aggregate
    (or something opaque) is reached"""
    for _ in range(12):
        if not isinstance(v, tuple) or not v:
            return v
        v = strip(v)
        if v[0] == 'call':
            r = _call_closure(prog, sl, v)
            if r is None and v[1] in prog.fns:
                r = sl.inline_call(v)
            if r is None or r == v:
                return v
            v = r
            continue
        if v[0] == 'field' and depth < 6:
            b = normal(prog, sl, v[1], depth + 1)
            r = sl._field(b, v[2]) if b is not v[1] else v
            if r == v:
                return v
            v = r
            continue
        if v[0] == 'phi':
            alts = tuple(normal(prog, sl, x, depth + 1) for x in v[1]) if depth < 6 else v[1]
            uniq = []
            for a in alts:
                if a not in uniq:
                    uniq.append(a)
            return uniq[0] if len(uniq) == 1 else ('phi', tuple(uniq))
        return v
    return v


def is_empty_collection(v):
    """`BTreeMap::new()`, `Default::default()`, `Vec::new()`, `[]`: no elements"""
    v = strip(v)
    if v[0] == 'array' and not v[1]:
        return True
    if v[0] == 'call' and not v[2]:
        n = v[1]
        return n.endswith('::new') or n.endswith('::default') or n.endswith('::new_in') or n == 'std::iter::empty'
    return False


# ---- elements of an iterator expression, with the predicates they passed ---------------------------------------------
def _pred_views(sl, p, outcome=True, depth=0):
    """(boolean value, outcome) pairs that all hold when predicate value p evaluates to `outcome`"""
    out = []
    if not isinstance(p, tuple) or not p or depth > 4:
        return out
    p = strip(p)
    if p[0] == 'un' and str(p[1]).lower() in ('not', '!'):
        return _pred_views(sl, p[2], not outcome, depth + 1)
    if p[0] == 'bin' and str(p[1]).lower() in ('bitand', '&') and outcome is True:
        return _pred_views(sl, p[2], True, depth + 1) + _pred_views(sl, p[3], True, depth + 1)
    if p[0] == 'bin' and str(p[1]).lower() in ('bitor', '|') and outcome is False:
        return _pred_views(sl, p[2], False, depth + 1) + _pred_views(sl, p[3], False, depth + 1)
    if p[0] == 'phi':
        # `a && b` is phi(false, b) / `a || b` is phi(true, b): being true (false) needs the non-constant alternative
        rest = [x for x in p[1] if x != ('const', not outcome)]
        if len(rest) == 1 and len(rest) < len(p[1]):
            return _pred_views(sl, rest[0], outcome, depth + 1)
        return out
    out.append((p, outcome))
    q = sl.inline_deep(p)
    if q != p:
        out.extend(x for x in _pred_views(sl, q, outcome, depth + 1) if x not in out)
    return out


def _optional(sl, r, depth):
    """an Option-valued closure result as elements: [(payload, guards, opaque)] or None if r is not an Option shape"""
    r = strip(r) if isinstance(r, tuple) and r else r
    if not isinstance(r, tuple) or not r:
        return None
    if r[0] == 'agg' and r[1] == 'std::option::Option':
        if r[2] == 'None':
            return []
        if r[2] == 'Some' and len(r[3]) == 1:
            return [(r[3][0][1], (), False)]
        return None
    if r[0] == 'call' and len(r[2]) == 2 and r[1] in THEN_SOME:
        return [(r[2][1], tuple(_pred_views(sl, r[2][0])), False)]
    if r[0] == 'call' and len(r[2]) == 2 and r[1] in THEN:
        x = sl.apply_closure(r[2][1], ())
        if x is not None:
            return [(x, tuple(_pred_views(sl, r[2][0])), False)]
        return None
    if r[0] == 'phi' and depth < 6:
        out = []
        for x in r[1]:
            o = _optional(sl, x, depth + 1)
            if o is None:
                return None
            # which alternative is taken is decided by a branch this value does not show
            out.extend((e, g, True) for e, g, _ in o)
        return out
    return None


def _closure_optional(sl, clv, args):
    """an Option-returning closure written with branches (`if c { Some(x) } else { None }`): every `Some(..)` it can
    return, with the branch decisions that lead to it, in the caller's terms.  None if the closure is not of that shape"""
    from .lib.guards import conditions
    from .lib.value import subst
    if not (isinstance(clv, tuple) and clv and clv[0] == 'closure'):
        return None
    g = sl.prog.fns.get(clv[1])
    if g is None or sl.apply_closure(clv, args) is None:     # (also creates the symbolic-capture slicer)
        return None
    sym = sl._sym
    defs = g.whole_defs(0)
    if not defs:
        return None
    m = {(g.path, 1 + i): a for i, a in enumerate(args)}
    for i, uv in enumerate(clv[2]):
        m[('upvar', g.path, i)] = uv
    out = []
    for d in defs:
        if d[0] != 'stmt' or d[3].get('r') != 'agg' or d[3].get('kind') != 'adt' or d[3].get('adt') != 'std::option::Option':
            return None
        if d[3]['variant'] == 'None':
            continue
        if d[3]['variant'] != 'Some' or len(d[3]['ops']) != 1 or g.in_loop(d[1]):
            return None
        payload = subst(sym.operand(g, d[3]['ops'][0]), m, sl)
        guards = []
        for cd in conditions(g, d[1], sym):
            if cd.kind != 'bool':
                continue
            for v, oc in cd.views():
                for x in _pred_views(sl, subst(v, m, sl), oc):
                    if x not in guards:
                        guards.append(x)
        out.append((payload, tuple(guards), False))
    return out


def _apply_optional(sl, clv, args):
    """closure result as optional elements [(payload, guards, opaque)], or None"""
    r = sl.apply_closure(clv, args)
    if r is None:
        return None
    opt = _optional(sl, r, 0)
    if opt is None or any(o for _, _, o in opt):
        br = _closure_optional(sl, clv, args)
        if br is not None:
            return br
    return opt


def elements(sl, v, depth=0):
    """[(element, collection | None, guards, opaque)] for iterating v — lib/iters.alts, additionally carrying the
    predicates of the filtering stages: guards = ((boolean value, outcome)..) hold for the element; opaque = the element
    also went through a filter whose predicate could not be expressed"""
    if depth > 10 or not isinstance(v, tuple) or not v:
        return [(elem_of(v), v, (), False)]
    k = v[0]
    if k in ('unwrap', 'updated'):
        inner = elements(sl, v[1], depth + 1)
        if not (len(inner) == 1 and inner[0][1] is not None and canon(inner[0][1]) == canon(v[1])):
            return inner
        return [(elem_of(v), v, (), False)]
    if k == 'tuple' and len(v[1]) == 1:
        return elements(sl, v[1][0], depth + 1)    # the argument tuple of a closure call
    if is_empty_collection(v):
        return []
    if k == 'array' and len(v[1]) <= 16:
        return [(x, None, (), False) for x in v[1]]
    if k == 'phi':
        out = []
        for x in v[1]:
            out.extend(elements(sl, x, depth + 1))
        return out
    if k == 'call' and v[2]:
        name, args = v[1], v[2]
        if name == 'std::iter::once' and len(args) == 1:
            return [(args[0], None, (), False)]
        if name == IT + 'chain' and len(args) == 2:
            return elements(sl, args[0], depth + 1) + elements(sl, args[1], depth + 1)
        if name in SAME or name in COLLECTING:
            return elements(sl, args[0], depth + 1)
        if name == IT + 'filter' and len(args) == 2:
            out = []
            for e, f, g, o in elements(sl, args[0], depth + 1):
                p = sl.apply_closure(args[1], (e,))
                pv = _pred_views(sl, p) if p is not None else []
                out.append((e, f, g + tuple(x for x in pv if x not in g), o or not pv))
            return out
        if name in FEWER:
            return [(e, f, g, True) for e, f, g, o in elements(sl, args[0], depth + 1)]
        if name == IT + 'map' and len(args) == 2:
            out = []
            for e, f, g, o in elements(sl, args[0], depth + 1):
                r = sl.apply_closure(args[1], (e,))
                out.append((r if r is not None else ('call', 'closure-result', (args[1], e), None), f, g, o))
            return out
        if name in (IT + 'filter_map', IT + 'map_while') and len(args) == 2:
            out = []
            for e, f, g, o in elements(sl, args[0], depth + 1):
                r = sl.apply_closure(args[1], (e,))
                opt = _apply_optional(sl, args[1], (e,))
                if opt is None:
                    out.append((sl.mk_unwrap(r, 1) if r is not None else ('unknown', 'filter_map'), f, g, True))
                    continue
                for e2, g2, o2 in opt:
                    out.append((e2, f, g + tuple(x for x in g2 if x not in g), o or o2 or name != IT + 'filter_map'))
            return out
        if name == IT + 'flat_map' and len(args) == 2:
            out = []
            for e, f, g, o in elements(sl, args[0], depth + 1):
                r = sl.apply_closure(args[1], (e,))
                if r is None:
                    return [(elem_of(v), v, (), False)]
                opt = _apply_optional(sl, args[1], (e,))
                inner = [(e2, None, g2, o2) for e2, g2, o2 in opt] if opt is not None else elements(sl, r, depth + 1)
                for e2, f2, g2, o2 in inner:
                    out.append((e2, f if f is not None else f2, g + tuple(x for x in g2 if x not in g), o or o2))
            return out
        if name == IT + 'flatten' and len(args) == 1:
            out = []
            for e, f, g, o in elements(sl, args[0], depth + 1):
                opt = _optional(sl, e, 0)
                inner = [(e2, None, g2, o2) for e2, g2, o2 in opt] if opt is not None else elements(sl, e, depth + 1)
                for e2, f2, g2, o2 in inner:
                    out.append((e2, f if f is not None else f2, g + tuple(x for x in g2 if x not in g), o or o2))
            return out
        if iters._is_source(name) and len(args) == 1 and name.endswith(SAME_ELEMS):
            return elements(sl, args[0], depth + 1)
        # enumerate / zip / other sources: what lib/iters says, without predicates
        return [(e, f, (), bool(fl)) for e, f, fl in iters.alts(sl, v, depth)]
    return [(elem_of(v), v, (), False)]


# ---- entries a delta value is constructed with -----------------------------------------------------------------------
def split_entry(elem):
    """an element of `entries`: ((behaviour, name), value) -> (behaviour, name, value) or None"""
    e = strip(elem)
    if e[0] != 'tuple' or len(e[1]) != 2:
        return None
    key = strip(e[1][0])
    if key[0] != 'tuple' or len(key[1]) != 2:
        return None
    return key[1][0], key[1][1], e[1][1]


def constructed(prog, sl, g, fields=FIELDS):
    """what the implicit-path fields of the `LayerEnv` returned by g are constructed with.
    -> (entries: [Entry], opaque: [(fld, value)] fields whose initial content could not be enumerated)"""
    where = '%s:%d' % (g.file, g.line)
    ok = sl.mk_unwrap(sl.local(g, 0), 1)
    entries, opaque = [], []
    for fld in fields:
        fv = normal(prog, sl, sl._field(ok, fld))
        alts_ = fv[1] if fv[0] == 'phi' else (fv,)
        for dv in alts_:
            dv = strip(dv)
            if is_empty_collection(dv):
                continue
            if not (dv[0] == 'agg' and dv[1] == DELTA):
                opaque.append((fld, dv))
                continue
            ev = sl._field(dv, 'entries')
            if ev[0] == 'field':
                opaque.append((fld, dv))
                continue
            for elem, forall, guards, opq in elements(sl, ev):
                sp = split_entry(elem)
                if sp is None or forall is not None:
                    # elements that are not literal rows of a table (e.g. entries read from somewhere else)
                    opaque.append((fld, elem if forall is None else forall))
                    continue
                entries.append(Entry(fld, ('field', ('const', 'Self'), fld), sp[0], sp[1], sp[2], list(guards), where,
                                     'constructed', opq))
    return entries, opaque



# ---- loop elements that become literal rows only at the call site ---------------------------------------------------
def _replace(v, key, new):
    """v with every sub-value whose canonical form is `key` replaced by `new`"""
    if not isinstance(v, tuple) or not v:
        return v
    if canon(v) == key:
        return new
    return tuple(_replace(x, key, new) if isinstance(x, tuple) else x for x in v)


def _rows_of(sl, coll):
    """concrete elements of coll: [(element, guards, opaque)] or None if coll does not decompose into literal rows"""
    els = elements(sl, coll)
    if not els or any(fa is not None for _, fa, _, _ in els):
        return None
    return [(el, g, o) for el, _, g, o in els]


def _adapter_rows(E, e, coll):
    """a closure run by an iterator adapter / consumer (`rows.iter().filter(p).for_each(body)`) names its element after
    the underlying collection; the stages between the collection and the closure (filters, filter_maps) decide for which
    rows the closure runs.  -> [(row, guards, opaque)] from the receiver of that adapter call in the entry function's
    terms, evaluated row by row; None if the receiver cannot be found / evaluated"""
    sl = E.slicer
    key = canon(coll)
    rows = _rows_of(sl, coll)
    if rows is None:
        return None
    for link in reversed(e.chain):
        d = link.decl or ''
        if not d.startswith('std::iter::') or not link.args:
            continue
        ridx = 1 if d == 'std::iter::Extend::extend' else 0
        if ridx >= len(link.args):
            continue
        recv = E.subst(sl.operand(link.fn, link.args[ridx]), link.mapping or {})
        if not any(x[0] == 'array' and canon(x) == key for x in _walk(recv)):
            continue
        out = []
        for row, g0, o0 in rows:
            els = elements(sl, _replace(recv, key, ('array', (row,))))
            if any(fa is not None for _, fa, _, _ in els):
                return None
            if not els:
                continue        # no element of the pipeline stems from this row: the closure does not run for it
            common = [gd for gd in els[0][2] if all(gd in x[2] for x in els[1:])]
            out.append((row, tuple(g0) + tuple(gd for gd in common if gd not in g0), o0 or any(x[3] for x in els)))
        return out
    # the adapter call is not on the chain: the rows are known, what filters them is not
    return [(row, g, True) for row, g, _ in rows]


def _walk(v):
    from .lib.value import walk
    return walk(v)


def _loop_elements(E, e, vals):
    """`unwrap(Iterator::next(coll))` sub-values of vals that are the element of a loop around the effect e (or around
    a call of e's chain) whose collection — in the entry function's terms, i.e. after the caller's arguments have been
    substituted — decomposes into concrete elements: [(loop element value, [(element, guards, opaque)])].
    (lib/effects unrolls a loop when its collection is a literal table in the terms of the function that contains the
    loop; a private helper that is handed the table as a parameter is the same loop seen from one level down.)"""
    sl = E.slicer
    calls = list(e.chain) + ([e.call] if e.call is not None else [])
    out, seen = [], set()
    for v in vals:
        for x in _walk(v):
            if not (x[0] == 'unwrap' and isinstance(x[1], tuple) and x[1] and x[1][0] == 'call' and x[1][1] == IT + 'next'
                    and len(x[1]) == 4 and len(x[1][2]) == 1):
                continue
            key = canon(x)
            if key in seen:
                continue
            seen.add(key)
            site = x[1][3]
            if site is None:
                # lib/iters.elem_of: the parameter of a closure run by an iterator adapter over the collection
                rows = _adapter_rows(E, e, x[1][2][0]) if strip(x[1][2][0])[0] == 'array' else None
                if rows is not None:
                    out.append((x, rows))
                continue
            if not (isinstance(site, tuple) and len(site) == 2):
                continue
            fpath, hbb = site
            f = E.prog.fns.get(fpath)
            if f is None:
                continue
            # the `next` call must be the head of a loop whose body contains the effect (a lone `it.next().unwrap()`
            # names the first element only)
            lp = [l for l in E.loops(f) if l.header == hbb]
            if not lp or not any(c.fn.path == fpath and c.bb in lp[0].body and c.bb != hbb for c in calls):
                continue
            rows = _rows_of(sl, x[1][2][0])
            if rows is not None:
                out.append((x, rows))
    return out


def unrolled(E, e, args, views, depth=0):
    """the effect e (argument values, guard views) once per row of the literal tables its loop elements range over:
    [(args, views, opaque)]"""
    from .lib.value import subst
    sl = E.slicer
    if depth > 3:
        return [(args, views, False)]
    les = _loop_elements(E, e, list(args) + [v for v, _ in views])
    if not les:
        return [(args, views, False)]
    x, els = les[0]
    out = []
    for el, guards, opq in els:
        m = {'__repl__': [(canon(x), el)]}
        a2 = tuple(subst(a, m, sl) for a in args)
        v2 = [(subst(v, m, sl), oc) for v, oc in views]
        v2.extend(gd for gd in guards if gd not in v2)
        for a3, v3, o3 in unrolled(E, e, a2, v2, depth + 1):
            out.append((a3, v3, opq or o3))
    return out
