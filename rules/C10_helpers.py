"""C10 helpers — the content of a delta, independent of how it is filled.

A `LayerEnvDelta` stored in one of the implicit-path fields gets its entries in two ways:
  * `insert` calls on the field (effects; enumerated by lib/effects with the row of an unrolled table substituted), and
  * the value the field is *constructed* with: `LayerEnvDelta { entries: <iterator expression>.collect() }`, possibly
    produced by a local closure / private helper and placed into the `LayerEnv` literal.
Both are reduced to the same record

    Entry(fld, target, beh, name, val, views, where)

where `views` are the (boolean value, required outcome) pairs the entry exists under: branch decisions around an insert
call, or the predicates of the `filter` / `filter_map` / `then_some` stages an element went through.  C10.R1-R3 are then
stated on these records only.
"""
from .lib import iters
from .lib.iters import IT, SAME, FEWER, COLLECTING, SAME_ELEMS, elem_of
from .lib.paths import strip
from .lib.value import canon

DELTA = 'libcnb::layer_env::LayerEnvDelta'
FIELDS = ('layer_paths_build', 'layer_paths_launch')
THEN_SOME = ('std::primitive::bool::then_some', 'core::bool::<impl bool>::then_some', 'std::bool::<impl bool>::then_some')
THEN = ('std::primitive::bool::then', 'core::bool::<impl bool>::then', 'std::bool::<impl bool>::then')


class Entry:
    __slots__ = ('fld', 'target', 'beh', 'name', 'val', 'views', 'where', 'how', 'opaque', 'groups', 'levels')

    def __init__(self, fld, target, beh, name, val, views, where, how, opaque=False, groups=None, levels=()):
        self.fld, self.target, self.beh, self.name, self.val = fld, target, beh, name, val
        self.views, self.where, self.how = views, where, how
        self.opaque = opaque    # the entry also depends on a filter whose predicate could not be expressed
        # the boolean decisions the entry depends on, one list of (value, outcome) spellings per decision
        self.groups = groups if groups is not None else groups_of(views)
        self.levels = levels    # (Call, mapping) per level of the call chain that leads to the insert


# ---- normal form of a delta value -------------------------------------------------------------------------------
def _call_closure(prog, sl, v):
    """`f(args)` where f is a local closure value: what the closure returns for these arguments"""
    if v[0] != 'call' or len(v[2]) != 2:
        return None
    g = prog.fns.get(v[1])
    clv = strip(v[2][0])
    if clv[0] not in ('closure', 'fnitem') or (clv[0] == 'closure' and (g is None or g.kind != 'Closure')):
        return None
    tup = strip(v[2][1])
    if tup[0] != 'tuple':
        return None
    return sl.apply_closure(clv, tuple(tup[1]))


def normal(prog, sl, v, depth=0):
    """v with closure calls applied, private helpers inlined and field projections resolved, until an aggregate
    (or something opaque) is reached"""
    for _ in range(12):
        if not isinstance(v, tuple) or not v:
            return v
        v = strip(v)
        if v[0] == 'call':
            r = _call_closure(prog, sl, v)
            if r is None and v[1] in prog.fns:
                r = sl.inline_call(v)
            if r is None or r == v:
                return v
            v = r
            continue
        if v[0] == 'field' and depth < 6:
            b = normal(prog, sl, v[1], depth + 1)
            r = sl._field(b, v[2]) if b is not v[1] else v
            if r == v:
                return v
            v = r
            continue
        if v[0] == 'phi':
            alts = tuple(normal(prog, sl, x, depth + 1) for x in v[1]) if depth < 6 else v[1]
            uniq = []
            for a in alts:
                if a not in uniq:
                    uniq.append(a)
            return uniq[0] if len(uniq) == 1 else ('phi', tuple(uniq))
        return v
    return v


def is_empty_collection(v):
    """`BTreeMap::new()`, `Default::default()`, `Vec::new()`, `[]`: no elements"""
    v = strip(v)
    if v[0] == 'array' and not v[1]:
        return True
    if v[0] == 'call' and not v[2]:
        n = v[1]
        return n.endswith('::new') or n.endswith('::default') or n.endswith('::new_in') or n == 'std::iter::empty'
    return False


# ---- elements of an iterator expression, with the predicates they passed ---------------------------------------------
def _pred_views(sl, p, outcome=True, depth=0):
    """(boolean value, outcome) pairs that all hold when predicate value p evaluates to `outcome`"""
    out = []
    if not isinstance(p, tuple) or not p or depth > 4:
        return out
    p = strip(p)
    if p[0] == 'un' and str(p[1]).lower() in ('not', '!'):
        return _pred_views(sl, p[2], not outcome, depth + 1)
    if p[0] == 'bin' and str(p[1]).lower() in ('bitand', '&') and outcome is True:
        return _pred_views(sl, p[2], True, depth + 1) + _pred_views(sl, p[3], True, depth + 1)
    if p[0] == 'bin' and str(p[1]).lower() in ('bitor', '|') and outcome is False:
        return _pred_views(sl, p[2], False, depth + 1) + _pred_views(sl, p[3], False, depth + 1)
    if p[0] == 'phi':
        # `a && b` is phi(false, b) / `a || b` is phi(true, b): being true (false) needs the non-constant alternative
        rest = [x for x in p[1] if x != ('const', not outcome)]
        if len(rest) == 1 and len(rest) < len(p[1]):
            return _pred_views(sl, rest[0], outcome, depth + 1)
        return out
    out.append((p, outcome))
    nv = dir_norm(sl, (p, outcome))
    if nv is not None:
        # a directory test spelled through fs::metadata / a helper: the same decision as Path::is_dir(p)
        note_alt(nv, (p, outcome))
        out.append(nv)
    q = sl.inline_deep(p)
    if q != p:
        for x in _pred_views(sl, q, outcome, depth + 1):
            note_alt(x, (p, outcome))       # another spelling of the same decision (see groups_of)
            if x not in out:
                out.append(x)
    return out


def _lossy(p, depth=0):
    """the boolean value p is the join of a branch (`a && b` computed with a jump is phi(false, b)): its being true also
    depends on the branch decision, which the value does not show"""
    if not isinstance(p, tuple) or not p or depth > 6:
        return False
    p = strip(p)
    if p[0] == 'un':
        return _lossy(p[2], depth + 1)
    if p[0] == 'bin':
        return _lossy(p[2], depth + 1) or _lossy(p[3], depth + 1)
    return p[0] == 'phi'


def _closure_pred_views(sl, clv, args, outcome=True):
    """a boolean closure written with branches (`|r| !r.is_symlink() && r.is_dir()`, `if c { x } else { false }`): every
    decision its returning `outcome` depends on — the value assigned on the one path that can yield `outcome` *and* the
    branch decisions that lead there — in the caller's terms.  None if the closure is not of that shape"""
    from .lib.guards import conditions
    from .lib.value import subst
    if not (isinstance(clv, tuple) and clv and clv[0] == 'closure'):
        return None
    g = sl.prog.fns.get(clv[1])
    if g is None or sl.apply_closure(clv, args) is None:     # (also creates the symbolic-capture slicer)
        return None
    sym = sl._sym
    defs = g.whole_defs(0)
    if len(defs) < 2:
        return None
    m = {(g.path, 1 + i): a for i, a in enumerate(args)}
    for i, uv in enumerate(clv[2]):
        m[('upvar', g.path, i)] = uv
    cands = []
    for d in defs:
        if d[0] not in ('stmt', 'call') or g.in_loop(d[1]):
            return None
        val = subst(sym._def_value(g, d, set(), 0), m, sl)
        if strip(val) == ('const', not outcome):
            continue
        cands.append((d, val))
    if len(cands) != 1:
        return None
    d, val = cands[0]
    if _lossy(val):
        return None
    out = []
    if strip(val) != ('const', outcome):
        out.extend(_pred_views(sl, val, outcome))
    for cd in conditions(g, d[1], sym):
        if cd.kind != 'bool' or _lossy(cd.value):
            return None
        for x in _pred_views(sl, subst(cd.value, m, sl), cd.outcome):
            if x not in out:
                out.append(x)
    return out


def _filter_views(sl, clv, args):
    """(views that hold for an element the predicate closure accepts, complete?)"""
    pv = _closure_pred_views(sl, clv, args)
    if pv is not None:
        return pv, True
    p = sl.apply_closure(clv, args)
    if p is None:
        return [], False
    return _pred_views(sl, p), not _lossy(p)


def _optional(sl, r, depth):
    """an Option-valued closure result as elements: [(payload, guards, opaque)] or None if r is not an Option shape"""
    r = strip(r) if isinstance(r, tuple) and r else r
    if not isinstance(r, tuple) or not r:
        return None
    if r[0] == 'agg' and r[1] == 'std::option::Option':
        if r[2] == 'None':
            return []
        if r[2] == 'Some' and len(r[3]) == 1:
            return [(r[3][0][1], (), False)]
        return None
    if r[0] == 'call' and len(r[2]) == 2 and r[1] in THEN_SOME:
        return [(r[2][1], tuple(_pred_views(sl, r[2][0])), _lossy(r[2][0]))]
    if r[0] == 'call' and len(r[2]) == 2 and r[1] in THEN:
        x = sl.apply_closure(r[2][1], ())
        if x is not None:
            return [(x, tuple(_pred_views(sl, r[2][0])), _lossy(r[2][0]))]
        return None
    if r[0] == 'phi' and depth < 6:
        out = []
        for x in r[1]:
            o = _optional(sl, x, depth + 1)
            if o is None:
                return None
            # which alternative is taken is decided by a branch this value does not show
            out.extend((e, g, True) for e, g, _ in o)
        return out
    return None


def _closure_optional(sl, clv, args):
    """an Option-returning closure written with branches (`if c { Some(x) } else { None }`): every `Some(..)` it can
    return, with the branch decisions that lead to it, in the caller's terms.  None if the closure is not of that shape"""
    from .lib.guards import conditions
    from .lib.value import subst
    if not (isinstance(clv, tuple) and clv and clv[0] == 'closure'):
        return None
    g = sl.prog.fns.get(clv[1])
    if g is None or sl.apply_closure(clv, args) is None:     # (also creates the symbolic-capture slicer)
        return None
    sym = sl._sym
    defs = g.whole_defs(0)
    if not defs:
        return None
    m = {(g.path, 1 + i): a for i, a in enumerate(args)}
    for i, uv in enumerate(clv[2]):
        m[('upvar', g.path, i)] = uv
    out = []
    for d in defs:
        if d[0] != 'stmt' or d[3].get('r') != 'agg' or d[3].get('kind') != 'adt' or d[3].get('adt') != 'std::option::Option':
            return None
        if d[3]['variant'] == 'None':
            continue
        if d[3]['variant'] != 'Some' or len(d[3]['ops']) != 1 or g.in_loop(d[1]):
            return None
        payload = subst(sym.operand(g, d[3]['ops'][0]), m, sl)
        guards = []
        lossy = False
        for cd in conditions(g, d[1], sym):
            if cd.kind != 'bool':
                continue
            lossy = lossy or _lossy(cd.value)
            for v, oc in cd.views():
                for x in _pred_views(sl, subst(v, m, sl), oc):
                    if x not in guards:
                        guards.append(x)
        out.append((payload, tuple(guards), lossy))
    return out


def _apply_optional(sl, clv, args):
    """closure result as optional elements [(payload, guards, opaque)], or None"""
    r = sl.apply_closure(clv, args)
    if r is None:
        return None
    opt = _optional(sl, r, 0)
    if opt is None or any(o for _, _, o in opt):
        br = _closure_optional(sl, clv, args)
        if br is not None:
            return br
    return opt


def elements(sl, v, depth=0):
    """[(element, collection | None, guards, opaque)] for iterating v — lib/iters.alts, additionally carrying the
    predicates of the filtering stages: guards = ((boolean value, outcome)..) hold for the element; opaque = the element
    also went through a filter whose predicate could not be expressed"""
    if depth > 10 or not isinstance(v, tuple) or not v:
        return [(elem_of(v), v, (), False)]
    k = v[0]
    if k in ('unwrap', 'updated'):
        inner = elements(sl, v[1], depth + 1)
        if not (len(inner) == 1 and inner[0][1] is not None and canon(inner[0][1]) == canon(v[1])):
            return inner
        return [(elem_of(v), v, (), False)]
    if k == 'tuple' and len(v[1]) == 1:
        return elements(sl, v[1][0], depth + 1)    # the argument tuple of a closure call
    if is_empty_collection(v):
        return []
    if k == 'array' and len(v[1]) <= 16:
        return [(x, None, (), False) for x in v[1]]
    if k == 'phi':
        out = []
        for x in v[1]:
            out.extend(elements(sl, x, depth + 1))
        return out
    if k == 'call' and v[2]:
        name, args = v[1], v[2]
        if name == 'std::iter::once' and len(args) == 1:
            return [(args[0], None, (), False)]
        if name == IT + 'chain' and len(args) == 2:
            return elements(sl, args[0], depth + 1) + elements(sl, args[1], depth + 1)
        if name in SAME or name in COLLECTING:
            return elements(sl, args[0], depth + 1)
        if name == IT + 'filter' and len(args) == 2:
            out = []
            for e, f, g, o in elements(sl, args[0], depth + 1):
                pv, complete = _filter_views(sl, args[1], (e,))
                out.append((e, f, g + tuple(x for x in pv if x not in g), o or not pv or not complete))
            return out
        if name in FEWER:
            return [(e, f, g, True) for e, f, g, o in elements(sl, args[0], depth + 1)]
        if name == IT + 'map' and len(args) == 2:
            out = []
            for e, f, g, o in elements(sl, args[0], depth + 1):
                r = sl.apply_closure(args[1], (e,))
                out.append((r if r is not None else ('call', 'closure-result', (args[1], e), None), f, g, o))
            return out
        if name in (IT + 'filter_map', IT + 'map_while') and len(args) == 2:
            out = []
            for e, f, g, o in elements(sl, args[0], depth + 1):
                r = sl.apply_closure(args[1], (e,))
                opt = _apply_optional(sl, args[1], (e,))
                if opt is None:
                    out.append((sl.mk_unwrap(r, 1) if r is not None else ('unknown', 'filter_map'), f, g, True))
                    continue
                for e2, g2, o2 in opt:
                    out.append((e2, f, g + tuple(x for x in g2 if x not in g), o or o2 or name != IT + 'filter_map'))
            return out
        if name == IT + 'flat_map' and len(args) == 2:
            out = []
            for e, f, g, o in elements(sl, args[0], depth + 1):
                r = sl.apply_closure(args[1], (e,))
                if r is None:
                    return [(elem_of(v), v, (), False)]
                opt = _apply_optional(sl, args[1], (e,))
                inner = [(e2, None, g2, o2) for e2, g2, o2 in opt] if opt is not None else elements(sl, r, depth + 1)
                for e2, f2, g2, o2 in inner:
                    out.append((e2, f if f is not None else f2, g + tuple(x for x in g2 if x not in g), o or o2))
            return out
        if name == IT + 'flatten' and len(args) == 1:
            out = []
            for e, f, g, o in elements(sl, args[0], depth + 1):
                opt = _optional(sl, e, 0)
                inner = [(e2, None, g2, o2) for e2, g2, o2 in opt] if opt is not None else elements(sl, e, depth + 1)
                for e2, f2, g2, o2 in inner:
                    out.append((e2, f if f is not None else f2, g + tuple(x for x in g2 if x not in g), o or o2))
            return out
        if iters._is_source(name) and len(args) == 1 and name.endswith(SAME_ELEMS):
            return elements(sl, args[0], depth + 1)
        # enumerate / zip / other sources: what lib/iters says, without predicates
        return [(e, f, (), bool(fl)) for e, f, fl in iters.alts(sl, v, depth)]
    return [(elem_of(v), v, (), False)]


# ---- entries a delta value is constructed with -----------------------------------------------------------------------
def split_entry(elem):
    """an element of `entries`: ((behaviour, name), value) -> (behaviour, name, value) or None"""
    e = strip(elem)
    if e[0] != 'tuple' or len(e[1]) != 2:
        return None
    key = strip(e[1][0])
    if key[0] != 'tuple' or len(key[1]) != 2:
        return None
    return key[1][0], key[1][1], e[1][1]


def constructed(prog, sl, g, fields=FIELDS):
    """what the implicit-path fields of the `LayerEnv` returned by g are constructed with.
    -> (entries: [Entry], opaque: [(fld, value)] fields whose initial content could not be enumerated)"""
    where = '%s:%d' % (g.file, g.line)
    ok, _bodies = reader_payload(prog, sl, g)       # (a thin public wrapper around a private body is transparent)
    entries, opaque = [], []
    for fld in fields:
        fv = normal(prog, sl, sl._field(ok, fld))
        alts_ = fv[1] if fv[0] == 'phi' else (fv,)
        if len(alts_) > 1 and any(strip(x)[0] == 'agg' and strip(x)[1] == DELTA for x in alts_):
            # `if c { LayerEnvDelta { entries: .. } } else { LayerEnvDelta::new() }`: which content the field gets is
            # decided by a branch the entries do not show
            opaque.append((fld, fv))
        for dv in alts_:
            dv = strip(dv)
            if is_empty_collection(dv):
                continue
            if not (dv[0] == 'agg' and dv[1] == DELTA):
                opaque.append((fld, dv))
                continue
            ev = sl._field(dv, 'entries')
            if ev[0] == 'field':
                opaque.append((fld, dv))
                continue
            for elem, forall, guards, opq in elements(sl, ev):
                sp = split_entry(elem)
                if sp is None or forall is not None:
                    # elements that are not literal rows of a table (e.g. entries read from somewhere else)
                    opaque.append((fld, elem if forall is None else forall))
                    continue
                entries.append(Entry(fld, ('field', ('const', 'Self'), fld), sp[0], sp[1], sp[2], list(guards), where,
                                     'constructed', opq))
    return entries, opaque



# ---- inserts into a delta that a private helper creates, fills and returns -------------------------------------------
def _creation(v):
    """(callee name, site) of a value that is the result of one particular call (`LayerEnvDelta::new()` at bb0 of the
    helper): the identity of the object, independent of the argument spelling.  None for anything else"""
    v = strip(v)
    if v[0] == 'agg' and v[1] == 'std::result::Result' and v[2] == 'Ok' and len(v[3]) == 1:
        v = strip(v[3][0][1])       # `Ok(delta)`: the caller's `?` / unwrap names the payload
    if v[0] == 'call' and len(v) == 4 and isinstance(v[3], tuple) and len(v[3]) == 2 and isinstance(v[3][0], str):
        return v[1], v[3]
    return None


def returned_into(prog, sl, g, ok, target, levels, fields=FIELDS, bodies=None):
    """`fn from_rows(rows) -> LayerEnvDelta { let mut d = LayerEnvDelta::new(); for .. { d.insert(..) } d }` with
    `LayerEnv { layer_paths_build: from_rows(&[..]), .. }`: the insert acts on the object the helper creates, the helper
    returns that very object (its return value *is* the creation call, not an alternative of it), and the result of the
    call of the helper that is on the effect's chain *is* what the field of the returned LayerEnv is constructed with
    (again exactly, not one alternative).  -> the field name, or None if the object cannot be followed into one of
    `fields` that way (then the insert is what it looks like: an insert into some other delta)"""
    ident = _creation(target)
    for _ in range(6):
        if ident is None:
            return None
        name, (fpath, bb) = ident
        if fpath == g.path or (bodies and fpath in bodies):
            for fld in fields:
                if _creation(sl._field(ok, fld)) == ident:
                    # no other field / alternative is constructed with the same object
                    if not any(_creation(sl._field(ok, o)) == ident for o in fields if o != fld):
                        return fld
            return None
        h = prog.fns.get(fpath)
        if h is None or h.kind == 'Closure' or (isinstance(bb, int) and h.in_loop(bb)):
            return None
        if _creation(sl.local(h, 0)) != ident:
            return None     # the helper returns something else (or only sometimes this object)
        up = [c for c, _ in levels if c.name == fpath and not c.indirect]
        if len(up) != 1:
            return None
        ident = (fpath, (up[0].fn.path, up[0].bb))
    return None


def is_helper_result(prog, v):
    """v is (the success payload of) what a private workspace function returns"""
    v = strip(v)
    return v[0] == 'call' and v[1] in prog.fns and prog.fns[v[1]].kind != 'Closure' and prog.fns[v[1]].vis != 'pub'


def target_fields(prog, sl, v, depth=0):
    """`env.implicit_delta_mut(&scope)` -> `Some(&mut self.layer_paths_build)` for a literal scope: the field(s) of the
    layer environment a delta reference obtained from a private helper stands for; None when some alternative is not a
    field projection"""
    for _ in range(6):
        if not isinstance(v, tuple) or not v:
            return None
        v = strip(v)
        if v[0] == 'field':
            return {v[2]}
        if v[0] == 'agg' and v[1] in ('std::option::Option', 'std::result::Result') and v[2] in ('Some', 'Ok') and len(v[3]) == 1:
            v = v[3][0][1]
            continue
        if v[0] == 'phi' and depth < 4:
            out = set()
            for x in v[1]:
                sx = strip(x)
                if sx[0] == 'agg' and sx[1] in ('std::option::Option', 'std::result::Result') and sx[2] in ('None', 'Err'):
                    continue        # no delta at all on that path: nothing is inserted
                r = target_fields(prog, sl, x, depth + 1)
                if r is None:
                    return None
                out |= r
            return out or None
        v = _decall(v)
        if v[0] == 'call' and v[1] in prog.fns:
            # (one step first: an accessor `fn layer_paths_build_mut(&mut self) -> &mut LayerEnvDelta { &mut self.layer_paths_build }`
            # hands out the field itself; `normal` would go on to what the field of a fresh LayerEnv is constructed with)
            r1 = sl.inline_call(v)
            if r1 is not None and r1 != v and strip(r1)[0] == 'field':
                return {strip(r1)[2]}
            n = normal(prog, sl, v)
            if n == v:
                return None
            v = n
            continue
        return None
    return None


# ---- loop elements that become literal rows only at the call site ---------------------------------------------------
def _replace(v, key, new):
    """v with every sub-value whose canonical form is `key` replaced by `new`"""
    if not isinstance(v, tuple) or not v:
        return v
    if canon(v) == key:
        return new
    return tuple(_replace(x, key, new) if isinstance(x, tuple) else x for x in v)


def _is_empty_literal(coll):
    """an array literal without elements, possibly behind iter() / into_iter() / copied() .."""
    v = coll
    for _ in range(8):
        if not isinstance(v, tuple) or not v:
            return False
        v = strip(v)
        if v[0] == 'array':
            return not v[1]
        if v[0] == 'call' and len(v[2]) == 1 and (v[1] in SAME or (iters._is_source(v[1]) and v[1].endswith(SAME_ELEMS))):
            v = v[2][0]
            continue
        return False
    return False


def dead_guard(cd, subj):
    """the decision `next(<empty array literal>)` is Some: never taken"""
    if cd.kind != 'variant' or subj is None or not isinstance(cd.outcome, frozenset) or 'None' in cd.outcome or not cd.outcome:
        return False
    s = strip(subj)
    return s[0] == 'call' and s[1] == IT + 'next' and len(s[2]) == 1 and _is_empty_literal(s[2][0])


def variant_views(gl):
    """the `match` decisions among guards (Cond, views, subject, ..): pseudo-views (subject, ('variant', outcome, enum)) that
    can be carried through unrolled() like boolean views, so that they are evaluated on the row they run for"""
    return [(g[2], ('variant', g[0].outcome, g[0].enum)) for g in gl
            if g[0].kind == 'variant' and g[2] is not None and isinstance(g[0].outcome, frozenset)]


def dead_row(prog, sl, pviews):
    """a call in the `Scope::Build` arm of a `match scope` does not run for a row whose scope is the literal
    Scope::Launch (lib/effects.feasible, on the row the decision was substituted with)"""
    for subj, (_tag, outcome, enum) in pviews:
        s = strip(subj)
        if s[0] == 'call' and s[1] in prog.fns:
            s = strip(normal(prog, sl, s))
        while s[0] == 'agg' and s[2] in ('Ok', 'Some') and s[1] != enum and len(s[3]) == 1:
            s = strip(s[3][0][1])
        if s[0] == 'agg' and s[1] == enum and s[2] is not None and s[2] not in outcome:
            return True
    return False


def _rows_of(sl, coll):
    """concrete elements of coll: [(element, guards, opaque)] or None if coll does not decompose into literal rows"""
    els = elements(sl, coll)
    if not els and _is_empty_literal(coll):
        return []       # a loop over `&[]` (a row of a nested table without entries of that kind) never runs its body
    if not els or any(fa is not None for _, fa, _, _ in els):
        return None
    return [(el, g, o) for el, _, g, o in els]


def _adapter_rows(E, e, coll):
    """a closure run by an iterator adapter / consumer (`rows.iter().filter(p).for_each(body)`) names its element after
    the underlying collection; the stages between the collection and the closure (filters, filter_maps) decide for which
    rows the closure runs.  -> [(row, guards, opaque)] from the receiver of that adapter call in the entry function's
    terms, evaluated row by row; None if the receiver cannot be found / evaluated"""
    sl = E.slicer
    key = canon(coll)
    rows = _rows_of(sl, coll)
    if rows is None:
        return None
    for link in reversed(e.chain):
        d = link.decl or ''
        if not d.startswith('std::iter::') or not link.args:
            continue
        ridx = 1 if d == 'std::iter::Extend::extend' else 0
        if ridx >= len(link.args):
            continue
        recv = E.subst(sl.operand(link.fn, link.args[ridx]), link.mapping or {})
        if not any(x[0] == 'array' and canon(x) == key for x in _walk(recv)):
            continue
        out = []
        for row, g0, o0 in rows:
            els = elements(sl, _replace(recv, key, ('array', (row,))))
            if any(fa is not None for _, fa, _, _ in els):
                return None
            if not els:
                continue        # no element of the pipeline stems from this row: the closure does not run for it
            common = [gd for gd in els[0][2] if all(gd in x[2] for x in els[1:])]
            out.append((row, tuple(g0) + tuple(gd for gd in common if gd not in g0), o0 or any(x[3] for x in els)))
        return out
    # a `for` loop of a private helper over a pipeline on a parameter (`for &(n, p) in specs.iter().filter(pred)` with the
    # table handed in by the caller): the loop element is named after the caller's table; the stages in the loop header
    # decide for which rows the body runs.  The header pipeline in the entry function's terms, evaluated row by row.
    for call, m in reversed(level_calls(e)):
        plain = dict(m or {})
        plain.pop('__repl__', None)
        for lp in sorted(E.loops(call.fn), key=lambda l: len(l.body)):
            if call.bb not in lp.body or call.bb == lp.header or lp.collection is None:
                continue
            recv = E.subst(lp.collection, plain)
            if not any(x[0] == 'array' and canon(x) == key for x in _walk(recv)):
                continue
            out = []
            for row, g0, o0 in rows:
                els = elements(sl, _replace(recv, key, ('array', (row,))))
                if any(fa is not None for _, fa, _, _ in els):
                    return None
                if not els:
                    continue
                common = [gd for gd in els[0][2] if all(gd in x[2] for x in els[1:])]
                out.append((row, tuple(g0) + tuple(gd for gd in common if gd not in g0), o0 or any(x[3] for x in els)))
            return out
    # the adapter call is not on the chain: the rows are known, what filters them is not
    return [(row, g, True) for row, g, _ in rows]


def _walk(v):
    from .lib.value import walk
    return walk(v)


def _loop_elements(E, e, vals):
    """`unwrap(Iterator::next(coll))` sub-values of vals that are the element of a loop around the effect e (or around
    a call of e's chain) whose collection — in the entry function's terms, i.e. after the caller's arguments have been
    substituted — decomposes into concrete elements: [(loop element value, [(element, guards, opaque)])].
    (lib/effects unrolls a loop when its collection is a literal table in the terms of the function that contains the
    loop; a private helper that is handed the table as a parameter is the same loop seen from one level down.)"""
    sl = E.slicer
    calls = list(e.chain) + ([e.call] if e.call is not None else [])
    out, seen = [], set()
    for v in vals:
        for x in _walk(v):
            if not (x[0] == 'unwrap' and isinstance(x[1], tuple) and x[1] and x[1][0] == 'call' and x[1][1] == IT + 'next'
                    and len(x[1]) == 4 and len(x[1][2]) == 1):
                continue
            key = canon(x)
            if key in seen:
                continue
            seen.add(key)
            site = x[1][3]
            if site is None:
                # lib/iters.elem_of: the parameter of a closure run by an iterator adapter over the collection
                rows = _adapter_rows(E, e, x[1][2][0]) if strip(x[1][2][0])[0] == 'array' else None
                if rows is not None:
                    out.append((x, rows))
                continue
            if not (isinstance(site, tuple) and len(site) == 2):
                continue
            fpath, hbb = site
            f = E.prog.fns.get(fpath)
            if f is None:
                continue
            # the `next` call must be the head of a loop whose body contains the effect (a lone `it.next().unwrap()`
            # names the first element only)
            lp = [l for l in E.loops(f) if l.header == hbb]
            if not lp or not any(c.fn.path == fpath and c.bb in lp[0].body and c.bb != hbb for c in calls):
                continue
            rows = _rows_of(sl, x[1][2][0])
            if rows is not None:
                out.append((x, rows))
    return out


def unrolled(E, e, args, views, depth=0):
    """the effect e (argument values, guard views) once per row of the literal tables its loop elements range over:
    [(args, views, opaque)]"""
    from .lib.value import subst
    sl = E.slicer
    if depth > 3:
        return [(args, views, False)]
    les = _loop_elements(E, e, list(args) + [v for v, _ in views])
    if not les:
        return [(args, views, False)]
    x, els = les[0]
    out = []
    for el, guards, opq in els:
        m = {'__repl__': [(canon(x), el)]}
        a2 = tuple(subst(a, m, sl) for a in args)
        v2 = [(subst(v, m, sl), oc) for v, oc in views]
        v2.extend(gd for gd in guards if gd not in v2)
        for a3, v3, o3 in unrolled(E, e, a2, v2, depth + 1):
            out.append((a3, v3, opq or o3))
    return out


# =====================================================================================================================
# "exactly when": the other direction.  R2 says an implicit entry exists *only if* its directory is one; the functions
# below decide that it exists *whenever* the directory is one:
#   * guard groups      every boolean decision an entry depends on is the Path::is_dir test of its own directory (an extra
#                       conjunct — `is_dir() && !is_symlink()` — makes the entry rarer than the property allows)
#   * bypass            in the control-flow graph of every function on the way to the insert, no path gets from the start
#                       of the region (the loop iteration / the function) to its end without the insert, unless it leaves
#                       through the "not a directory" edge of the is_dir test (or cannot end in a success of the function)
#   * exhaustive        the loop over the rows is only left when the rows are exhausted (a `break` / early `return Ok`
#                       / a short-circuiting consumer whose closure can say "stop" skips the remaining rows)
# =====================================================================================================================
IS_DIR = 'std::path::Path::is_dir'
EXISTS = 'std::path::Path::exists'
_ALT = {}      # canonical (view, outcome) -> canonical (view, outcome) it is another spelling of (helper inlined)


def note_alt(view, of):
    k, r = (canon(view[0]), view[1]), (canon(of[0]), of[1])
    if k != r:
        _ALT[k] = r


def group_key(view):
    k = (canon(view[0]), view[1])
    for _ in range(8):
        if k not in _ALT:
            break
        k = _ALT[k]
    return k


def groups_of(views):
    """views that are spellings of the same decision, together: [[(value, outcome)..]..]"""
    out, idx = [], {}
    for v in views:
        k = group_key(v)
        if k not in idx:
            idx[k] = len(out)
            out.append([])
        out[idx[k]].append(v)
    return out


def is_dir_of(view, root, comps, weak=False):
    """the directory name d when the view is `Path::is_dir(<root>/d) == true`, else None; weak: `Path::exists(<root>/d)
    == true` as well (implied by is_dir: `p.exists() && p.is_dir()` depends on nothing but is_dir)"""
    v, oc = view
    if isinstance(v, tuple) and v and v[0] == 'call' and v[1] in ((IS_DIR, EXISTS) if weak else (IS_DIR,)) and oc is True and v[2]:
        cs = comps(v[2][0], root)
        if cs is not None and len(cs) == 1 and isinstance(cs[0], str):
            return cs[0]
    return None


def is_layer_dir_test(view, root, comps):
    """`Path::is_dir(<root>) == true` / `Path::exists(<root>) == true`: holds whenever a sub-directory of the layer
    directory is a directory, so it takes nothing away from the row's own test"""
    v, oc = view
    return isinstance(v, tuple) and bool(v) and v[0] == 'call' and v[1] in (IS_DIR, EXISTS) and oc is True \
        and bool(v[2]) and comps(v[2][0], root) == ()


def level_calls(e):
    """(Call, mapping) of every level of the chain of effect e, outermost first"""
    from .lib.effects import Link
    return [(l.call, l.mapping) for l in e.chain if isinstance(l, Link)] + ([(e.call, e.mapping)] if e.call is not None else [])


def header_guards(E, e):
    """a loop that lib/effects unrolled over `rows.into_iter().filter(p)` (a pipeline in the loop header) runs its body
    only for the rows that pass the stages: the predicates of those stages for the row of this effect, in the entry
    function's terms.  -> ([(value, outcome)..], opaque)"""
    sl = E.slicer
    guards, opaque = [], False
    for call, m in level_calls(e):
        m = m or {}
        for key, row in m.get('__repl__', ()) or ():
            if _is_loop_elem(row) and any(canon(x) == canon(row) for a in e.args[:4] for x in _walk(a)):
                continue        # not one row but "the element" of the caller's table: unrolled() evaluates the header
                                # pipeline row by row (_adapter_rows), with the predicates of each row
            for lp in E.loops(call.fn):
                if call.bb not in lp.body or lp.collection is None or iters.loop_key(lp.collection) != key:
                    continue
                plain = dict(m)
                plain.pop('__repl__', None)
                coll = E.subst(lp.collection, plain)
                if not any(x[0] == 'call' and x[1].startswith(IT) for x in _walk(coll)):
                    continue        # a plain table: every row is visited
                els = elements(sl, coll)
                hit = [x for x in els if x[1] is None and canon(x[0]) == canon(row)]
                if len(hit) != 1:
                    opaque = True
                    continue
                for gd in hit[0][2]:
                    if gd not in guards:
                        guards.append(gd)
                opaque = opaque or hit[0][3]
    # `rows.into_iter().filter(p).for_each(|row| ..)`: lib/effects runs the closure once per row of the receiver, with the
    # row bound to the closure's parameter; the stages between the table and the consumer decide for which rows
    lv = level_calls(e)
    for i, (call, m) in enumerate(lv[:-1]):
        d = call.decl or ''
        if not d.startswith('std::iter::') or not call.args:
            continue
        g = lv[i + 1][0].fn
        while g.kind == 'Closure' and g.parent and creation_fn(E.prog, g) is not call.fn and g.parent in E.prog.fns and E.prog.fns[g.parent].kind == 'Closure':
            g = E.prog.fns[g.parent]
        m2 = lv[i + 1][1] or {}
        bound = [m2[k] for k in ((g.path, 1), (g.path, 2)) if k in m2]
        ridx = 1 if d == 'std::iter::Extend::extend' else 0
        if not bound or ridx >= len(call.args):
            continue
        plain = dict(m or {})
        plain.pop('__repl__', None)
        recv = E.subst(sl.operand(call.fn, call.args[ridx]), m or {})
        if not any(x[0] == 'call' and x[1].startswith(IT) and x[1] != IT + 'next' for x in _walk(recv)):
            continue
        els = elements(sl, recv)
        hit = [x for x in els if x[1] is None and any(canon(x[0]) == canon(b) for b in bound)]
        if len(hit) != 1:
            opaque = True
            continue
        for gd in hit[0][2]:
            if gd not in guards:
                guards.append(gd)
        opaque = opaque or hit[0][3]
    return guards, opaque


def _is_loop_elem(v):
    return isinstance(v, tuple) and len(v) == 2 and v[0] == 'unwrap' and isinstance(v[1], tuple) and len(v[1]) == 4 and \
        v[1][0] == 'call' and v[1][1] == IT + 'next' and v[1][3] is None


def creation_fn(prog, g):
    from .lib.guards import creation_site
    return creation_site(prog, g)[0]


def _succ_reach(E, f):
    """(success blocks, blocks from which one of them can be reached)"""
    succ = {s.bb for s in E.sites(f)} or set(f.return_blocks())
    preds = f.preds()
    back, work = set(), list(succ)
    while work:
        b = work.pop()
        if b in back:
            continue
        back.add(b)
        work.extend(preds[b])
    return succ, back


def _search(f, starts, avoid, skip, stop):
    """first block satisfying stop() that is reachable from starts without entering a block of `avoid` or using an edge of
    `skip`; None if there is none"""
    seen, work = set(), [b for b in starts]
    while work:
        b = work.pop()
        if b in seen or b in avoid:
            continue
        seen.add(b)
        if stop(b):
            return b
        for s in f.succs(b):
            if (b, s) not in skip:
                work.append(s)
    return None


def _row_infeasible_edges(E, f, lp, m):
    """edges of `match <projection of the row>` switches inside loop lp that no row of the (literal) table takes:
    `_ => continue` next to `Scope::Build` / `Scope::Launch` arms is dead code when every row is Build or Launch"""
    from .lib.guards import _discr_info
    from .lib.value import subst
    sl = E.slicer
    out = set()
    if lp.collection is None:
        return out
    plain = dict(m or {})
    plain.pop('__repl__', None)
    rows = _rows_of(sl, E.subst(lp.collection, plain))
    if not rows:
        return out
    key = iters.loop_key(lp.collection)
    for sb in lp.body:
        t = f.blocks[sb]['t']
        if t['t'] != 'switch':
            continue
        di = _discr_info(f, sb, t['o'])
        if not di:
            continue
        place, vmap, enum = di
        subj = sl.place(f, place)
        taken = set()
        for row, _, _ in rows:
            sv = strip(subst(E.subst(subj, plain), {'__repl__': [(key, row)]}, sl))
            if sv[0] != 'agg':
                # `if let Some(delta) = env.implicit_delta_mut(&scope)`: what a private helper returns for this row
                sv = strip(normal(E.prog, sl, sv))
            if sv[0] == 'agg' and sv[1] == enum and sv[2] is not None:
                taken.add(sv[2])
            else:
                taken = None
                break
        if not taken:
            continue
        listed = {v for v, _ in t['targets']}
        live = set()
        for v, tb in t['targets']:
            if vmap.get(v) in taken:
                live.add(tb)
        if any(n in taken for v, n in vmap.items() if v not in listed):
            live.add(t['else'])
        for s in f.succs(sb):
            if s not in live:
                out.add((sb, s))
    return out


def _no_layer_dir_edges(f, sl, root, comps):
    """edges taken when the layer directory itself does not exist / is not a directory (`if !layer_dir.is_dir() { return
    Ok(Self::new()) }`): none of its sub-directories is a directory then, so nothing is lost on them"""
    out = set()
    for sb, blk in enumerate(f.blocks):
        t = blk['t']
        if t['t'] != 'switch' or t.get('oty') != 'bool':
            continue
        val, neg = sl.operand(f, t['o']), False
        while val[0] == 'un' and val[1] == 'Not':
            val, neg = val[2], not neg
        tested = val[2][0] if val[0] == 'call' and val[1] in (IS_DIR, EXISTS) and val[2] else dir_test_of(sl, val)
        if tested is None or comps(tested, root) != ():
            continue
        for v, tb in t['targets']:
            if (v == 0) != neg:
                out.add((sb, tb))
        listed = [v for v, _ in t['targets']]
        if (listed == [1]) != neg and len(listed) == 1:
            out.add((sb, t['else']))
    return out


def sufficiency(E, call, mapping, targets, root=None, comps=None):
    """problems [(kind 'always' | 'exhaustive' | 'unknown', text)] with "the call runs for every row whose directory
    exists" inside call.fn; `targets` = blocks of all calls of this function that lead to an entry of the same kind;
    root / comps: the layer directory in call.fn's terms (given for the entry function only)"""
    from .lib.guards import conditions
    f, bb, sl = call.fn, call.bb, E.slicer
    probs = []
    succ, back = _succ_reach(E, f)
    skip = set()
    if root is not None:
        skip |= _no_layer_dir_edges(f, sl, root, comps)
    for cd in conditions(f, bb, sl):
        views = cd.views() if cd.kind == 'bool' else ()
        if cd.kind == 'bool' and _lossy(cd.value):
            jg = joined_groups(E, cd)
            if jg:
                views = [v for grp in jg for v in grp]
        not_dir = any(is_dir_decision(sl, v) for v, _ in views)
        # `match fs::metadata(p) { Ok(m) => .., Err(_) => .. }`: the other arms are "not a directory", too
        not_dir = not_dir or (cd.kind == 'variant' and cd.subject is not None and _meta_src(cd.subject) is not None
                              and isinstance(cd.outcome, frozenset) and cd.outcome <= {'Ok', 'Some', 'Continue'})
        if not_dir:
            for s in f.succs(cd.sw_bb):
                if s != cd.target:
                    skip.add((cd.sw_bb, s))
    loops = sorted([lp for lp in E.loops(f) if bb in lp.body and bb != lp.header], key=lambda lp: len(lp.body))
    avoid = set(targets)
    for lp in loops:
        ex = getattr(lp, 'exhaust', None)
        if ex is None:
            probs.append(('unknown', 'the loop at bb%d of %s around the insert has no recognisable exhaustion edge' % (lp.header, f.path)))
            avoid = {lp.header}
            continue
        dead = _row_infeasible_edges(E, f, lp, mapping)
        skip |= dead
        starts = [s for s in f.succs(ex[0]) if s in lp.body]
        hit = _search(f, starts, avoid, skip, lambda b: b == lp.header or (b not in lp.body and b in back))
        if hit is not None:
            probs.append(('always', 'an iteration of the row loop of %s can end (bb%d) without the insert although the is_dir test of the row passed'
                          % (f.path.split('::')[-1], hit)))
        for b in sorted(lp.body):
            for s in f.succs(b):
                # (leaving through the "not a directory" edge of the is_dir test is leaving early, too)
                if s in lp.body or (b, s) == tuple(ex) or (b, s) in dead or s not in back:
                    continue
                probs.append(('exhaustive', 'the row loop of %s is left at bb%d -> bb%d before the rows are exhausted: the remaining rows are skipped'
                              % (f.path.split('::')[-1], b, s)))
        avoid = {lp.header}
    hit = _search(f, [0], avoid, skip, lambda b: b in succ)
    if hit is not None:
        probs.append(('always', '%s can return successfully (bb%d) without getting to the insert although the is_dir test passed'
                      % (f.path.split('::')[-1], hit)))
    return probs


CONTINUE_AGG = {('std::option::Option', 'Some'), ('std::result::Result', 'Ok'), ('std::ops::ControlFlow', 'Continue')}
# consumers that call their closure for every element they are given (the lazy adapters — map, inspect, filter.. — call
# theirs only as far as whatever consumes them pulls: a side effect in there is not known to happen for every row)
EVERY_ELEMENT = {IT + 'for_each', IT + 'fold'}


def adapter_problem(E, call, mapping):
    """a closure that carries the insert is run by an iterator adapter: does the adapter run it for every element?
    None | (kind, text)"""
    sl = E.slicer
    d = call.decl or ''
    if not d.startswith('std::iter::'):
        return None
    if d in EVERY_ELEMENT:
        return None
    if d in (IT + 'try_for_each', IT + 'try_fold'):
        ci = 1 if d == IT + 'try_for_each' else 2
        if ci < len(call.args):
            clv = strip(sl.operand(call.fn, call.args[ci]))
            g = E.prog.fns.get(clv[1]) if clv and clv[0] == 'closure' else None
            if g is not None:
                rv = strip(sl.local(g, 0))
                alts_ = rv[1] if rv[0] == 'phi' else (rv,)
                if all(a[0] == 'agg' and (a[1], a[2]) in CONTINUE_AGG for a in map(strip, alts_)):
                    return None
                return ('exhaustive', '%s stops at the first row for which its closure returns None / Err / Break, and the closure can: the remaining '
                        'rows are skipped' % d.split('::')[-1])
    return ('unknown', 'the insert runs inside a closure handed to %s, which need not call it for every row' % d.split('::')[-1])


# ---- LayerData.env ---------------------------------------------------------------------------------------------------
LAYER_DATA = 'libcnb::layer::trait_api::LayerData'


def _closure_binding(prog, sl, g):
    """a closure handed to an Option / Result combinator (`read(..).map_err(..).map(|env| ..)`): (closure value in the
    parent's terms, value its first parameter is bound to) or (None, None)"""
    from .lib.guards import creation_site
    parent, cb = creation_site(prog, g)
    if parent is None:
        return None, None
    for c in parent.calls:
        if c.indirect or len(c.args) != 2:
            continue
        n = c.decl or c.name or ''
        if not n.startswith(('std::option::Option::', 'std::result::Result::')) or not n.endswith(('::map', '::and_then')):
            continue
        clv = strip(sl.operand(parent, c.args[1]))
        if clv[0] == 'closure' and clv[1] == g.path:
            return clv, ('unwrap', sl._ok_core(sl.operand(parent, c.args[0])))
    return None, None


def layer_data_inits(prog, sl, reader):
    """every construction of a `LayerData` value: [(fn, where, env value, path value, why-not-decidable | None)] with the
    env / path field values in the terms of the function that runs the construction (closure parameters bound through
    the combinator the closure was handed to)"""
    from .lib.value import subst
    out = []
    for f in prog.fns.values():
        if f.crate != 'libcnb' or getattr(f, 'derived', False):
            continue
        for bi, b in enumerate(f.blocks):
            for s in b['s']:
                if s[0] != '=' or s[2].get('r') != 'agg' or s[2].get('kind') != 'adt' or s[2].get('adt') != LAYER_DATA:
                    continue
                names = s[2].get('fields', [])
                ops = s[2].get('ops', [])
                where = '%s:%d' % (f.file, f.line)
                if 'env' not in names or 'path' not in names or len(ops) != len(names):
                    out.append((f, where, None, None, 'construction not understood'))
                    continue
                src = sl
                m = None
                if f.kind == 'Closure':
                    clv, bound = _closure_binding(prog, sl, f)
                    if clv is None or sl.apply_closure(clv, (bound,)) is None:
                        out.append((f, where, None, None, 'built inside a closure whose argument could not be traced'))
                        continue
                    src = sl._sym
                    m = {(f.path, 1): bound}
                    for i, uv in enumerate(clv[2]):
                        m[('upvar', f.path, i)] = uv
                ev = src.operand(f, ops[names.index('env')])
                pv = src.operand(f, ops[names.index('path')])
                if m is not None:
                    ev, pv = subst(ev, m, sl), subst(pv, m, sl)
                out.append((f, where, ev, pv, None))
    return out


# =====================================================================================================================
# "is a directory, symlinks followed": one decision, many spellings
#   Path::is_dir(p)                                                  (std: fs::metadata(p).map(|m| m.is_dir()).unwrap_or(false))
#   fs::metadata(p).map(|m| m.is_dir()).unwrap_or(false) / .unwrap_or_default()
#   fs::metadata(p).is_ok_and(|m| m.is_dir()) / .map_or(false, |m| m.is_dir()) / .ok().is_some_and(..)
#   `Ok(m) = fs::metadata(p)` .. `m.is_dir()` / `m.file_type().is_dir()`   (the test of the payload: it exists only when
#                                                                       the metadata call succeeded)
#   a private helper returning one of these
# dir_test_of gives the tested path for all of them; fs::symlink_metadata / DirEntry::metadata / DirEntry::file_type do
# not follow symlinks and are *not* spellings of this decision.
# =====================================================================================================================
META = ('std::fs::metadata', 'std::path::Path::metadata')
META_IS_DIR = 'std::fs::Metadata::is_dir'
FT_IS_DIR = 'std::fs::FileType::is_dir'
FILE_TYPE = 'std::fs::Metadata::file_type'
_TRANSPARENT = ('::ok', '::as_ref', '::as_mut', '::as_deref')


def _comb(v):
    """('R' | 'O', method) of a Result / Option combinator call, else (None, None)"""
    n = v[1]
    if n.startswith('std::result::Result::'):
        return 'R', n.rsplit('::', 1)[1]
    if n.startswith('std::option::Option::'):
        return 'O', n.rsplit('::', 1)[1]
    return None, None


def _meta_src(v):
    """the path p when v is (the success payload of / a borrowed or Option view of) `fs::metadata(p)`"""
    for _ in range(6):
        if not isinstance(v, tuple) or not v:
            return None
        v = strip(v)
        if v[0] == 'agg' and v[1] in ('std::result::Result', 'std::option::Option') and v[2] in ('Ok', 'Some') and len(v[3]) == 1:
            v = v[3][0][1]
            continue
        if v[0] != 'call':
            return None
        if v[1] in META and len(v[2]) == 1:
            return v[2][0]
        k, meth = _comb(v)
        if k and len(v[2]) == 1 and ('::' + meth) in _TRANSPARENT:
            v = v[2][0]
            continue
        return None
    return None


def _same(a, b):
    return a is not None and b is not None and canon(strip(a)) == canon(strip(b))


def _through(sl, src, clv, depth):
    """`src.<combinator>(closure)` with src = fs::metadata(p) and the closure deciding is_dir of the payload -> p"""
    p = _meta_src(src)
    if p is None:
        return None
    b = sl.apply_closure(strip(clv), (('unwrap', src),))
    if b is None:
        return None
    return p if _same(dir_test_of(sl, b, depth + 1), p) else None


def _opt_dir(sl, r, depth):
    """r: Result<bool, _> / Option<bool> that is Ok(true) / Some(true) exactly when p is a directory -> p"""
    if depth > 6 or not isinstance(r, tuple) or not r:
        return None
    r = strip(r)
    if r[0] != 'call':
        return None
    k, meth = _comb(r)
    if k and meth == 'map' and len(r[2]) == 2:
        return _through(sl, r[2][0], r[2][1], depth)
    if k and len(r[2]) == 1 and ('::' + meth) in _TRANSPARENT:
        return _opt_dir(sl, r[2][0], depth + 1)
    if r[1] in sl.prog.fns:
        iv = sl.inline_call(r)
        if iv is not None and iv != r:
            return _opt_dir(sl, iv, depth + 1)
    return None


def dir_test_of(sl, v, depth=0):
    """the path p when the boolean value v is true exactly when p is a directory with symlinks followed — what
    Path::is_dir(p) decides, however it is spelled; None for anything else"""
    if depth > 6 or not isinstance(v, tuple) or not v:
        return None
    v = strip(v)
    if v[0] != 'call':
        return None
    n, a = v[1], v[2]
    if n == IS_DIR:
        return a[0] if len(a) == 1 else None
    if n == META_IS_DIR and len(a) == 1:
        return _meta_src(a[0])
    if n == FT_IS_DIR and len(a) == 1:
        ft = strip(a[0])
        if ft[0] == 'call' and ft[1] == FILE_TYPE and len(ft[2]) == 1:
            return _meta_src(ft[2][0])
        return None
    k, meth = _comb(v)
    if k:
        if meth == 'unwrap_or' and len(a) == 2 and strip(a[1]) == ('const', False):
            return _opt_dir(sl, a[0], depth + 1)
        if meth == 'unwrap_or_default' and len(a) == 1:
            return _opt_dir(sl, a[0], depth + 1)
        if meth in ('is_ok_and', 'is_some_and') and len(a) == 2:
            return _through(sl, a[0], a[1], depth)
        if meth == 'map_or' and len(a) == 3 and strip(a[1]) == ('const', False):
            return _through(sl, a[0], a[2], depth)
        return None
    if n in sl.prog.fns:
        iv = sl.inline_call(v)
        if iv is not None and iv != v:
            return dir_test_of(sl, iv, depth + 1)
    return None


def dir_norm(sl, view):
    """the view `Path::is_dir(p) == outcome` a differently spelled directory test stands for, or None"""
    v, oc = view
    if not isinstance(v, tuple) or not v or not isinstance(oc, bool):
        return None
    s = strip(v)
    if s[0] == 'call' and s[1] == IS_DIR:
        return None
    p = dir_test_of(sl, v)
    if p is None:
        return None
    return (('call', IS_DIR, (p,), None), oc)


def dir_views(sl, views):
    """views of one decision + its normal form `Path::is_dir(p)` when it is a directory test spelled differently"""
    out = list(views)
    for vw in views:
        nv = dir_norm(sl, vw)
        if nv is not None:
            note_alt(nv, vw)
            if nv not in out:
                out.append(nv)
    return out


def is_dir_decision(sl, v):
    """v is a test whose failing means "not a directory" / "does not exist": Path::is_dir, Path::exists or another
    spelling of the directory test"""
    if not isinstance(v, tuple) or not v:
        return False
    s = strip(v)
    if s[0] == 'call' and s[1] in (IS_DIR, EXISTS):
        return True
    return dir_test_of(sl, v) is not None


def mentions_dir_test(v, root, comps, own):
    """v is a join of branches (phi) or a Result / Option combinator chain that could not be looked into, and some
    sub-value of it is a symlink-following test / stat of <root>/own: the decision could not be *expressed*, but it is about
    the row's own directory.  (A plain call on the metadata — `m.permissions().readonly()` — is expressed: another decision.)"""
    if not isinstance(v, tuple) or not v:
        return False
    s = strip(v)
    if not (_lossy(v) or (s[0] == 'call' and _comb(s)[0] is not None)):
        return False
    for x in _walk(v):
        if x[0] == 'call' and x[1] in (IS_DIR,) + META and len(x[2]) == 1:
            cs = comps(x[2][0], root)
            if cs is not None and len(cs) == 1 and cs[0] == own:
                return True
    return False


NO_FOLLOW = ('std::fs::symlink_metadata', 'std::path::Path::symlink_metadata', 'std::path::Path::is_symlink', 'std::fs::Metadata::is_symlink',
             'std::fs::FileType::is_symlink', 'std::fs::DirEntry::metadata', 'std::fs::DirEntry::file_type', 'std::fs::read_link',
             'std::path::Path::read_link')


def mentions_no_follow(v):
    """some sub-value of v looks at a path without following symlinks"""
    return any(x[0] == 'call' and x[1] in NO_FOLLOW for x in _walk(v))


# ---- loops: natural loops by dominance -----------------------------------------------------------------------------
def natural_loops(fn, slicer):
    """lib/effects.find_loops takes every predecessor of the header that the header can reach for a latch; for a loop
    nested in another loop that includes the pre-header (it is reached again through the outer back edge), so the inner
    loop's body becomes the whole outer loop and its exhaustion edge is lost.  Here a latch is a predecessor the header
    *dominates* (a back edge); where no predecessor qualifies (the `next` call is not the loop head: `loop { a(); match
    it.next() {..} }`) the lib's answer is kept."""
    from .lib.effects import find_loops
    loops = find_loops(fn, slicer)
    preds = None
    for lp in loops:
        h = lp.header
        back = [p for p in lp.latches if fn.dominates(h, p)]
        if not back or len(back) == len(lp.latches):
            continue
        if preds is None:
            preds = fn.preds()
        body = {h}
        work = list(back)
        while work:
            b = work.pop()
            if b in body:
                continue
            body.add(b)
            work.extend(preds[b])
        # (every block of a natural loop is dominated by the header: the backward walk cannot leave through it)
        if not all(fn.dominates(h, b) for b in body):
            continue
        lp.body, lp.latches = body, back
        lp.exit_bb = [s for b in body for s in fn.succs(b) if s not in body]
        lp.exhaust = None
        tb = lp.next_call.target
        if tb is not None and fn.blocks[tb]['t']['t'] == 'switch':
            t = fn.blocks[tb]['t']
            some_t = [b for v, b in t['targets'] if v == 1]
            outs = [b for v, b in t['targets'] if v != 1] + [t['else']]
            outs = [b for b in outs if b not in body and fn.blocks[b]['t']['t'] != 'unreachable']
            if some_t and some_t[0] in body and len(set(outs)) == 1:
                lp.exhaust = (tb, outs[0])
    return loops


def effects_with_natural_loops(prog, sl, vocab):
    from .lib.effects import Effects

    class _Effects(Effects):
        def loops(self, fn):
            if fn.path not in self._loops:
                self._loops[fn.path] = natural_loops(fn, self.slicer)
            return self._loops[fn.path]

        def _expand_call1(self, fn, c, forall, mode, mapping, chain, stack, out):
            # `let add = |delta, name, path| { .. }; add(&mut env.layer_paths_build, n, p)`: a local closure called
            # directly is a private helper — its body runs once, with its parameters bound to the call's arguments
            # (lib/effects records an opaque CALLBACK for it)
            if not c.indirect and c.decl in FN_CALL and len(c.args) == 2:
                clv = strip(self.subst(self.slicer.operand(fn, c.args[0]), mapping))
                tup = strip(self.slicer.operand(fn, c.args[1]))
                g = self.prog.fns.get(clv[1]) if clv[0] == 'closure' else None
                if g is not None and g.kind == 'Closure' and tup[0] == 'tuple':
                    self._expand_closure(fn, c, clv, list(tup[1]), forall, mode, mapping, chain, stack, out)
                    return
            Effects._expand_call1(self, fn, c, forall, mode, mapping, chain, stack, out)
    return _Effects(prog, sl, vocab=vocab)


FN_CALL = ('std::ops::Fn::call', 'std::ops::FnMut::call_mut', 'std::ops::FnOnce::call_once')


# ---- decisions hidden in a joined boolean ----------------------------------------------------------------------------
def guards_with_mapping(E, e):
    """lib/effects.guards_of, each decision together with the parameter bindings of its chain level:
    [(Cond, [(substituted value, outcome)..], substituted subject, mapping)]"""
    from .lib.guards import conditions_ctx
    out = []
    for call, m in level_calls(e):
        m = m or {}
        for cd in conditions_ctx(E.prog, call.fn, call.bb, E.slicer):
            views = [(E.subst(v, m), oc) for v, oc in cd.views()] if cd.kind == 'bool' else [(E.subst(cd.value, m), cd.outcome)]
            subj = E.subst(cd.subject, m) if cd.subject is not None else None
            out.append((cd, views, subj, m))
    return out


def _joined_local(f, op, refs=False):
    """the local assigned on several paths that an operand is a copy (or negation; refs: or reborrow) of, else None"""
    from .lib.mir import op_place
    pl = op_place(op)
    for _ in range(8):
        if pl is not None and refs and len(pl) > 1 and all(x == '*' for x in pl[1:]):
            pl = pl[:1]
        if pl is None or len(pl) != 1:
            return None
        defs = f.whole_defs(pl[0])
        if len(defs) >= 2:
            return pl[0]
        if len(defs) != 1 or defs[0][0] != 'stmt':
            return None
        rv = defs[0][3]
        if rv['r'] == 'use' or (rv['r'] == 'un' and rv.get('op') == 'Not'):
            pl = op_place(rv['o'])
        elif refs and rv['r'] in ('ref', 'cfd', 'rawptr'):
            pl = tuple(rv['p'])
        else:
            return None
    return None


def joined_alternatives(E, call, idx, mapping=None):
    """`let target = if spec.launch { &mut env.layer_paths_launch } else { &mut env.layer_paths_build }; target.insert(..)`:
    argument idx of the call is a local assigned on several paths; its value (a phi) does not show which decision picks
    which alternative.  -> [(value, [pseudo-view..])] per assignment, in the entry function's terms: the value assigned and
    the branch decisions that lead to that assignment (beyond those the call itself runs under), as (value, outcome) for
    booleans and (subject, ('variant', outcome, enum)) for `match` decisions — evaluated on a row by alt_feasible.
    None if the argument is not of that shape"""
    from .lib.guards import conditions
    sl = E.slicer
    f = call.fn
    if idx >= len(call.args):
        return None
    local = _joined_local(f, call.args[idx], refs=True)
    if local is None:
        return None
    defs = f.whole_defs(local)
    dblocks = {d[1] for d in defs}
    starts = [0]
    inner = sorted([lp for lp in E.loops(f) if call.bb in lp.body], key=lambda lp: len(lp.body))
    if inner:
        starts.append(inner[0].header)
    elif f.in_loop(call.bb):
        return None
    for st in starts:
        if st not in dblocks and _search(f, [st], dblocks, set(), lambda b: b == call.bb) is not None:
            return None
    ctx = {(c.sw_bb, c.target) for c in conditions(f, call.bb, sl)}
    sub = (lambda v: E.subst(v, mapping)) if mapping else (lambda v: v)
    out = []
    for d in defs:
        if d[0] != 'stmt':
            return None
        conds = []
        for c2 in conditions(f, d[1], sl):
            if (c2.sw_bb, c2.target) in ctx:
                continue
            if c2.kind == 'bool':
                conds.append((sub(c2.value), c2.outcome))
            elif c2.kind == 'variant' and c2.subject is not None and isinstance(c2.outcome, frozenset):
                conds.append((sub(c2.subject), ('variant', c2.outcome, c2.enum)))
            else:
                return None
        out.append((sub(sl._def_value(f, d, set(), 0)), conds))
    return out


def alt_feasible(prog, sl, conds):
    """False when one of the decisions leading to an alternative is contradicted by the (row-substituted) value it tests"""
    for v, oc in conds:
        if isinstance(oc, bool):
            s, want = strip(v), oc
            while s[0] == 'un' and str(s[1]).lower() in ('not', '!'):
                s, want = strip(s[2]), not want
            if s[0] == 'const' and isinstance(s[1], bool) and s[1] != want:
                return False
        elif dead_row(prog, sl, [(v, oc)]):
            return False
    return True


def joined_groups(E, cd, mapping=None):
    """`let d = match fs::metadata(p) { Ok(m) => m.is_dir(), Err(_) => false }; if d {..}` / `let ok = a && b; if ok`:
    the tested boolean is the join of several assignments, its value (a phi) does not show which branch decisions lead to
    the one assignment that can yield the tested outcome.  -> the decisions the outcome depends on — the value assigned
    on that path *and* the branch decisions that lead there (beyond those the test itself runs under) — as groups of
    spellings [[(value, outcome)..]..] in the entry function's terms; None if the test is not of that shape.
    A `match` on fs::metadata(p) on the way to `m.is_dir()` of its payload is part of the directory test of p."""
    from .lib.guards import conditions
    sl = E.slicer
    f = cd.fn
    if cd.kind != 'bool' or not _lossy(cd.value):
        return None
    t = f.blocks[cd.sw_bb]['t']
    local = _joined_local(f, t.get('o'))
    if local is None:
        return None
    want = cd.outcome       # (conditions() peeled the negations the copy chain applies from the value and the outcome alike)
    defs = f.whole_defs(local)
    dblocks = {d[1] for d in defs}
    # the local is assigned anew on every path to the test (inside a loop: in this iteration)
    starts = [0]
    inner = sorted([lp for lp in E.loops(f) if cd.sw_bb in lp.body], key=lambda lp: len(lp.body))
    if inner:
        starts.append(inner[0].header)
    elif f.in_loop(cd.sw_bb):
        return None
    for st in starts:
        if st not in dblocks and _search(f, [st], dblocks, set(), lambda b: b == cd.sw_bb) is not None:
            return None
    ctx = {(c.sw_bb, c.target) for c in conditions(f, cd.sw_bb, sl)}
    cands = []
    for d in defs:
        if d[0] not in ('stmt', 'call'):
            return None
        val = sl._def_value(f, d, set(), 0)
        if strip(val) == ('const', not want):
            continue
        cands.append((d, val))
    if len(cands) != 1:
        return None
    d, val = cands[0]
    if _lossy(val):
        return None
    sub = (lambda v: E.subst(v, mapping)) if mapping else (lambda v: v)
    views = []
    if strip(val) != ('const', want):
        views.extend(_pred_views(sl, sub(val), want))
    extra = [c2 for c2 in conditions(f, d[1], sl) if (c2.sw_bb, c2.target) not in ctx]
    for c2 in extra:
        if c2.kind == 'bool':
            if _lossy(c2.value):
                return None
            for x in _pred_views(sl, sub(c2.value), c2.outcome):
                if x not in views:
                    views.append(x)
    tested = [p for p in (dir_test_of(sl, v) for v, oc in views if oc is True) if p is not None]
    for c2 in extra:
        if c2.kind == 'bool':
            continue
        if c2.kind == 'variant' and c2.subject is not None and isinstance(c2.outcome, frozenset) and c2.outcome <= {'Ok', 'Some', 'Continue'} \
                and any(_same(_meta_src(sub(c2.subject)), p) for p in tested):
            continue        # `Ok(m) = fs::metadata(p)` on the way to `m.is_dir()`: part of "p is a directory"
        return None
    return groups_of(views) if views else None


# ---- which deltas does write_to_layer_dir persist ---------------------------------------------------------------------
def self_fields_in(sl, f, v, self_idx=0):
    """names of the fields of f's `self` that the value v is computed from, private helpers looked into
    (`planned_env_files(&self.all)` — a plan computed from the delta before anything is written — depends on `all`)"""
    from . import layer_env_common as L
    out = []
    for x in L.walk_deep(sl, v):
        if x[0] == 'field' and isinstance(x[1], tuple) and x[1]:
            b = strip(x[1])
            if b[0] == 'param' and b[1] == f.path and b[2] == self_idx and x[2] not in out:
                out.append(x[2])
    return out


def writer_scopes(prog, sl, f, table, rows, le):
    """layer_env_common.writer_scope_table names the delta a file WRITE persists after the `.entries` it ranges over; a
    writer that first turns the delta into a plan (a Vec of (file name, content) computed by a private helper) ranges
    over the plan.  Here every WRITE is attributed to the fields of `self` its path and content are computed from:
    -> ({scope: ..} with the scopes of such writes added, [writes that depend on no field of self])"""
    kinds = {x['name']: x.get('head') for v in prog.adt(le)['variants'] for x in v['fields']}
    table = dict(table)
    loose = []
    for e, scope, dirs, _, pv in rows:
        deps = []
        for a in ([pv] if pv is not None else []) + list(e.args or ()):
            for n in self_fields_in(sl, f, a):
                if n not in deps:
                    deps.append(n)
        labels = [n if kinds.get(n) == DELTA else n + '[*]' for n in deps]
        if scope is None and not labels:
            loose.append(e)
        for lb in labels:
            if lb != scope:
                table.setdefault(lb, None)
    return table, loose


# ---- round 5: the same object / the same value under another spelling ------------------------------------------------
def reader_payload(prog, sl, g):
    """success payload of what g returns, private non-generic bodies behind a thin public wrapper transparent
    (`pub fn read_from_layer_dir(p: impl AsRef<Path>) { Self::read_from_layer_path(p.as_ref()) }`), in g's terms.
    -> (value, paths of the functions the value is built in)"""
    ok = sl.mk_unwrap(sl.local(g, 0), 1)
    bodies = {g.path}
    for _ in range(4):
        s = ok
        while isinstance(s, tuple) and s and s[0] == 'unwrap':
            s = s[1]
        if not (isinstance(s, tuple) and s and s[0] == 'call' and s[1] in prog.fns and s[1] not in bodies):
            break
        h = prog.fns[s[1]]
        if h.vis == 'pub' or h.kind == 'Closure':
            break
        r = sl.inline_call(s)
        if r is None or r == s:
            break
        bodies.add(s[1])
        ok = sl.mk_unwrap(r, 1)
    return ok, bodies


def _decall(v):
    """a call through a function pointer whose pointee is known is a call of that function"""
    if isinstance(v, tuple) and v and v[0] == 'icall' and len(v) == 4:
        c = strip(v[1])
        if c[0] == 'fnitem':
            return ('call', c[1], tuple(v[2]), v[3])
    return v


def is_pointer_call(v):
    """a call through a function pointer / callable value that is not known (yet: a column of a row table)"""
    v = strip(v)
    return v[0] == 'icall' and strip(v[1])[0] != 'fnitem'


def same_object(prog, sl, v):
    """the delta a target expression denotes, with calls that hand back one of their own arguments peeled
    (`d.insert(a).insert(b)`: a private `insert` that returns `self` — the second insert acts on `d`) and calls through
    a known function pointer turned into calls of the pointee.  Anything else is left as it is"""
    for _ in range(8):
        s = _decall(strip(v))
        if s[0] != 'call' or s[1] not in prog.fns or prog.fns[s[1]].kind == 'Closure':
            return s if s is not strip(v) else v
        r = sl.inline_call(s)
        if r is None or r == s:
            return s
        rs = canon(strip(r))
        hit = [a for a in s[2] if canon(strip(a)) == rs]
        if not hit:
            return s
        v = hit[0]
    return v


ARRAY_MAP = ('std::array::<impl [T; N]>::map',)


def _index_of(p):
    if isinstance(p, str) and p.startswith('[') and p.endswith(']') and p[1:-1].isdigit():
        return int(p[1:-1])
    return None


def resolve_values(sl, v, _memo=None, depth=0):
    """v with element projections of literal arrays resolved: `[a, b][1]` = b, `[a, b].map(f)[1]` = f(b)
    (`let [x, y] = ["bin", "lib"].map(|n| dir.join(n))`), everywhere inside v"""
    if not isinstance(v, tuple) or not v or depth > 40:
        return v
    if _memo is None:
        _memo = {}
        if not any(isinstance(x, tuple) and x and x[0] == 'index' for x in _walk(v)):
            return v
    k = id(v)
    if k in _memo:
        return _memo[k][1]
    out = tuple(resolve_values(sl, x, _memo, depth + 1) if isinstance(x, tuple) else x for x in v)
    if out[0] == 'index' and len(out) == 3:
        i = _index_of(out[2])
        b = strip(out[1])
        if i is not None and b[0] == 'array' and i < len(b[1]):
            out = b[1][i]
        elif i is not None and b[0] == 'call' and (b[1] in ARRAY_MAP or (b[1].startswith('std::array::<impl [') and b[1].endswith('::map'))) \
                and len(b[2]) == 2:
            arr, clv = strip(b[2][0]), strip(b[2][1])
            if arr[0] == 'array' and i < len(arr[1]) and clv[0] in ('closure', 'fnitem'):
                r = sl.apply_closure(clv, (arr[1][i],))
                if r is not None:
                    out = resolve_values(sl, r, _memo, depth + 1)
    if out == v:
        out = v
    _memo[k] = (v, out)      # (v kept alive so that its id stays unique)
    return out


def carried_over_only(prog, f, fld, le):
    """every read of `.fld` in f is the carry-over of a functional update — `LayerEnv { all, build, ..old }` moves
    old.fld into the *same* field of a new value of the same type — so the content stays where it was: in that field"""
    from .lib.mir import _rvalue_places, op_place
    proj = '.' + fld
    n = 0
    for b in f.blocks:
        for s in b['s']:
            if s[0] != '=':
                continue
            rv = s[2]
            if rv['r'] == 'agg' and rv.get('kind') == 'adt' and rv.get('adt') == le and fld in rv.get('fields', []):
                for name, op in zip(rv['fields'], rv['ops']):
                    pl = op_place(op)
                    if pl and proj in pl[1:]:
                        if name != fld or [p for p in pl[1:] if p != '*'] != [proj]:
                            return False
                        n += 1
                continue
            for pl, how in _rvalue_places(rv):
                if proj in pl[1:] and how != 'refmut':
                    return False
        t = b['t']
        if t['t'] in ('call', 'tailcall'):
            for a in t.get('args', []):
                pl = op_place(a)
                if pl and proj in pl[1:]:
                    return False
    return n > 0


def value_mentions(prog, path):
    """paths of the functions that mention the function `path` as a *value* (reified to a function pointer, stored in a
    table, handed to another function) rather than calling it directly"""
    import json
    out = set()
    needle = '"%s"' % path
    for f in prog.fns.values():
        hit = False
        for b in f.blocks:
            for s in b['s']:
                if s[0] == '=' and needle in json.dumps(s[2]):
                    hit = True
                    break
            t = b['t']
            if not hit and t['t'] in ('call', 'tailcall') and any(needle in json.dumps(a) for a in t.get('args', [])):
                hit = True
            if hit:
                break
        if hit:
            out.add(f.path)
    return out
