"""Helpers of C01: success outcomes of an entry function stated on *frames* and value normal forms.

`outcomes2` is `lib.effects.outcomes` with the case split generalised.  The library version follows tail calls and the one
shape `Ok(<payload of a private helper's result>)`.  Here a success site is split on **every** private helper whose
result the site's value or its dominating decisions depend on:

    match helper(..)? { Some(x) => Ok(x), None => again(..) }        helper(..).map(Some)        let x = helper(..)?; tail(x)

For each success outcome of the helper, its returned value is substituted for the call in the site's value, in the
site's conditions and in the arguments of later calls, the result is brought into normal form (`norm`), and outcomes whose
conditions are then contradicted (`Some` arm with a helper outcome `Ok(None)`) are dropped — only on a definite
contradiction, an undecided condition keeps the outcome.  The helper's own decisions and effects become part of the
outcome, so "which callback decision led here / what happened after it" does not depend on how the handler is cut into
functions.

Effects and decisions are located by *frame* — the chain of (caller, call block, callee) steps from the entry — instead of
a stack depth, so `region` ("can only happen after the decision") stays exact when the decision is taken inside a helper
that returns to its caller: the caller's later effects are after it, its earlier ones are not.
"""
from .lib.effects import Link
from .lib.guards import conditions
from .lib.value import walk, OK_PRESERVING, subst as _subst_value

CALL_ONCE = ('std::ops::FnOnce::call_once', 'std::ops::Fn::call', 'std::ops::FnMut::call_mut')
MAP_LIKE = ('std::result::Result::<T, E>::map', 'std::option::Option::<T>::map')
AND_THEN = ('std::result::Result::<T, E>::and_then', 'std::option::Option::<T>::and_then')
RESULT_ID_ON_OK = ('std::result::Result::<T, E>::map_err', 'std::result::Result::<T, E>::inspect_err',
                   'std::result::Result::<T, E>::or_else', 'std::result::Result::<T, E>::inspect')
OPTION_TO_RESULT = ('std::option::Option::<T>::ok_or', 'std::option::Option::<T>::ok_or_else')
STD_ENUMS = ('std::result::Result', 'std::option::Option')
LEAF = ('const', 'param', 'fnitem', 'constitem', 'unknown', 'closure_env', 'upvar')
CTOR = {'Some': 'std::option::Option', 'Ok': 'std::result::Result', 'Err': 'std::result::Result'}


# ---- value normal forms ----------------------------------------------------------------------------------------------
def _std_variant(v):
    """'Ok' | 'Some' | 'Err' | 'None' when v is a literal of std Result / Option"""
    if isinstance(v, tuple) and len(v) == 4 and v[0] == 'agg' and v[1] in STD_ENUMS and v[2] in ('Ok', 'Some', 'Err', 'None'):
        return v[2]
    return None


def _payload(v):
    return v[3][0][1] if len(v[3]) == 1 else None


def apply_fn(sl, f, args):
    """value of calling closure / fn item f; enum constructors used as functions (`.map(Some)`) build the literal"""
    if f[0] == 'fnitem':
        last = f[1].rsplit('::', 1)[-1]
        if last in CTOR and f[1].startswith(('std::', 'core::')) and len(args) == 1:
            return ('agg', CTOR[last], last, (('0', args[0]),))
    r = sl.apply_closure(f, tuple(args))
    if r is None or f[0] != 'closure':
        return r
    # `|mut x| { x.f = v; x }`: a by-value parameter updated in place is, where it is read afterwards, the argument with
    # those fields replaced — the same ('updated', base, fields) the slicer records for `let mut x = arg; x.f = v; x`
    # (the slicer itself only records field assignments of locals that have a whole definition)
    g = sl.prog.fns.get(f[1])
    if g is None or sl._sym is None:
        return r
    m0 = {(g.path, 1 + i): a for i, a in enumerate(args)}
    for i, uv in enumerate(f[2]):
        m0[('upvar', g.path, i)] = uv
    m, changed = dict(m0), False
    for i, a in enumerate(args):
        local = 2 + i
        if local > g.argc or g.whole_defs(local):
            continue
        ups = []
        for dd in g.partial_defs(local):
            kind, bi, si, rv, pl = dd
            if kind != 'stmt' or any(p == '*' or not p.startswith('.') for p in pl[1:]):
                ups = None
                break
            ups.append((''.join(pl[1:]), _subst_value(sl._sym._rvalue(g, rv, set(), 0, (bi, si)), m0, sl)))
        if ups:
            m[(g.path, 1 + i)] = ('updated', a, tuple(ups))
            changed = True
    if not changed:
        return r
    return _subst_value(sl._sym.local(g, 0), m, sl)


def norm(sl, v, d=0):
    """normal form of a value after substitution: closures that are called are applied, Option/Result combinators on
    literals are evaluated, payload / field / variant projections of literals are reduced"""
    if not isinstance(v, tuple) or not v:
        return v
    if isinstance(v[0], str) and v[0] in LEAF:
        return v
    out = tuple(norm(sl, x, d) if isinstance(x, tuple) else x for x in v)
    if out == v:
        out = v
    return _rewrite(sl, out, d)


def _rewrite(sl, v, d):
    k = v[0]
    if k == 'unwrap' and len(v) == 2 and isinstance(v[1], tuple):
        r = sl.mk_unwrap(v[1], 1)
        return norm(sl, r, d + 1) if (r != v and d < 6) else r
    if k == 'field' and len(v) == 3 and isinstance(v[1], tuple) and isinstance(v[2], str):
        return sl._field(v[1], v[2])
    if k == 'variant' and len(v) == 3 and isinstance(v[1], tuple) and isinstance(v[2], str):
        return sl._variant(v[1], v[2])
    if k == 'call' and len(v) == 4 and isinstance(v[2], tuple) and d < 6:
        name, args = v[1], v[2]
        if v[3] is None and len(args) == 1 and name.startswith(('std::', 'core::')) and name.rsplit('::', 1)[-1] in CTOR:
            # an enum constructor applied as a function (`.map(Some)`)
            last = name.rsplit('::', 1)[-1]
            return ('agg', CTOR[last], last, (('0', args[0]),))
        if name in CALL_ONCE and len(args) == 2 and args[0][0] in ('closure', 'fnitem') and args[1][0] == 'tuple':
            r = apply_fn(sl, args[0], args[1][1])
            if r is not None:
                return norm(sl, r, d + 1)
        sv = _std_variant(args[0]) if args else None
        if sv is not None:
            recv = args[0]
            if name in MAP_LIKE + AND_THEN and len(args) == 2 and args[1][0] in ('closure', 'fnitem'):
                if sv in ('Err', 'None'):
                    return recv
                p = _payload(recv)
                r = apply_fn(sl, args[1], (p,)) if p is not None else None
                if r is not None:
                    r = norm(sl, r, d + 1)
                    return r if name in AND_THEN else ('agg', recv[1], recv[2], ((recv[3][0][0], r),))
            if name in RESULT_ID_ON_OK and sv == 'Ok':
                return recv
            if name in OPTION_TO_RESULT and sv == 'Some':
                return ('agg', 'std::result::Result', 'Ok', recv[3])
    return v


def replace_calls(sl, v, table):
    """v with the results of the call sites in `table` ({(fn path, bb): value}) replaced, re-normalised"""
    if not table or not isinstance(v, tuple) or not v:
        return v

    def go(x):
        if not isinstance(x, tuple) or not x:
            return x
        if isinstance(x[0], str) and x[0] in LEAF:
            return x
        if x[0] == 'call' and len(x) == 4 and x[3] in table:
            return table[x[3]]
        out = tuple(go(y) if isinstance(y, tuple) else y for y in x)
        return x if out == x else out
    r = go(v)
    return v if r is v else norm(sl, r)


def mentions(v, site):
    return any(x[0] == 'call' and len(x) == 4 and x[3] == site for x in walk(v))


def decided(sl, cond, subj):
    """True / False when the variant test `cond` is settled by the (normalised) subject, None otherwise"""
    if cond.kind == 'bool' and isinstance(cond.outcome, bool) and isinstance(subj, tuple) and subj:
        # a helper's boolean answer (`if !normalise(..)? { return Ok(None) }`): settled by the literal the helper's outcome returns
        v = subj
        for _ in range(4):
            if v[0] == 'unwrap' and len(v) == 2 and isinstance(v[1], tuple):
                x = v[1]
                if x[0] == 'agg' and len(x) == 4 and x[2] in ('Ok', 'Some') and len(x[3]) == 1:
                    v = x[3][0][1]
                    continue
            break
        if v[0] == 'const' and isinstance(v[1], bool):
            return v[1] == cond.outcome
        return None
    if cond.kind != 'variant' or not isinstance(cond.outcome, frozenset) or subj is None:
        return None
    v = subj
    if cond.enum == 'std::ops::ControlFlow':
        # Try::branch(x): Continue iff x is Ok / Some
        if v[0] == 'call' and v[1] == 'std::ops::Try::branch' and v[2]:
            x = v[2][0]
            while x[0] == 'call' and x[1] in OK_PRESERVING and x[2]:
                x = x[2][0]
            sv = _std_variant(x)
            if sv is not None:
                return ('Continue' if sv in ('Ok', 'Some') else 'Break') in cond.outcome
        return None
    if v[0] == 'agg' and len(v) == 4 and v[2] is not None and v[1] == cond.enum:
        return v[2] in cond.outcome
    return None


# ---- loops that are tail calls ------------------------------------------------------------------------------------------
_RESTART_DOC = """`fn f(a) { match step(a) { Again => f(a), .. } }` and `fn f(a) { loop { match step(a) { Again => continue, .. } } }`
run the same sequence of calls when nothing but the (unmodified) arguments lives across an iteration.  Such a loop is read
as what it is equivalent to: every back edge is a success site whose value is "f called again with the same arguments"
(('recursion', f) — the value the recursive spelling gets), and the calls that can precede a site are taken within one
iteration.  The equivalence is checked on the facts (`restart_loops`):

  natural loop   the header dominates every latch, the latch has no other successor, the header is not inside another cycle
  idle prefix    the blocks before the header contain no call / drop / branch (only constant initialisations)
  no state       no local is live at the header (read on some path from it before being assigned as a whole) except
                 parameters and prefix-defined locals that are never assigned, never mutably borrowed and never have their
                 address taken anywhere in the function — so an iteration starts in the state the function starts in
"""
from .lib.mir import _rvalue_places, op_place as _op_place
from .lib.effects import Site as _Site

_KNOWN_RVALUES = ('use', 'cast', 'un', 'repeat', 'ref', 'cfd', 'rawptr', 'discr', 'bin', 'agg')


def _gen_kill(fn, bi):
    """(locals read in block bi before being assigned as a whole, locals assigned as a whole) or None when the block holds
    something this cannot read"""
    gen, kill = set(), set()
    b = fn.blocks[bi]

    def use(pl):
        if pl is None:
            return True
        if any(isinstance(p, str) and p.startswith('[') for p in pl[1:]):
            return False
        if pl[0] not in kill:
            gen.add(pl[0])
        return True

    def define(pl):
        if len(pl) == 1:
            kill.add(pl[0])
            return True
        if any(isinstance(p, str) and p.startswith('[') for p in pl[1:]):
            return False
        if '*' in pl[1:]:
            return use(pl)
        return True
    for s in b['s']:
        if s[0] == '=':
            if s[2].get('r') not in _KNOWN_RVALUES:
                return None
            for pl, how in _rvalue_places(s[2]):
                if not use(pl):
                    return None
            if not define(s[1]):
                return None
    t = b['t']
    k = t['t']
    if k in ('call', 'tailcall'):
        for a in t.get('args', []):
            if not use(_op_place(a)):
                return None
        if not use(_op_place(t['f'])):
            return None
        if t.get('dest') is not None and not define(t['dest']):
            return None
    elif k in ('switch', 'assert'):
        if not use(_op_place(t['o'])):
            return None
    elif k == 'drop':
        if not use(t['p']):
            return None
    elif k not in ('goto', 'ret', 'unreachable', 'resume'):
        return None
    return gen, kill


def _live_in(fn, h):
    """locals live on entry to block h (normal edges), or None"""
    blocks = fn.reachable(h)
    gk = {}
    for b in blocks:
        r = _gen_kill(fn, b)
        if r is None:
            return None
        gk[b] = r
    live = {b: set(gk[b][0]) for b in blocks}
    changed = True
    while changed:
        changed = False
        for b in blocks:
            out = set()
            for s in fn.succs(b):
                out |= live.get(s, set())
            new = gk[b][0] | (out - gk[b][1])
            if new != live[b]:
                live[b] = new
                changed = True
    return live[h]


def _never_changes(fn, x, prefix):
    """local x keeps, from the loop header on, the value it has when the header is first reached"""
    if any(d[1] not in prefix for d in fn.whole_defs(x)) or any(d[1] not in prefix for d in fn.partial_defs(x)):
        return False
    if not (1 <= x <= fn.argc) and not fn.whole_defs(x):
        return False
    for bi, kind, idx, how, pl in fn.uses_of(x):
        if how in ('refmut', 'rawptr'):
            return False
    return True


def restart_loops(sl, fn):
    """{latch block: header} for the loops of fn that are equivalent to fn calling itself with the same arguments"""
    c = _cache(sl)
    key = ('restart', fn.path)
    if key in c:
        return c[key]
    out = {}
    c[key] = out
    reach0 = fn.reachable(0)
    preds = fn.preds()
    for h in sorted(reach0):
        from_h = fn.reachable(h)
        latches = [p for p in preds[h] if p in from_h and p in reach0]
        if not latches:
            continue
        if not all(fn.dominates(h, l) and fn.succs(l) == [h] for l in latches):
            continue
        prefix = fn.reachable(0, stop=[h]) - {h}
        if prefix & from_h:
            continue
        if any(fn.blocks[b]['t']['t'] != 'goto' for b in prefix):
            continue
        live = _live_in(fn, h)
        if live is None or not all(_never_changes(fn, x, prefix) for x in live):
            continue
        for l in latches:
            out[l] = h
    return out


def _may_calls_cut(fn, site_bb, cut):
    """call sites on some entry -> site path that does not take an edge in `cut`"""
    reach = fn.reachable(0)
    preds = fn.preds()
    back, work = set(), [site_bb]
    while work:
        b = work.pop()
        if b in back:
            continue
        back.add(b)
        work.extend(p for p in preds[b] if (p, b) not in cut)
    return [c for c in fn.calls if c.bb in reach and c.bb in back]


# ---- outcomes on frames ---------------------------------------------------------------------------------------------
class Outcome2:
    """one leaf success outcome of the entry function.  `level` of an effect / decision is its frame: a tuple of
    (caller path, call block, callee path) steps from the entry function"""

    def __init__(self, prog, entry, value, must, may, conds, sites):
        self.prog = prog
        self.entry = entry
        self.value = value
        self.must = must
        self.may = may
        self.conds = conds      # [(Cond, substituted subject/value, frame)]
        self.sites = sites

    def decisions(self):
        return [(c, subj, lv) for c, subj, lv in self.conds if c.kind == 'variant']

    def _fn(self, frame):
        return self.prog.fns[frame[-1][2]] if frame else self.entry

    def after(self, e, cond, frame):
        """effect e can only happen after the branch decision `cond` taken in `frame`"""
        fe = e.level
        if fe is None:
            return False
        if fe == frame:
            return cond.fn.dominates(cond.target, e.level_bb)
        n = 0
        while n < len(fe) and n < len(frame) and fe[n] == frame[n]:
            n += 1
        if n == len(frame):
            # the effect is deeper: it is after the decision iff the call leading towards it is
            return cond.fn.dominates(cond.target, fe[n][1])
        if n == len(fe):
            # the decision was taken inside a callee of the effect's function: later calls of that function are after it
            cb = frame[n][1]
            return cb != e.level_bb and self._fn(fe).dominates(cb, e.level_bb)
        be, bc = fe[n][1], frame[n][1]
        return be != bc and self._fn(fe[:n]).dominates(bc, be)

    def region(self, cond, level, effs=None):
        effs = self.may if effs is None else effs
        return [e for e in effs if self.after(e, cond, level)]

    def before(self, cond, level, effs=None):
        effs = self.must if effs is None else effs
        return [e for e in effs if e.level is not None and not self.after(e, cond, level)]

    def region_wide(self, cond, level, effs=None):
        """effects that can happen once the decision `cond` is *known* — for a decision carried as data (refine_outcomes)
        that is from the return of the callback on, not only from the place where the data is matched"""
        effs = self.may if effs is None else effs
        early = getattr(cond, 'early', None)
        if early is None:
            return self.region(cond, level, effs)
        return [e for e in effs if self.after(e, cond, level) or self.after(e, early[0], early[1])]


def outcomes2(E, fn, through, mapping=None, chain=(), stack=(), frame=(), entry=None):
    """success outcomes of fn (see module doc).  `through(g)`: private helpers to split on"""
    sl, prog = E.slicer, E.prog
    mapping = mapping or {}
    entry = entry or fn
    res = []
    inner = stack + (fn.path,)

    def splittable(c):
        if c.indirect:
            return None
        gs = prog.callee_fns(c)
        if len(gs) != 1:
            return None
        g = gs[0]
        if g.path in inner or not through(g) or len(stack) > E.max_depth:
            return None
        return g

    # a loop that is a tail call in disguise: its back edges are sites ("called again"), see _RESTART_DOC
    restarts = restart_loops(sl, fn)
    cut = {(l, h) for l, h in restarts.items()}
    for site in list(E.sites(fn)) + [_Site(fn, l, 'restart') for l in sorted(restarts)]:
        tail_call = site.call if site.kind == 'tail' else None
        tail_fns = prog.callee_fns(tail_call) if tail_call is not None else []
        # ---- own effects, one segment per call site ------------------------------------------------
        must_segs, may_segs = [], []
        must_calls = E.must_calls(fn, [site.bb])
        if site.kind == 'restart':
            lc = fn.call_at(site.bb)
            if lc is not None and not any(c is lc for c, _ in must_calls):
                must_calls = must_calls + [(lc, None)]
        for c, forall in must_calls:
            if c is tail_call:
                continue
            effs = []
            E._expand_call(fn, c, forall, 'must', mapping, chain, inner, effs)
            for e in effs:
                e.level, e.level_bb = frame, c.bb
            must_segs.append((c, effs))
        for c in (_may_calls_cut(fn, site.bb, cut) if cut else E.may_calls(fn, [site.bb])):
            if c is tail_call:
                continue
            effs = []
            E._expand_call(fn, c, E._unrollable(fn, c), 'may', mapping, chain, inner, effs)
            for e in effs:
                e.level, e.level_bb = frame, c.bb
            may_segs.append((c, effs))
        conds = []
        for cd in conditions(fn, site.bb, sl):
            subj = cd.subject if cd.subject is not None else cd.value
            conds.append((cd, E.subst(subj, mapping), frame))
        # ---- value ---------------------------------------------------------------------------------
        if site.kind == 'tail' and tail_fns:
            value = None
        elif site.kind == 'tail':
            value = E.subst(sl._call_value(fn, tail_call, set(), 0), mapping)
        elif site.kind == 'ok':
            value = E.subst(sl._rvalue(fn, site.stmt, set(), 0, None), mapping)
        elif site.kind == 'restart':
            value = ('recursion', fn.path)
        else:
            value = ('tuple', ())
        # ---- private helpers this site depends on ------------------------------------------------------
        helpers = []
        for c, _ in must_segs:
            if c.bb == site.bb or not fn.dominates(c.bb, site.bb):
                continue
            g = splittable(c)
            if g is None:
                continue
            sid = (fn.path, c.bb)
            used = (value is not None and mentions(value, sid)) or any(mentions(s, sid) for _, s, _ in conds)
            if not used and tail_call is not None:
                used = any(mentions(sl.operand(fn, a), sid) for a in tail_call.args)
            if used:
                helpers.append((c, g))
        # ---- case split ------------------------------------------------------------------------------------
        # partial: (value, conds, table of replaced call results, {id(call): must effects}, {id(call): may effects},
        #           decisions of helpers, sites of helpers)
        partials = [(value, conds, {}, {}, {}, [], ())]
        for c, g in helpers:
            sid = (fn.path, c.bb)
            nxt = []
            for pv, pc, table, mrep, yrep, hconds, hsites in partials:
                m = E.call_mapping(fn, c, g, mapping)
                m = {k: (replace_calls(sl, a, table) if isinstance(k, tuple) else a) for k, a in m.items()}
                sub_frame = frame + ((fn.path, c.bb, g.path),)
                for sub in outcomes2(E, g, through, m, chain + (Link(c, mapping),), inner, sub_frame, entry):
                    t2 = dict(table)
                    t2[sid] = sub.value
                    one = {sid: sub.value}
                    nv = replace_calls(sl, pv, one) if pv is not None else None
                    nc, feasible = [], True
                    for cd, subj, fr in pc:
                        if mentions(subj, sid):
                            subj = replace_calls(sl, subj, one)
                            if decided(sl, cd, subj) is False:
                                feasible = False
                                break
                        nc.append((cd, subj, fr))
                    if not feasible:
                        continue
                    m2 = dict(mrep)
                    m2[id(c)] = sub.must
                    y2 = dict(yrep)
                    y2[id(c)] = sub.may
                    nxt.append((nv, nc, t2, m2, y2, hconds + sub.conds, hsites + sub.sites))
            partials = nxt
        for pv, pc, table, mrep, yrep, hconds, hsites in partials:
            must, may = [], []
            for c, effs in must_segs:
                must.extend(mrep.get(id(c), effs))
            for c, effs in may_segs:
                may.extend(yrep.get(id(c), effs))
            all_conds = pc + hconds
            if site.kind == 'tail' and tail_fns:
                for g in tail_fns:
                    if g.path in inner or len(stack) > E.max_depth:
                        res.append(Outcome2(prog, entry, ('recursion', g.path), must, may, all_conds, (site,) + hsites))
                        continue
                    m = E.call_mapping(fn, tail_call, g, mapping)
                    m = {k: (replace_calls(sl, a, table) if isinstance(k, tuple) else a) for k, a in m.items()}
                    sub_frame = frame + ((fn.path, tail_call.bb, g.path),)
                    for sub in outcomes2(E, g, through, m, chain + (Link(tail_call, mapping),), inner, sub_frame, entry):
                        res.append(Outcome2(prog, entry, sub.value, must + sub.must, may + sub.may, all_conds + sub.conds,
                                            (site,) + hsites + sub.sites))
                continue
            res.append(Outcome2(prog, entry, norm(sl, pv) if table else pv, must, may, all_conds, (site,) + hsites))
    return res


# ---- nested in-place updates of a carrier -------------------------------------------------------------------------------
_NESTED_DOC = """`x.types = t; write(&x)` and `c.content.types = t; write(&c.content)` (c a private carrier struct holding the value read
next to its path) write the same value.  The value slicer records the assignment on the *carrier* (`updated(c, .content.types)`)
and its field projection keeps an update only when it names the projected field itself, so the argument `&c.content` reads as
the bare `c.content`.  `repair_nested_updates` restores, on the facts, what the projection dropped: for every call on the way
to an effect whose argument is (a reference to) a field path `local.f1..fk`, the assignments to `local.f1..fk.rest` that
dominate the call are re-attached as `updated(<argument value>, rest)` — only ever *adding* recorded assignments, so the
frame check sees them like any other update."""


def _underlying_place(fn, op, depth=0):
    pl = _op_place(op) if isinstance(op, dict) else op
    if not pl or depth > 6:
        return None
    if len(pl) > 1:
        return pl if all(isinstance(x, str) and x.startswith('.') for x in pl[1:]) else None
    defs = fn.whole_defs(pl[0])
    if len(defs) != 1 or defs[0][0] != 'stmt':
        return None
    rv = defs[0][3]
    if rv['r'] == 'ref':
        p = rv['p']
        if len(p) == 2 and p[1] == '*':
            return _underlying_place(fn, [p[0]], depth + 1)
        return _underlying_place(fn, p, depth + 1) if len(p) == 1 else (p if all(isinstance(x, str) and x.startswith('.') for x in p[1:]) else None)
    if rv['r'] == 'use':
        q = _op_place(rv['o'])
        return _underlying_place(fn, q, depth + 1) if q else None
    return None


def repair_nested_updates(E, e, data):
    sl = E.slicer
    steps = [(l.call, l.mapping) for l in e.chain if isinstance(l, Link)]
    if e.call is not None:
        steps.append((e.call, e.mapping))
    for c, mapping in steps:
        f = c.fn
        for a in c.args:
            pl = _underlying_place(f, a)
            if not pl or len(pl) < 2:
                continue
            ups = []
            for dd in f.partial_defs(pl[0]):
                kind, bi, si, rv, dpl = dd
                if kind != 'stmt':
                    continue
                dp = [x for x in dpl if x != '*']
                if len(dp) > len(pl) and dp[:len(pl)] == list(pl) and (bi == c.bb or f.dominates(bi, c.bb)):
                    # (a statement of the call's own block precedes the call, its terminator)
                    ups.append((''.join(dp[len(pl):]), sl._rvalue(f, rv, set(), 0, (bi, si))))
            if not ups:
                continue
            v = sl.operand(f, a)
            if any(x[0] == 'updated' for x in walk(v) if isinstance(x, tuple) and x):
                continue        # the slicer kept (some of) the updates: leave its reading alone
            sv = E.subst(v, mapping or {})
            sv2 = E.subst(('updated', v, tuple(ups)), mapping or {})
            data = _replace_node(data, lambda x: x == sv, sv2)[0]
    return data


# ---- frame of a serialised struct ---------------------------------------------------------------------------------------
def frame_of(sl, data, adt_suffix):
    """(base, {'.field': new value}) when `data` holds a value that is `base` with some fields replaced — spelled as an
    in-place update of the value read (`x.f = v`) or as a new literal taking every other field from one base value
    (`S { f: v, g: base.g }`, possibly built by a closure handed to a helper); None when it is neither"""
    from .lib.paths import strip
    for x in walk(data):
        if x[0] == 'updated' and len(x) == 3:
            return strip(x[1]), dict(x[2])
    for x in walk(data):
        if x[0] == 'agg' and len(x) == 4 and x[1] and x[1].endswith(adt_suffix):
            bases, repl = [], {}
            for name, fv in x[3]:
                s = strip(fv)
                if s[0] == 'field' and len(s) == 3 and s[2] == name:
                    b = strip(s[1])
                    if b not in bases:
                        bases.append(b)
                else:
                    repl['.' + name] = fv
            if len(bases) == 1:
                return bases[0], repl
            return None
    return None


# ---- work-lists -----------------------------------------------------------------------------------------------------
_WORKLIST_DOC = """A recursive traversal and the same traversal driven by an explicit stack run the same effects on the same paths.  The
recursive spelling is read by following the recursion; the explicit one keeps its pending work in a local collection,
whose content the value slicer does not follow.  This section states what such a collection guarantees, from facts only:

  faithful     the collection is a local created empty, only ever touched through push / pop / peek / is_empty / len
               (every borrow of it is followed to its use), its elements are only modified through `peek_mut` in fields
               that are recorded (`Worklist.mutated`: a field only advanced as an iterator stays "the same listing")
  drained      at a success site every element that was pushed has been popped again: after every push each path to the
               site passes an edge on which the collection was observed empty (pop / peek returned None, is_empty)
  pop effects  effects every popped element receives before the function can go on to a success site
               => pushing X implies those effects on X at the site (`Effects2`, MUST)
  invariant    every element's fields denote a path inside the tree of the layer directory / a listing of such a
               directory: proven by induction over the pushes (`WorklistPaths`, used for confinement of MAY effects)
"""
import weakref
from .lib.value import is_transparent, UNWRAPPING, canon
from .lib.guards import Cond, _discr_info, always_through, conditions as _conditions
from .lib.effects import Effects, Eff, eff_key, GROUP
from .lib.paths import LayerPaths, strip as _pstrip

WL_OWNERS = ('std::vec::Vec::<', 'core::slice::<impl [T]>::', 'std::slice::<impl [T]>::', 'alloc::slice::<impl [T]>::',
             'std::collections::VecDeque::<', 'std::collections::vec_deque::VecDeque::<')
WL_ROLES = {'push': 'push', 'push_back': 'push', 'push_front': 'push', 'pop': 'pop', 'pop_back': 'pop', 'pop_front': 'pop',
            'last': 'peek', 'first': 'peek', 'front': 'peek', 'back': 'peek',
            'last_mut': 'peek_mut', 'first_mut': 'peek_mut', 'front_mut': 'peek_mut', 'back_mut': 'peek_mut',
            'is_empty': 'empty', 'len': 'len', 'new': 'create', 'with_capacity': 'create'}
# calls returning a view of the same collection
WL_VIEWS = ('std::ops::Deref::deref', 'std::ops::DerefMut::deref_mut', 'std::convert::AsRef::as_ref', 'std::convert::AsMut::as_mut',
            'std::borrow::Borrow::borrow', 'std::borrow::BorrowMut::borrow_mut')
WL_VIEW_METHODS = ('as_slice', 'as_mut_slice')
ITER_TRAITS = ('std::iter::Iterator::', 'std::iter::DoubleEndedIterator::')
_WL_CACHE = weakref.WeakKeyDictionary()


def _cache(sl):
    d = _WL_CACHE.get(sl)
    if d is None:
        d = _WL_CACHE[sl] = {}
    return d


def wl_role(call):
    n = call.name or ''
    if call.indirect or not n.startswith(WL_OWNERS):
        return None
    return WL_ROLES.get(n.rsplit('::', 1)[-1])


def _is_view(call):
    if call.indirect:
        return False
    if call.decl in WL_VIEWS:
        return True
    n = call.name or ''
    return n.startswith(WL_OWNERS) and n.rsplit('::', 1)[-1] in WL_VIEW_METHODS


def switch_edges(fn, sl):
    """every SwitchInt edge of fn as a guards.Cond (guards.conditions only lists the edges dominating one block)"""
    c = _cache(sl)
    key = ('edges', fn.path)
    if key in c:
        return c[key]
    out = []
    for sb, blk in enumerate(fn.blocks):
        t = blk['t']
        if t['t'] != 'switch':
            continue
        by_target = {}
        for v, tb in t['targets']:
            by_target.setdefault(tb, []).append(v)
        by_target.setdefault(t['else'], []).append('else')
        listed = [v for v, _ in t['targets']]
        di = _discr_info(fn, sb, t['o'])
        val = sl.operand(fn, t['o'])
        for tb, labels in by_target.items():
            if fn.blocks[tb]['t']['t'] == 'unreachable' or tb not in fn.succs(sb):
                continue
            if di:
                place, vmap, enum = di
                names = set()
                for lab in labels:
                    if lab == 'else':
                        names |= {n for v, n in vmap.items() if v not in listed}
                    else:
                        names.add(vmap.get(lab, str(lab)))
                out.append(Cond(fn, sb, tb, 'variant', frozenset(names), val, sl.place(fn, place), enum))
            elif t.get('oty') == 'bool':
                if labels == ['else'] and listed == [0]:
                    oc = True
                elif labels == [0]:
                    oc = False
                elif labels == [1]:
                    oc = True
                elif labels == ['else'] and listed == [1]:
                    oc = False
                else:
                    continue
                v = val
                while v[0] == 'un' and v[1] == 'Not':
                    v, oc = v[2], not oc
                cd = Cond(fn, sb, tb, 'bool', oc, v)
                cd._slicer = sl
                out.append(cd)
    c[key] = out
    return out


def _reach(fn, start, skip_edges=(), stop=()):
    """blocks reachable from start (inclusive) on normal edges, not using skip_edges, not continuing through stop"""
    seen, work = set(), [start]
    while work:
        b = work.pop()
        if b in seen:
            continue
        seen.add(b)
        if b in stop:
            continue
        for s in fn.succs(b):
            if (b, s) not in skip_edges:
                work.append(s)
    return seen


def _single_def(fn, local):
    return len(fn.whole_defs(local)) == 1 and not fn.partial_defs(local)


def _iter_only(fn, local, seen=None):
    """a `&mut` held in `local` is only ever reborrowed or handed to Iterator methods as the receiver"""
    seen = seen if seen is not None else set()
    if local in seen:
        return True
    seen.add(local)
    if fn.partial_defs(local):
        return False
    for bi, kind, idx, how, pl in fn.uses_of(local):
        if kind == 'drop':
            continue
        if any(p != '*' for p in pl[1:]):
            return False
        if kind == 'stmt':
            st = fn.blocks[bi]['s'][idx]
            if how not in ('ref', 'refmut', 'c', 'm', 'cfd') or len(st[1]) != 1 or st[1][0] == 0 or not _iter_only(fn, st[1][0], seen):
                return False
        elif kind == 'arg':
            c = fn.call_at(bi)
            if c is None or c.indirect or idx != 0 or not (c.decl or '').startswith(ITER_TRAITS):
                return False
        else:
            return False
    return True


def _elem_mutations(fn, peek):
    """{field: 'iter' | 'mut'} for the fields of the element that can change through the `&mut` handed out by the
    peek_mut call ('' = the element as a whole); None when the reference goes somewhere this cannot follow"""
    if not peek.dest or len(peek.dest) != 1 or peek.dest[0] == 0:
        return None
    mut, refs, work = {}, set(), []
    for bi, kind, idx, how, pl in fn.uses_of(peek.dest[0]):
        if kind == 'drop' or (kind == 'stmt' and how == 'discr'):
            continue
        projs = [p for p in pl[1:] if p != '*']
        if kind == 'stmt' and how in ('c', 'm') and projs == ['@Some', '.0']:
            st = fn.blocks[bi]['s'][idx]
            if len(st[1]) != 1 or st[1][0] == 0:
                return None
            work.append(st[1][0])
        elif kind == 'arg' and idx == 0 and not projs:
            c = fn.call_at(bi)
            if c is None or c.indirect or not (c.names() & UNWRAPPING) or not c.dest or len(c.dest) != 1 or c.dest[0] == 0:
                return None
            work.append(c.dest[0])
        else:
            return None
    while work:
        x = work.pop()
        if x in refs:
            continue
        refs.add(x)
        for dd in fn.partial_defs(x):
            projs = [p for p in dd[4][1:] if p != '*']
            if not projs or not projs[0].startswith('.'):
                return None
            mut[projs[0][1:]] = 'mut'
        for bi, kind, idx, how, pl in fn.uses_of(x):
            if kind == 'drop':
                continue
            if kind != 'stmt':
                return None
            st = fn.blocks[bi]['s'][idx]
            projs = [p for p in pl[1:] if p != '*']
            if not projs:
                if how in ('ref', 'refmut', 'c', 'm', 'cfd') and len(st[1]) == 1 and st[1][0] != 0:
                    work.append(st[1][0])
                    continue
                return None
            if not projs[0].startswith('.'):
                return None
            f = projs[0][1:]
            if how in ('ref', 'c', 'cfd', 'discr'):
                continue
            if how == 'refmut' and len(st[1]) == 1 and st[1][0] != 0 and _iter_only(fn, st[1][0]):
                mut.setdefault(f, 'iter')
            else:
                mut[f] = 'mut'
    return mut


class Worklist:
    """a faithful local collection of fn (see the section comment)"""

    def __init__(self, fn, local, create, value):
        self.fn = fn
        self.local = local
        self.create = create
        self.value = value
        self.site = (fn.path, create.bb)
        self.calls = {'push': [], 'pop': [], 'peek': [], 'peek_mut': [], 'empty': [], 'len': []}
        self.mutated = {}
        self.elem_sites = {}      # site of a pop / peek call -> Call
        self.empty_edges = set()  # (switch block, target): the collection was just observed empty
        self._tmpl = {}

    def frozen(self, field):
        return field not in self.mutated and '' not in self.mutated

    def still_listing(self, field):
        return self.mutated.get(field) in (None, 'iter') and '' not in self.mutated

    def is_elem(self, x, only=None):
        """x = unwrap(<pop / peek of this collection>)"""
        if isinstance(x, tuple) and len(x) == 2 and x[0] == 'unwrap' and isinstance(x[1], tuple) and len(x[1]) == 4 and x[1][0] == 'call':
            return x[1][3] in self.elem_sites and (only is None or x[1][3] == only)
        return False

    def _scan(self, sl):
        fn = self.fn
        derived, work = set(), [self.local]
        while work:
            t = work.pop()
            if t in derived:
                continue
            derived.add(t)
            if not _single_def(fn, t):
                return False
            for bi, kind, idx, how, pl in fn.uses_of(t):
                if kind == 'drop':
                    continue
                if any(p != '*' for p in pl[1:]):
                    return False
                if kind == 'stmt':
                    st = fn.blocks[bi]['s'][idx]
                    if how not in ('ref', 'refmut', 'c', 'm', 'cfd') or len(st[1]) != 1 or st[1][0] == 0:
                        return False
                    work.append(st[1][0])
                elif kind == 'arg':
                    c = fn.call_at(bi)
                    if c is None or c.indirect or idx != 0:
                        return False
                    role = wl_role(c)
                    if role in self.calls:
                        if role == 'push' and len(c.args) != 2:
                            return False
                        self.calls[role].append(c)
                    elif _is_view(c) and c.dest and len(c.dest) == 1 and c.dest[0] != 0:
                        work.append(c.dest[0])
                    else:
                        return False
                else:
                    return False
        for c in self.calls['peek_mut']:
            m = _elem_mutations(fn, c)
            if m is None:
                return False
            for f, how in m.items():
                if self.mutated.get(f) != 'mut':
                    self.mutated[f] = how
        for role in ('pop', 'peek', 'peek_mut'):
            for c in self.calls[role]:
                self.elem_sites[(fn.path, c.bb)] = c
        observers = dict(self.elem_sites)
        observers.update({(fn.path, c.bb): c for c in self.calls['empty']})
        push_bbs = {c.bb for c in self.calls['push']}
        for cd in switch_edges(fn, sl):
            v = cd.subject if cd.kind == 'variant' else cd.value
            if not (isinstance(v, tuple) and len(v) == 4 and v[0] == 'call' and v[3] in observers):
                continue
            oc = observers[v[3]]
            if v[3] in self.elem_sites:
                if not (cd.kind == 'variant' and cd.outcome == frozenset(['None'])):
                    continue
            elif not (cd.kind == 'bool' and cd.outcome is True):
                continue
            # nothing is pushed between the observation and the branch on it
            if oc.target is None or (_reach(fn, oc.target, stop=(cd.sw_bb,)) - {cd.sw_bb}) & push_bbs:
                continue
            self.empty_edges.add((cd.sw_bb, cd.target))
        return True

    def drained_at(self, bb):
        """every element pushed has been popped when block bb is reached"""
        if not self.empty_edges:
            return False
        for q in self.calls['push']:
            if q.target is None or q.bb == bb or bb in _reach(self.fn, q.target, self.empty_edges):
                return False
        return True

    def some_targets(self, sl, pop):
        ts = [cd.target for cd in switch_edges(self.fn, sl)
              if cd.kind == 'variant' and cd.outcome == frozenset(['Some']) and isinstance(cd.subject, tuple) and len(cd.subject) == 4
              and cd.subject[3] == (self.fn.path, pop.bb)]
        return ts or ([pop.target] if pop.target is not None else [])

    def components(self, x):
        """{field: value} of a pushed element value"""
        if x[0] == 'tuple':
            return {str(i): y for i, y in enumerate(x[1])}
        if x[0] == 'agg' and x[2] is None and x[1]:
            return dict(x[3])
        return {'': x}


def worklists(sl, fn):
    c = _cache(sl)
    key = ('wl', fn.path)
    if key not in c:
        out = []
        for cc in fn.calls:
            if wl_role(cc) != 'create' or not cc.dest or len(cc.dest) != 1 or cc.dest[0] == 0:
                continue
            v = sl.local(fn, cc.dest[0])
            if v[0] != 'call' or len(v) != 4 or v[3] != (fn.path, cc.bb):
                continue
            wl = Worklist(fn, cc.dest[0], cc, v)
            if wl._scan(sl) and wl.calls['push']:
                out.append(wl)
        c[key] = out
    return c[key]


def worklist_of_elem(prog, sl, x):
    """the work-list that x = unwrap(pop / peek call) is an element of"""
    if isinstance(x, tuple) and len(x) == 2 and x[0] == 'unwrap' and isinstance(x[1], tuple) and len(x[1]) == 4 and x[1][0] == 'call' \
            and isinstance(x[1][3], tuple) and len(x[1][3]) == 2:
        fn = prog.fns.get(x[1][3][0])
        if fn is not None and wl_role_name(x[1][1]):
            for wl in worklists(sl, fn):
                if x[1][3] in wl.elem_sites:
                    return wl
    return None


def wl_role_name(name):
    return isinstance(name, str) and name.startswith(WL_OWNERS) and WL_ROLES.get(name.rsplit('::', 1)[-1]) in ('pop', 'peek', 'peek_mut')


def _some(x):
    return ('agg', 'std::option::Option', 'Some', (('0', x),))


_OPEN_MODE_DOC = """`OpenOptions::new().write(true).create(true).truncate(true).open(p)` is how std defines `File::create(p)`,
`..write(true).create_new(true).open(p)` is `File::create_new(p)` and `..read(true).open(p)` is `File::open(p)`.  The library
knows `OpenOptions::open` only as an opaque OPEN; `open_mode` reads the builder chain (constant flags on `OpenOptions::new()` /
`File::options()`, the last setting of a flag wins) and names the std constructor it equals — anything else (append, a
write-open that keeps the old contents, a flag that is not a constant) stays an opaque OPEN."""
from .lib.effects import open_mode, OO_FLAGS, OO_NEW   # noqa: E402  (moved into the library after seed round 5)


class Effects2(Effects):
    """Effects whose MUST summaries also know what a drained work-list implies, and which are taken per case of the branch
    that decides whether something is pushed (`if let Some(x) = open(dir)? { stack.push((dir, x)) }`: the None case has the
    helper's None outcome, the Some case the effects every popped element receives)"""

    def expand(self, fn, mode='must', site_bbs=None, mapping=None, chain=(), _stack=None):
        out = Effects.expand(self, fn, mode, site_bbs, mapping, chain, _stack)
        if mode != 'must' or site_bbs is not None or fn.path in (_stack or ()) or len(_stack or ()) > self.max_depth:
            return out
        wls = worklists(self.slicer, fn)
        if not wls:
            return out
        by_cases = self._must_by_cases(fn, wls, mapping or {}, chain, (_stack or ()) + (fn.path,))
        if by_cases is None:
            return out
        have = {eff_key(e) for e in by_cases}
        return by_cases if all(eff_key(e) in have for e in out) else out

    # -- collections built in place (see _BUILT_DOC) ------------------------------------------------------------------
    def _unrollable(self, fn, c):
        r = Effects._unrollable(self, fn, c)
        if r is not None:
            return r
        best = None
        for L in self.loops(fn):
            if c.bb in L.body and c.bb != L.header and L.collection is not None:
                if best is None or len(L.body) < len(best.body):
                    best = L
        if best is not None and built_alts(self, fn, best.collection, c.bb, best) is not None:
            return best.collection
        return None

    def _loop_of(self, fn, c, forall):
        best = None
        for L in self.loops(fn):
            if c.bb in L.body and c.bb != L.header and L.collection is not None and (L.collection is forall or L.collection == forall):
                if best is None or len(L.body) < len(best.body):
                    best = L
        return best

    # -- OpenOptions spellings of File::create / File::create_new / File::open (see open_mode) --------------------------
    def _expand_call1(self, fn, c, forall, mode, mapping, chain, stack, out):
        if not c.indirect and c.is_('std::fs::OpenOptions::open') and len(c.args) == 2:
            om = open_mode(self.slicer.operand(fn, c.args[0]))
            if om is not None:
                pth = self.subst(self.slicer.operand(fn, c.args[1]), mapping)
                args = (pth,)
                if om in ('create', 'create_new'):
                    data = self._written_to(fn, c)
                    if data is not None:
                        args = args + (self.subst(data, mapping),)
                fa = self.subst(forall, mapping) if forall is not None else None
                ef = Eff('READ' if om == 'read' else 'WRITE', pth, c, chain, mode == 'must', fa, args)
                ef.mapping = mapping
                out.append(ef)
                return
        Effects._expand_call1(self, fn, c, forall, mode, mapping, chain, stack, out)

    def _expand_call(self, fn, c, forall, mode, mapping, chain, stack, out):
        if forall is not None:
            al = built_alts(self, fn, forall, c.bb, self._loop_of(fn, c, forall))
            if al is not None:
                key = _iters.loop_key(forall)
                for elem, fa, filtered in al:
                    if filtered and mode == 'must':
                        continue
                    m = dict(mapping)
                    m['__repl__'] = list(mapping.get('__repl__', ())) + [(key, self.subst(elem, mapping))]
                    self._expand_call1(fn, c, fa, mode, m, chain, stack, out)
                return
            if opaque_built(self.slicer, fn, self._loop_of(fn, c, forall)):
                # fail closed: the library reads `vec![a]` + `push(b)` + `swap_remove(0)` as the array [a]; what is in there
                # when it is iterated is unknown — for MAY (anything) and for MUST (nothing definite)
                m = dict(mapping)
                m['__repl__'] = list(mapping.get('__repl__', ())) + [(_iters.loop_key(forall), UNKNOWN_ELEM)]
                self._expand_call1(fn, c, None, mode, m, chain, stack, out)
                return
        Effects._expand_call(self, fn, c, forall, mode, mapping, chain, stack, out)

    # -- per-element effects of a pop ---------------------------------------------------------------------------------
    def _pop_effects(self, wl, pop, site_bb, mapping, chain, stack):
        """effects (in entry terms, still naming the popped element) that happen for the element popped by `pop` on every
        path that goes on to the success site"""
        fn, sl = wl.fn, self.slicer
        site = (fn.path, pop.bb)
        starts = wl.some_targets(sl, pop)
        if not starts or any(site_bb not in fn.reachable(t) for t in starts):
            return []
        from .lib.discard import result_fates, verdict
        out = []
        for c in fn.calls:
            if c.bb == pop.bb or not all(always_through(fn, t, c.bb, [site_bb]) for t in starts):
                continue
            if (c.dty or '').startswith('std::result::Result<') and verdict(result_fates(self.prog, fn, c)) not in ('ok', 'panics'):
                continue
            effs = []
            self._expand_call(fn, c, None, 'must', mapping, chain, stack, effs)
            for e in effs:
                if e.path is None or e.forall is not None:
                    continue
                fields = [x[2] for x in walk(e.path) if x[0] == 'field' and wl.is_elem(x[1], site)]
                whole = sum(1 for x in walk(e.path) if wl.is_elem(x, site)) - len(fields)
                if not (fields or whole) or (whole and wl.mutated) or not all(wl.frozen(f) for f in fields):
                    continue
                out.append(e)
        return out

    def _drain_effects(self, wl, push, site_bb, mapping, chain, stack):
        """effects implied at the success site by `push` having run: the per-element effects common to every pop"""
        sl = self.slicer
        if not wl.calls['pop'] or not wl.drained_at(site_bb):
            return []
        x = norm(sl, self.subst(sl.operand(wl.fn, push.args[1]), mapping))
        per_pop = []
        for pop in wl.calls['pop']:
            inst = []
            for e in self._pop_effects(wl, pop, site_bb, mapping, chain, stack):
                table = {(wl.fn.path, pop.bb): _some(x)}
                ne = Eff(e.kind, replace_calls(sl, e.path, table), e.call, e.chain, True, None,
                         tuple(replace_calls(sl, a, table) for a in e.args) if e.args is not None else None)
                ne.mapping, ne.implied = e.mapping, e.implied
                inst.append(ne)
            per_pop.append(inst)
        common = None
        for inst in per_pop:
            ks = {eff_key(e) for e in inst}
            common = ks if common is None else common & ks
        return [e for e in per_pop[0] if eff_key(e) in common]

    # -- MUST effects per case ----------------------------------------------------------------------------------------
    def _split_for(self, fn, wls, site_bb):
        """the branch deciding a push (outside loops, passed by every path to the site), or None"""
        sl = self.slicer
        site_conds = {(c.sw_bb, c.target) for c in _conditions(fn, site_bb, sl)}
        dom = fn.dominators()
        best = None
        for wl in wls:
            if not wl.drained_at(site_bb):
                continue
            for q in wl.calls['push']:
                if fn.in_loop(q.bb) or fn.dominates(q.bb, site_bb):
                    continue
                for cd in _conditions(fn, q.bb, sl):
                    if (cd.sw_bb, cd.target) in site_conds or not fn.dominates(cd.sw_bb, site_bb) or fn.in_loop(cd.sw_bb):
                        continue
                    if best is None or len(dom.get(cd.sw_bb, ())) < len(dom.get(best, ())):
                        best = cd.sw_bb
        return best

    def _case_calls(self, fn, site_bb, edge):
        """[(Call, forall)] run on every path to the site that takes `edge` (a Cond), in program order"""
        base = self.must_calls(fn, [site_bb])
        if edge is None:
            return base
        have = {id(c) for c, _ in base}
        extra = []
        inside = fn.reachable(edge.target)
        for c in fn.calls:
            if id(c) in have or c.bb not in inside or c.bb == site_bb or not always_through(fn, edge.target, c.bb, [site_bb]):
                continue
            extra.append(c)
        if not extra:
            return base
        rpo = {b: i for i, b in enumerate(fn._rpo())}
        keyed = [((i, 0, 0), (c, fa)) for i, (c, fa) in enumerate(base)]
        for c in extra:
            after = [i for i, (b, _) in enumerate(base) if b.bb != c.bb and fn.dominates(b.bb, c.bb)]
            keyed.append(((max(after) if after else -1, 1, rpo.get(c.bb, 0)), (c, None)))
        keyed.sort(key=lambda t: t[0])
        return [x for _, x in keyed]

    def _site_value(self, g, gs, m):
        sl = self.slicer
        if gs.kind == 'ok':
            return self.subst(sl._rvalue(g, gs.stmt, set(), 0, None), m)
        if gs.kind == 'tail' and not self.prog.callee_fns(gs.call):
            return self.subst(sl._call_value(g, gs.call, set(), 0), m)
        return None

    def _helper_in_case(self, fn, c, edge, mapping, chain, stack, out):
        """MUST effects of the private helper call c whose result decides `edge`: only the helper's success sites that are
        consistent with the edge count.  False when none is (the case cannot happen)"""
        sl = self.slicer
        g = self.prog.callee_fns(c)[0]
        sid = (fn.path, c.bb)
        subj = edge.subject if edge.kind == 'variant' else edge.value
        m = self.call_mapping(fn, c, g, mapping)
        feasible = []
        for gs in self.sites(g):
            rv = self._site_value(g, gs, m)
            if rv is not None and decided(sl, edge, replace_calls(sl, subj, {sid: rv})) is False:
                continue
            feasible.append(gs)
        if not feasible:
            return False
        per = [self.expand(g, 'must', [gs.bb], m, chain + (Link(c, mapping),), stack) for gs in feasible]
        common = None
        for effs in per:
            ks = {eff_key(e) for e in effs}
            common = ks if common is None else common & ks
        seen = set()
        for e in per[0]:
            k = eff_key(e)
            if k in common and (k not in seen or e.kind not in GROUP):
                out.append(e)
                seen.add(k)
        return True

    def _must_by_cases(self, fn, wls, mapping, chain, stack):
        sl = self.slicer
        cases = []
        for st in self.sites(fn):
            sb = self._split_for(fn, wls, st.bb)
            edges = [cd for cd in switch_edges(fn, sl) if cd.sw_bb == sb and st.bb in fn.reachable(cd.target)] if sb is not None else []
            for edge in (edges or [None]):
                effs, ok = [], True
                final_obs = [c.subject[3] for c in _conditions(fn, st.bb, sl) if c.kind == 'variant' and isinstance(c.subject, tuple)
                             and len(c.subject) == 4 and any((c.sw_bb, c.target) in wl.empty_edges for wl in wls)]
                pending = []     # drain effects waiting for the observation that found the collection empty
                for c, forall in self._case_calls(fn, st.bb, edge):
                    subj = (edge.subject if edge.kind == 'variant' else edge.value) if edge is not None else None
                    gs = self.prog.callee_fns(c) if not c.indirect else []
                    if subj is not None and forall is None and len(gs) == 1 and gs[0].kind != 'Closure' and gs[0].path not in stack \
                            and mentions(subj, (fn.path, c.bb)) and len(stack) <= self.max_depth:
                        if not self._helper_in_case(fn, c, edge, mapping, chain, stack, effs):
                            ok = False
                            break
                    else:
                        self._expand_call(fn, c, forall, 'must', mapping, chain, stack, effs)
                    for wl in wls:
                        if c in wl.calls['push'] and forall is None and not fn.in_loop(c.bb):
                            pending.extend(self._drain_effects(wl, c, st.bb, mapping, chain, stack))
                    if pending and (fn.path, c.bb) in final_obs:
                        effs.extend(pending)
                        pending = []
                if not ok:
                    continue
                cases.append(effs + pending)
        if not cases:
            return None
        common = None
        for effs in cases:
            ks = {eff_key(e) for e in effs}
            common = ks if common is None else common & ks
        out, seen = [], set()
        for e in cases[0]:
            k = eff_key(e)
            if k in common and (k not in seen or e.kind not in GROUP):
                out.append(e)
                seen.add(k)
        return out


# ---- path classes of work-list elements ----------------------------------------------------------------------------
TREE = ('SUB', ('DIR',), '**')      # the layer directory or anything below it


def _in_tree(k):
    return k is not None and k[0] in ('DIR', 'SUB', 'CHILD')


class WorklistPaths(LayerPaths):
    """LayerPaths that can also classify a path taken from (or listed from) an element of a work-list: by the inductive
    invariant `every element's path fields are inside the layer directory's tree, its listing fields list such a
    directory`, checked on every push with the invariant assumed for the elements the pushed value is derived from"""

    def __init__(self, is_ld, is_ln, dir_values=(), E=None):
        LayerPaths.__init__(self, is_ld, is_ln, dir_values)
        self.E = E
        self._roles = {}

    def classify(self, v, depth=0):
        if isinstance(v, tuple) and v and v[0] == 'wl_tree':
            return TREE
        k = LayerPaths.classify(self, v, depth)
        if k is None and depth == 0 and self.E is not None and isinstance(v, tuple) and v:
            # normal form: private helpers / constructors that only compute paths are transparent wherever they occur in
            # the value (`LayerPaths::new(layers_dir, name).toml`), not only as its outermost call
            prog, sl = self.E.prog, self.E.slicer
            keep = (LayerPaths.sbom_path_fn, 'libcnb::layer::struct_api::LayerRef::<B, MAC, RAC>::path')
            if any(x[0] == 'call' and x[1] in prog.fns and x[1] not in keep for x in walk(v)):
                nv = norm(sl, sl.inline_deep(v, keep=keep))
                if nv != v:
                    k = LayerPaths.classify(self, nv, 1)
        return k

    def classify_effect(self, e):
        k = self.classify(e.path)
        if k is not None or e.path is None or self.E is None:
            return k
        v = self._resolve(e.path, e)
        return self.classify(v) if v is not None else None

    # -- internals ------------------------------------------------------------------------------------------------------
    def _owner_mapping(self, e, fnpath):
        if e.call is not None and e.call.fn.path == fnpath:
            return e.mapping or {}
        for l in reversed(e.chain):
            if isinstance(l, Link) and l.call.fn.path == fnpath:
                return l.mapping or {}
        return None

    def _elems(self, v):
        prog, sl = self.E.prog, self.E.slicer
        out = []
        for x in walk(v):
            if x[0] == 'unwrap':
                wl = worklist_of_elem(prog, sl, x)
                if wl is not None and wl not in out:
                    out.append(wl)
        return out

    def _hyp(self, v, roles):
        """v with the fields of work-list elements replaced by what the invariant says about them"""
        prog, sl = self.E.prog, self.E.slicer

        def placeholder(wl, field):
            role = roles.get(wl.site, {}).get(field)
            if role == 'path':
                return ('wl_tree', wl.site)
            if role == 'listing':
                return ('call', 'std::fs::read_dir', (('wl_tree', wl.site),), None)
            return None

        def go(x):
            if not isinstance(x, tuple) or not x:
                return x
            if isinstance(x[0], str) and x[0] in LEAF:
                return x
            if x[0] == 'field' and len(x) == 3 and isinstance(x[1], tuple):
                wl = worklist_of_elem(prog, sl, x[1])
                if wl is not None:
                    return placeholder(wl, x[2]) or x
            wl = worklist_of_elem(prog, sl, x)
            if wl is not None:
                return placeholder(wl, '') or x
            out = tuple(go(y) if isinstance(y, tuple) else y for y in x)
            return x if out == x else out
        return go(v)

    def _listed(self, v, depth=0):
        """directories a listing value (ReadDir) lists, or None"""
        sl = self.E.slicer
        v = _pstrip(v)
        if v[0] == 'phi':
            out = []
            for x in v[1]:
                r = self._listed(x, depth + 1)
                if r is None:
                    return None
                out.extend(r)
            return out
        if v[0] == 'call' and v[1] == 'std::fs::read_dir' and v[2]:
            return [v[2][0]]
        if v[0] == 'call' and v[1] in self.E.prog.fns and depth < 4:
            iv = sl.inline_call(v)
            if iv is not None and iv != v:
                return self._listed(norm(sl, iv), depth + 1)
        return None

    def _satisfies(self, comp, role, roles):
        sl = self.E.slicer
        c = self._hyp(comp, roles)
        if self._elems(c):
            return False
        if role == 'path':
            return _in_tree(self.classify(c))
        dirs = self._listed(norm(sl, sl.inline_deep(c)))
        return bool(dirs) and all(_in_tree(self.classify(d)) for d in dirs)

    def _roles_of(self, wl, m):
        """{field: 'path' | 'listing'}: the invariant of wl's elements under parameter bindings m (see class comment)"""
        sl = self.E.slicer
        key = (wl.site, tuple(sorted((k, canon(v)) for k, v in m.items() if isinstance(k, tuple) and k[0] == wl.fn.path)))
        if key in self._roles:
            return self._roles[key]
        pushed = [wl.components(norm(sl, self.E.subst(sl.operand(wl.fn, q.args[1]), m))) for q in wl.calls['push']]
        roles = {}
        if pushed and all(set(p) == set(pushed[0]) for p in pushed):
            base = [p for p in pushed if not any(self._elems(v) for v in p.values())]
            for f in (pushed[0] if base else ()):
                for role in ('path', 'listing'):
                    if (wl.frozen(f) if role == 'path' else wl.still_listing(f)) and all(self._satisfies(p[f], role, {}) for p in base):
                        roles[f] = role
                        break
            changed = True
            while changed and roles:
                changed = False
                for f in list(roles):
                    if not all(self._satisfies(p[f], roles[f], {wl.site: roles}) for p in pushed):
                        del roles[f]
                        changed = True
        self._roles[key] = roles
        return roles

    def _resolve(self, v, e):
        roles = {}
        for wl in self._elems(v):
            m = self._owner_mapping(e, wl.fn.path)
            if m is None:
                return None
            roles[wl.site] = self._roles_of(wl, m)
        if not roles:
            return None
        r = self._hyp(v, roles)
        return None if self._elems(r) else r


# ---- deepening round: row gates, reader normalisation, lossless keep re-read, tolerated follow-stats --------------------
_DEEPEN_DOC = """Obligations on the parts of the state machine the decision table takes for granted:

  gate         a success outcome without a callback decision ("newly created") is only taken when the *reader* — the
               private function whose Option result separates "no layer" from "layer present" — reported None, and the
               reader reports None only under a negative existence test of the layer directory
  toml-exists  when the reader reports a layer as present, its content-metadata file exists afterwards: on every path to
               such a success site the file was read successfully or written (normalisation of "directory without TOML")
  lossless     the keep path re-reads the file as a type that can hold any metadata table (not the requested type M)
  follow-stat  between a delete decision and the success site no fallible symlink-following stat is applied to an entry
               *below* the layer directory while its error can be absorbed by a tolerant wrapper: a dangling link would
               make "entry vanished" indistinguishable from "layer absent" and the removal stops silently
"""
from .lib.effects import VOCAB as _VOCAB
from .lib.value import vstr
from .lib.discard import ok_on_success as _ok_on_success

STAT_KINDS = ('STAT_FOLLOW', 'STAT_NOFOLLOW')
EXISTENCE_TESTS = ('exists', 'is_dir', 'try_exists')
# metadata types that can represent every TOML table / value (the default `LayerContentMetadata` = GenericMetadata is
# printed without arguments by the compiler)
ANY_TOML = ('std::option::Option<toml::map::Map<std::string::String, toml::Value>>',
            'toml::map::Map<std::string::String, toml::Value>', 'toml::Value', 'std::option::Option<toml::Value>')
NOFOLLOW_NOT_LINK = {'std::fs::FileType::is_dir': True, 'std::fs::Metadata::is_dir': True,
                     'std::fs::FileType::is_file': True, 'std::fs::Metadata::is_file': True,
                     'std::fs::FileType::is_symlink': False, 'std::fs::Metadata::is_symlink': False,
                     'std::path::Path::is_symlink': False}


def _peel(v):
    while isinstance(v, tuple) and v and v[0] in ('unwrap', 'updated') and len(v) >= 2 and isinstance(v[1], tuple):
        v = v[1]
    return v


def _ws_call(prog, subj):
    v = _peel(subj)
    if isinstance(v, tuple) and len(v) == 4 and v[0] == 'call' and v[1] in prog.fns:
        return v
    return None


def readers_of(prog, outs, decision_enums):
    """paths of the private functions whose Option result is `Some` on the outcomes that carry a callback decision"""
    names = []
    for o in outs:
        decs = o.decisions()
        if not any(c.enum in decision_enums for c, s, lv in decs):
            continue
        for c, s, lv in decs:
            if c.enum == 'std::option::Option' and c.outcome == frozenset(['Some']):
                call = _ws_call(prog, s)
                if call is not None and call[1] not in names:
                    names.append(call[1])
    return names


def gated_by_none(prog, o, readers):
    """the outcome lies behind `<reader>(..)? == None`"""
    for c, s, lv in o.decisions():
        if c.enum == 'std::option::Option' and c.outcome == frozenset(['None']):
            call = _ws_call(prog, s)
            if call is not None and call[1] in readers:
                return True
    return False


def option_kind(v):
    """'None' | 'Some' for a returned `Ok(None)` / `Ok(Some(..))` / `None` / `Some(..)` literal"""
    v = _peel(v)
    if isinstance(v, tuple) and len(v) == 4 and v[0] == 'agg' and v[1] == 'std::result::Result' and v[2] == 'Ok' and len(v[3]) == 1:
        v = _peel(v[3][0][1])
    if isinstance(v, tuple) and len(v) == 4 and v[0] == 'agg' and v[1] == 'std::option::Option':
        return v[2]
    return None


def existence_test(val):
    """path value when `val` is a boolean existence test (exists / is_dir / try_exists()? / metadata(..).is_ok())"""
    v = _peel(val)
    if not (isinstance(v, tuple) and len(v) == 4 and v[0] == 'call' and v[2]):
        return None
    if v[1] in _VOCAB and _VOCAB[v[1]][0] in STAT_KINDS and v[1].rsplit('::', 1)[-1] in EXISTENCE_TESTS:
        return v[2][0]
    if v[1] == 'std::result::Result::<T, E>::is_ok':
        x = _peel(v[2][0])
        if isinstance(x, tuple) and len(x) == 4 and x[0] == 'call' and x[1] in _VOCAB and _VOCAB[x[1]][0] in STAT_KINDS and x[2]:
            return x[2][0]
    return None


def chain_ok(prog, e, top_fn=None, top_sites=None):
    """reaching success implies the effect's call succeeded: its Result and the Result of every call on the way down to
    it is propagated (`?`, returned, unwrap) and never handed to something that turns a failure into a success"""
    steps = [l.call for l in e.chain if isinstance(l, Link)] + [e.call]
    for c in steps:
        if c is None:
            return False
        if not (c.dty or '').startswith(('std::result::Result<', 'std::option::Option<')):
            continue
        sites = top_sites if (top_fn is not None and c.fn.path == top_fn.path) else None
        if not _ok_on_success(prog, c.fn, c, sites):
            return False
    return True


def reader_contexts(prog, sl, entry, reader):
    """[(call effect, parameter bindings of the reader in the entry's terms)] for the distinct ways the entry calls it"""
    EV = Effects2(prog, sl, vocab={reader.path: ('READER', None)})
    out, seen = [], set()
    for e in EV.expand(entry, 'may'):
        if e.kind != 'READER' or e.call is None:
            continue
        m = EV.call_mapping(e.call.fn, e.call, reader, e.mapping or {})
        key = tuple(canon(m.get((reader.path, i), ('unknown',))) for i in range(reader.argc))
        if key in seen:
            continue
        seen.add(key)
        out.append((e, m))
    return out


_READER_DOC = """The layer reader is a *function with outcomes*, not one function body: `read_layer` may be a thin (generic)
shell over a private non-generic helper that does the stat / normalise / read part and hands on `Option<(path, text)>`, with
the shell's `let Some(..) = helper(..)? else { return Ok(None) }` and `parse(..).map(|m| Some(..))` around it.  Its
obligations are therefore stated on the leaf success outcomes of the reader split on every private helper of its own module
that the returned value or a dominating test depends on (outcomes2 — the split the decision table uses): an outcome is
None / Some by its value in normal form, its conditions are those of every frame on the way (each read in the terms of the
calling context through the frame's parameter mapping) and its MUST effects are those of the helper's *matching* outcome,
not the intersection over all of the helper's outcomes."""


def frame_mapping(E, m, frame):
    """parameter bindings of the function at the end of `frame`, in the terms of the context `m` of the frame's root"""
    for caller, bb, callee in frame:
        f, g = E.prog.fns.get(caller), E.prog.fns.get(callee)
        c = f.call_at(bb) if f is not None else None
        if c is None or g is None:
            return None
        m = E.call_mapping(f, c, g, m or {})
    return m


def chain_ok_sites(prog, e, site_map):
    """chain_ok with the success sites of *every* function of the outcome known: a step in function f only has to be
    propagated on the way to f's site of this outcome"""
    steps = [l.call for l in e.chain if isinstance(l, Link)] + [e.call]
    for c in steps:
        if c is None:
            return False
        if not (c.dty or '').startswith(('std::result::Result<', 'std::option::Option<')):
            continue
        if not _ok_on_success(prog, c.fn, c, site_map.get(c.fn.path)):
            return False
    return True


def _transposed_kind(v):
    v = _peel(v)
    if isinstance(v, tuple) and len(v) == 4 and v[0] == 'call' and v[1].startswith('std::option::Option') and v[1].endswith('::transpose') \
            and len(v[2]) == 1:
        a = _peel(v[2][0])
        if isinstance(a, tuple) and len(a) == 4 and a[0] == 'agg' and a[1] == 'std::option::Option':
            return a[2]
    return None


def reader_report(prog, sl, E, reader, m, LP):
    """[(subject, status 'holds'|'violated'|'unproven', where, message)] for one calling context of the reader"""
    res = []
    where = '%s:%d' % (reader.file, reader.line)
    n_none = n_some = 0

    def through(g):
        # any function of the reader's crate the value / a dominating test of an outcome depends on (outcomes2 splits on
        # nothing else): the helper may live in the reader's module, nested in the reader, or in a shared util module
        return g.crate == reader.crate and g.kind != 'Closure' and g.path != reader.path

    def unsplit(vals):
        """names of workspace functions still deciding an outcome after the split (recursive, too deep, several callees)"""
        names = []
        for v in vals:
            for x in walk(v):
                if isinstance(x, tuple) and len(x) == 4 and x[0] == 'call' and x[1] in prog.fns and prog.fns[x[1]].kind != 'Closure' \
                        and x[1] not in names:
                    names.append(x[1])
        return names
    try:
        outs = outcomes2(E, reader, through, m)
    except RecursionError:
        outs = None
    if outs is None:
        return [('site-shape', 'unproven', where, 'the success outcomes of the layer reader could not be enumerated')]
    for o in outs:
        v = o.value
        kind = option_kind(norm(sl, v)) if v is not None else None
        if kind is None and v is not None:
            # `Ok(Some(x))` written as the last combinator of a chain (`parse(..).map_err(E).map(|m| Some(..))`): the site
            # succeeds exactly when the chain is Ok, and then returns its success payload
            kind = option_kind(norm(sl, ('unwrap', v)))
        if kind is None and v is not None:
            # `opt.map(|x| parse(x).map(..)).transpose()`: Ok(None) for None, and for Some(r) Ok(Some(..)) exactly when r is Ok
            kind = _transposed_kind(norm(sl, v))
        tag = '/'.join('bb%d' % st.bb for st in o.sites)
        if kind is None:
            res.append(('site-shape', 'unproven', where, 'success site %s of the layer reader returns a value that is neither None nor Some(..): %s'
                        % (tag, vstr(v)[:120] if v is not None else 'tail call')))
            continue
        if kind == 'None':
            n_none += 1
            ok, seen_dir = False, False
            for cd, _subj, fr in o.conds:
                if cd.kind != 'bool':
                    continue
                fm = frame_mapping(E, m, fr)
                if fm is None:
                    continue
                for val, oc in cd.views():
                    pv = existence_test(val)
                    if pv is None:
                        if any(LP.classify(E.subst(x, fm)) == ('DIR',) for x in walk(val) if isinstance(x, tuple) and x and x[0] == 'call'):
                            seen_dir = True
                        continue
                    if LP.classify(E.subst(pv, fm)) == ('DIR',):
                        seen_dir = True
                        if oc is False:
                            ok = True
            if ok:
                res.append(('none-gate', 'holds', where, '"no layer" is reported only when the layer directory does not exist'))
            elif seen_dir:
                res.append(('none-gate', 'unproven', where, '"no layer" (%s) depends on a test of the layer directory that is not a plain negative existence test' % tag))
            elif unsplit([sj for _c, sj, _f in o.conds]):
                res.append(('none-gate', 'unproven', where, '"no layer" (%s) is decided by %s, whose outcomes could not be read into the reader\'s: no negative '
                            'existence test of the layer directory was recognised on the way' % (tag, ', '.join(n.rsplit('::', 1)[-1] for n in unsplit([sj for _c, sj, _f in o.conds])[:3]))))
            else:
                res.append(('none-gate', 'violated', where, '"no layer" is reported (%s) on a path where the layer directory may exist: its contents would survive in a layer reported as newly created' % tag))
            continue
        n_some += 1
        site_map = {}
        for st in o.sites:
            site_map.setdefault(st.fn.path, set()).add(st.bb)
        hits = [e for e in o.must if e.kind in ('READ', 'WRITE') and e.path is not None and LP.classify_effect(e) == ('TOML',)]
        good = [e for e in hits if chain_ok_sites(prog, e, site_map)]
        if good:
            res.append(('toml-exists', 'holds', where, 'a layer is reported present only after its content metadata file was %s'
                        % ('read successfully' if good[0].kind == 'READ' else 'written')))
        elif hits:
            res.append(('toml-exists', 'unproven', where, 'the content metadata file is read/written on the way to reporting a layer (%s), but a failure of that operation can end in success' % tag))
        elif unsplit([sj for cd, sj, _f in o.conds if cd.kind == 'variant']):
            hs = unsplit([sj for cd, sj, _f in o.conds if cd.kind == 'variant'])
            res.append(('toml-exists', 'unproven', where, 'a layer is reported present (%s) depending on %s, whose outcomes could not be read into the reader\'s: no '
                        'successful read / write of the content metadata file was recognised on the way' % (tag, ', '.join(n.rsplit('::', 1)[-1] for n in hs[:3]))))
        else:
            res.append(('toml-exists', 'violated', where, 'a layer is reported present (%s) on a path where its content metadata file was neither read successfully nor written: '
                        'a layer directory without TOML is not normalised and the keep / metadata writers fail on it' % tag))
    if not n_none:
        res.append(('none-gate', 'unproven', where, 'the layer reader has no success site returning None'))
    if not n_some:
        res.append(('toml-exists', 'unproven', where, 'the layer reader has no success site returning Some(..)'))
    return res


def unroll_recursion(E, effs):
    """effects of one more level of every recursive call among `effs`: the recursive call's arguments (an entry of the
    directory being emptied) bound to the function's parameters, so that what the function does to its parameter is also
    seen on the classes of paths it hands to itself"""
    out = []
    for e in effs:
        if e.kind != 'RECURSION' or not e.chain:
            continue
        l = e.chain[-1]
        if not isinstance(l, Link) or l.call.indirect:
            continue
        inside = {x.call.fn.path for x in e.chain if isinstance(x, Link)}
        for g in E.prog.callee_fns(l.call):
            if g.path not in inside:
                continue
            m = E.call_mapping(l.call.fn, l.call, g, l.mapping or {})
            out.extend(x for x in E.expand(g, 'may', None, m, e.chain) if x.kind != 'RECURSION')
    return out


def nested_follow_stats(prog, sl, effs, classify, E=None):
    """[(effect, verdict 'violated'|'unproven', message)] for fallible symlink-following stats on entries strictly below the
    layer directory whose failure can be absorbed on the way to success"""
    out, seen = [], set()
    if E is not None:
        effs = list(effs) + unroll_recursion(E, effs)
    for e in effs:
        if e.kind != 'STAT_FOLLOW' or e.call is None or e.path is None:
            continue
        if not (e.call.dty or '').startswith('std::result::Result<'):
            continue
        k = classify(e)
        if k is None or k[0] not in ('SUB', 'CHILD'):
            continue
        key = (e.call.fn.path, e.call.bb)
        if key in seen:
            continue
        seen.add(key)
        if chain_ok(prog, e):
            continue     # the error is reported: not a silent leftover
        # a dominating no-follow test of the same path that excludes a symbolic link makes the stat harmless
        fn = e.call.fn
        pv = canon(_peel(sl.operand(fn, e.call.args[0]))) if e.call.args else None
        verdict = 'violated'
        for cd in _conditions(fn, e.call.bb, sl):
            if cd.kind != 'bool':
                continue
            for val, oc in cd.views():
                for x in walk(val):
                    if not (isinstance(x, tuple) and len(x) == 4 and x[0] == 'call' and x[1] in NOFOLLOW_NOT_LINK):
                        continue
                    src = [y for y in walk(x) if isinstance(y, tuple) and len(y) == 4 and y[0] == 'call' and y[1] in _VOCAB
                           and _VOCAB[y[1]][0] == 'STAT_NOFOLLOW' and y[2] and canon(_peel(y[2][0])) == pv]
                    if src or (x[1] == 'std::path::Path::is_symlink' and x[2] and canon(_peel(x[2][0])) == pv):
                        verdict = 'holds' if (val is x or _peel(val) == x) and oc == NOFOLLOW_NOT_LINK[x[1]] else 'unproven'
        if verdict != 'holds':
            out.append((e, verdict, '%s follows symbolic links on an entry below the layer directory (%s) and its error is absorbed (%s): '
                        'a dangling link ends the removal early while the layer is reported empty'
                        % (e.call.name, vstr(e.path)[:80], e.via())))
    return out


# ---- round 4: the value read from a file, in normal form ---------------------------------------------------------------
_TOML_SOURCE_DOC = """"The value read from <file>" is not one library function: `read_toml_file(p)`, a private `read_generic(p)` that
spells out `fs::read_to_string` + `toml::from_str` and maps the two errors by hand, or the two calls written in place all
have the same success payload in normal form (private helpers transparent, `?` / match-on-Ok / combinators reduced):

        unwrap(toml::from_str(unwrap(fs::read_to_string(P))))

`toml_source` recognises exactly that — nothing between the bytes of the file and the deserialised value, so a helper that
reads as one type and converts to another is *not* such a value — and gives the file P and the type the value has where
it enters the function that uses it (the Ok payload of the outermost call's result type, in the caller's generics)."""
TOML_PARSE = ('toml::from_str', 'toml::de::from_str')
FILE_READ_TEXT = ('std::fs::read_to_string',)


def _peel_unwrap(v):
    while isinstance(v, tuple) and len(v) == 2 and v[0] == 'unwrap' and isinstance(v[1], tuple):
        v = v[1]
    return v


def _type_args(ty):
    """top-level generic arguments of a printed type `Head<A, B<C, D>>` -> (Head, [A, B<C, D>])"""
    i = ty.find('<')
    if i < 0 or not ty.endswith('>'):
        return ty, []
    head, body = ty[:i], ty[i + 1:-1]
    args, depth, cur = [], 0, ''
    for ch in body:
        if ch in '<([':
            depth += 1
        elif ch in '>)]':
            depth -= 1
        if ch == ',' and depth == 0:
            args.append(cur.strip())
            cur = ''
        else:
            cur += ch
    if cur.strip():
        args.append(cur.strip())
    return head, args


def ok_payload_type(ty):
    """the type of the success payload of a (possibly nested) Result / Option type"""
    while isinstance(ty, str):
        head, args = _type_args(ty)
        if head in STD_ENUMS and args:
            ty = args[0]
        else:
            break
    return ty


def _outer_site_call(prog, v):
    """the Call that produced the value v, looking through unwraps and Ok-preserving combinators"""
    for _ in range(12):
        v = _peel(v)
        if not (isinstance(v, tuple) and len(v) == 4 and v[0] == 'call'):
            return None
        if isinstance(v[3], tuple) and len(v[3]) == 2 and not (v[1] in OK_PRESERVING):
            fn = prog.fns.get(v[3][0])
            return fn.call_at(v[3][1]) if fn is not None else None
        if v[1] in OK_PRESERVING and v[2]:
            v = v[2][0]
            continue
        return None
    return None


_READ_BUFFER_DOC = """`fs::read_to_string(P)?` and

        let mut buf = String::new();  File::open(P)?.read_to_string(&mut buf)?;

leave the same text in hand (std defines the former as the latter).  The value slicer follows the second spelling only when
the `&mut buf` is handed to the read directly; rustc usually reborrows it (`&mut *(&mut buf)`), and then the buffer reads as
the empty `String::new()` it was created as.  `read_buffers` recognises the idiom on the facts:

  * the buffer is a local with one whole definition, a call of an empty constructor (String::new / Vec::new / with_capacity);
  * every `&mut` borrow of it (followed through reborrows and moves of the reference) ends as the buffer argument of one and
    the same call of `Read::read_to_string` / `read_to_end`, which is not inside a loop — nothing else can write to it;
  * the receiver of that call is `File::open(P)?` and nothing else, and the read's own Result is propagated on the way to
    every success (`?`): a success of the function implies the whole file was read;
  * every shared borrow / use of the buffer is dominated by the read.

and `inline_deep_rb` is `sl.inline_deep` with the creating call of such a buffer replaced by `unwrap(fs::read_to_string(P))`
in the callee's own terms before its parameters are bound."""
BUF_CTORS = ('std::string::String::new', 'std::string::String::with_capacity', 'std::vec::Vec::<T>::new',
             'std::vec::Vec::<T>::with_capacity')
BUF_READERS = {'std::io::Read::read_to_string': 'std::fs::read_to_string', 'std::io::Read::read_to_end': 'std::fs::read'}
FILE_OPEN = ('std::fs::File::open',)
BUF_WRAPPERS = {'std::io::BufReader::<R>::new': 0, 'std::io::BufReader::<R>::with_capacity': 1}
# `String::from_utf8(fs::read(P)?)?` is the text of P like `fs::read_to_string(P)?` (invalid UTF-8 is an error in both)
UTF8_DECODE = ('std::string::String::from_utf8', 'std::str::from_utf8', 'core::str::from_utf8', 'std::str::converts::from_utf8')
FILE_READ_BYTES = ('std::fs::read',)


def text_of_file(src):
    """path P when `src` is, in normal form, the whole text of file P"""
    src = _peel_unwrap(src)
    if not (isinstance(src, tuple) and len(src) == 4 and src[0] == 'call' and len(src[2]) == 1):
        return None
    if src[1] in FILE_READ_TEXT:
        return src[2][0]
    if src[1] == 'std::io::read_to_string':
        # `io::read_to_string(File::open(P)?)` (optionally through a BufReader): the whole text of P
        r = _peel_unwrap(src[2][0])
        for _ in range(3):
            if isinstance(r, tuple) and len(r) == 4 and r[0] == 'call' and r[1] in BUF_WRAPPERS and r[2]:
                r = _peel_unwrap(r[2][BUF_WRAPPERS[r[1]]])
        if isinstance(r, tuple) and len(r) == 4 and r[0] == 'call':
            if r[1] in FILE_OPEN and len(r[2]) == 1:
                return r[2][0]
            if r[1] == 'std::fs::OpenOptions::open' and len(r[2]) == 2 and open_mode(r[2][0]) == 'read':
                return r[2][1]
        return None
    if src[1] in UTF8_DECODE:
        b = _peel_unwrap(src[2][0])
        if isinstance(b, tuple) and len(b) == 4 and b[0] == 'call' and b[1] in FILE_READ_BYTES and len(b[2]) == 1:
            return b[2][0]
    return None


def toml_read_hint(prog, sl, base, classify):
    """the std call that opens / reads this layer's TOML somewhere inside `base` (helpers inlined), or None: the value does
    come from the file, through a reading mechanism toml_source does not reduce to `parse(text of P)`"""
    try:
        v = inline_deep_rb(prog, sl, base)
    except RecursionError:
        return None
    for x in walk(v):
        if isinstance(x, tuple) and len(x) == 4 and x[0] == 'call' and x[1] in _VOCAB and _VOCAB[x[1]][0] in ('READ', 'OPEN'):
            i = _VOCAB[x[1]][1]
            if i is not None and i < len(x[2]) and classify(x[2][i]) == ('TOML',):
                return x[1]
    return None


def read_buffers(prog, sl, g):
    key = ('readbuf2', g.path)
    cache = _cache(sl)
    if key in cache:
        return cache[key]
    out = {}
    cache[key] = out
    reads = [c for c in g.calls if not c.indirect and c.decl in BUF_READERS and len(c.args) == 2]
    if not reads:
        return out
    # reference locals: ref -> (root local, mutable?) through `&mut x`, `&mut *r`, `move r`
    src = {}
    for b in g.blocks:
        for st in b['s']:
            if st[0] != '=' or len(st[1]) != 1:
                continue
            rv = st[2]
            if rv['r'] == 'ref':
                pl = rv['p']
                if len(pl) == 1:
                    src[st[1][0]] = ('ref', pl[0], bool(rv.get('mut')))
                elif len(pl) == 2 and pl[1] == '*':
                    src[st[1][0]] = ('reborrow', pl[0], bool(rv.get('mut')))
            elif rv['r'] == 'use':
                pl = _op_place(rv['o'])
                if pl and len(pl) == 1:
                    src[st[1][0]] = ('move', pl[0], None)

    def root(l, depth=0):
        """(buffer local, via a mutable borrow?) the reference local l points to"""
        x = src.get(l)
        if x is None or depth > 6:
            return None
        if x[0] == 'ref':
            return x[1], x[2]
        r = root(x[1], depth + 1)
        if r is None:
            return None
        return (r[0], r[1] and x[2]) if x[0] == 'reborrow' else r
    for c in reads:
        pl = _op_place(c.args[1])
        r = root(pl[0]) if pl and len(pl) == 1 else None
        if r is None or not r[1]:
            continue
        buf = r[0]
        defs = g.whole_defs(buf)
        if len(defs) != 1 or defs[0][0] != 'call' or g.partial_defs(buf):
            continue
        ctor = defs[0][3]
        if ctor.indirect or ctor.name not in BUF_CTORS or g.in_loop(c.bb) or g.in_loop(ctor.bb):
            continue
        # every mutable borrow of the buffer leads to this read and to nothing else
        muts = [l for l, x in src.items() if x[0] == 'ref' and x[1] == buf and x[2]]
        users = [c2 for c2 in g.calls for a in c2.args
                 if (_op_place(a) or [None])[0] is not None and (root((_op_place(a))[0]) or (None, False)) == (buf, True)]
        if len(muts) != 1 or [id(u) for u in users] != [id(c)]:
            continue
        # moved / copied out of the buffer before the read? every other use must come after the read
        uses_ok = True
        for bi, b in enumerate(g.blocks):
            for st in b['s']:
                if st[0] != '=':
                    continue
                rv = st[2]
                touches = (rv['r'] == 'ref' and rv['p'][0] == buf and not rv.get('mut')) or \
                          (rv['r'] == 'use' and (_op_place(rv['o']) or [None])[0] == buf)
                if touches and not (bi != c.bb and g.dominates(c.bb, bi)):
                    uses_ok = False
        for c2 in g.calls:
            if c2 is not c and any((_op_place(a) or [None])[0] == buf for a in c2.args) and not (c2.bb != c.bb and g.dominates(c.bb, c2.bb)):
                uses_ok = False
        if not uses_ok:
            continue
        recv = _peel_unwrap(sl.operand(g, c.args[0]))
        for _ in range(3):
            # a buffering wrapper reads the same bytes: `BufReader::new(File::open(P)?)`
            if isinstance(recv, tuple) and len(recv) == 4 and recv[0] == 'call' and recv[1] in BUF_WRAPPERS and recv[2]:
                recv = _peel_unwrap(recv[2][BUF_WRAPPERS[recv[1]]])
        if not (isinstance(recv, tuple) and len(recv) == 4 and recv[0] == 'call'):
            continue
        if recv[1] in FILE_OPEN and len(recv[2]) == 1:
            opened = recv[2][0]
        elif recv[1] == 'std::fs::OpenOptions::open' and len(recv[2]) == 2 and open_mode(recv[2][0]) == 'read':
            opened = recv[2][1]
        else:
            continue
        if not _ok_on_success(prog, g, c, None):
            continue
        out[(g.path, ctor.bb)] = ('unwrap', ('call', BUF_READERS[c.decl], (opened,), (g.path, c.bb)))
    return out


def _returned_rb(prog, sl, g):
    rv = sl.local(g, 0)
    bufs = read_buffers(prog, sl, g)
    if not bufs:
        return rv
    for site, val in bufs.items():
        rv = _replace_node(rv, lambda x: len(x) == 4 and x[0] == 'call' and x[1] in BUF_CTORS and x[3] == site, val)[0]
    return rv


def inline_deep_rb(prog, sl, v, depth=4, stack=()):
    """sl.inline_deep with read buffers (see _READ_BUFFER_DOC) holding the text of their file"""
    if not isinstance(v, tuple) or not v or depth < 0:
        return v
    if v[0] == 'call' and v[1] in prog.fns:
        g = prog.fns[v[1]]
        if g.path not in stack and len(stack) <= 6 and g.kind != 'Closure':
            m = {(g.path, i): a for i, a in enumerate(v[2]) if i < g.argc}
            iv = _subst_value(_returned_rb(prog, sl, g), m, sl)
            if iv is not None and iv != v:
                return inline_deep_rb(prog, sl, iv, depth - 1, stack + (g.path,))
    if v[0] in LEAF:
        return v
    out = tuple(inline_deep_rb(prog, sl, x, depth, stack) if isinstance(x, tuple) else x for x in v)
    if out == v:
        return v
    if out[0] == 'unwrap':
        return sl.mk_unwrap(out[1], 1)
    if out[0] == 'field':
        return sl._field(out[1], out[2])
    if out[0] == 'variant':
        return sl._variant(out[1], out[2])
    return out


def _tuple_elems(ty):
    if isinstance(ty, str) and ty.startswith('(') and ty.endswith(')'):
        return _type_args('T<' + ty[1:-1] + '>')[1]
    return None


def value_type(prog, v):
    """printed type of the value v where it enters the function that uses it: the result type of the outermost call that
    produced it, taken through the projections between that call and v — success payload (`?` / unwrap), tuple component
    (`let (path, value) = helper(..)?`), variant payload — and Ok-preserving combinators; None when not followed"""
    projs = []
    ty = None
    for _ in range(24):
        if not (isinstance(v, tuple) and v):
            return None
        if v[0] == 'unwrap' and len(v) == 2:
            projs.append(('ok', None))
            v = v[1]
        elif v[0] == 'updated':
            v = v[1]
        elif v[0] == 'field' and len(v) == 3:
            projs.append(('field', v[2]))
            v = v[1]
        elif v[0] == 'variant' and len(v) == 3:
            projs.append(('variant', v[2]))
            v = v[1]
        elif v[0] == 'call' and len(v) == 4:
            if v[1] in OK_PRESERVING and v[2]:
                v = v[2][0]
                continue
            if isinstance(v[3], tuple) and len(v[3]) == 2:
                fn = prog.fns.get(v[3][0])
                c = fn.call_at(v[3][1]) if fn is not None else None
                ty = c.dty if c is not None else None
            break
        else:
            return None
    if not ty:
        return None
    variant = None
    for kind, name in reversed(projs):
        head, args = _type_args(ty)
        if kind == 'ok':
            if head in STD_ENUMS and args:
                ty = args[0]
            variant = None
        elif kind == 'variant':
            if head not in STD_ENUMS:
                return None
            variant = name
        else:
            if variant is not None:
                if name != '0' or not args:
                    return None
                ty = args[1] if variant == 'Err' and len(args) > 1 else args[0]
                variant = None
                continue
            elems = _tuple_elems(ty)
            if elems is not None:
                if not name.isdigit() or int(name) >= len(elems):
                    return None
                ty = elems[int(name)]
                continue
            # a named field of a private carrier struct (`struct Loaded { path, content }`): only for a struct that is not
            # generic (no field typed by a parameter), where the declared field type is the type
            try:
                adt = prog.adt(ty) if '<' not in ty else None
            except Exception:
                adt = None
            if not adt or adt.get('kind') != 'struct' or len(adt.get('variants', ())) != 1:
                return None
            fields = adt['variants'][0]['fields']
            if any((f.get('head') or '?').startswith('?') or '<' in f['ty'] and '?' in f.get('head', '') for f in fields):
                return None
            hit = [f for f in fields if f['name'] == name]
            if len(hit) != 1:
                return None
            ty = hit[0]['ty']
    return ok_payload_type(ty)


def toml_source(prog, sl, base):
    """(path value P, type the value is read as | None) when the success payload of `base` is, in normal form, the parsed
    text of file P and nothing else; None otherwise"""
    if not isinstance(base, tuple) or not base:
        return None
    v = norm(sl, ('unwrap', inline_deep_rb(prog, sl, base)))
    for _ in range(3):
        # applying a closure (`read(p).and_then(|text| parse(&text))`) can expose further private helpers: inline again
        v2 = norm(sl, inline_deep_rb(prog, sl, v))
        if v2 == v:
            break
        v = v2
    v = _peel_unwrap(v)
    if not (isinstance(v, tuple) and len(v) == 4 and v[0] == 'call' and v[1] in TOML_PARSE and len(v[2]) == 1):
        return None
    pth = text_of_file(v[2][0])
    if pth is None:
        return None
    oc = _outer_site_call(prog, base)
    ty = ok_payload_type(oc.dty) if oc is not None and oc.dty else value_type(prog, base)
    return pth, ty


def lossless_type(ty):
    """(True|False|None, message) — can a value of type `ty` hold every metadata table of a content-metadata file?"""
    if not ty:
        return None, 'type of the value read is unknown'
    head = 'libcnb_data::layer_content_metadata::LayerContentMetadata'
    if ty == head:
        return True, 'read as LayerContentMetadata<GenericMetadata>'
    if ty.startswith(head + '<') and ty.endswith('>'):
        arg = ty[len(head) + 1:-1]
        if arg in ANY_TOML:
            return True, 'read as LayerContentMetadata<%s>' % arg
        return False, 'metadata is re-read as %s: keys that type does not model are dropped from a layer reported as restored' % arg
    if ty in ANY_TOML:
        return True, 'read as ' + ty
    return None, 'read as ' + ty


# ---- round 4: collections built in place ("plan, then execute") -------------------------------------------------------
_BUILT_DOC = """`for f in FORMATS { remove(path(f)) }`, a loop over `FORMATS.iter().map(path).collect::<Vec<_>>()` and a loop over

        let mut v = Vec::new();  v.push(toml);  v.extend(FORMATS.iter().map(path));  for f in FORMATS { v.push(path(f)) }

visit the same elements.  The iterator algebra (lib/iters.alts) reads the first two; the value slicer does not follow what
is pushed into a local Vec (`vec![a]` followed by `push(b)` is, to it, the array `[a]`), so the third is read here.  A
*built collection* is a local Vec / VecDeque that

  faithful     has one definition in the function and is only ever touched through element-adding calls (push / push_back /
               insert / extend / extend_from_slice), order-only or read-only calls (len, is_empty, reserve, sort, reverse,
               iter, as_slice, deref) and the call that consumes it (into_iter / iter) — every borrow of it is followed to
               its use; anything else (pop, remove, clear, retain, truncate, drain, a `&mut` handed on) disqualifies it
  elements     = the elements it is created with (none for Vec::new / with_capacity, otherwise what the library reads from
               its initial value), and for every adding call q, relative to the block `at` of the consuming effect:
                   q dominates `at`, outside loops                         one definite element (or the elements of the
                                                                           iterator handed to extend)
                   q inside a loop that runs to exhaustion before `at`     one element per element of that loop's collection
                   and is passed by every iteration                        (the loop element substituted)
                   anything else (conditional push)                        possible elements only: `filtered` — they count
                                                                           for MAY (confinement), never for MUST

`built_alts` substitutes each element source for the collection inside the iterated expression (`once(x)` for a pushed x, the
iterator itself for extend) and lets the library decompose the result, so adapters between the collection and the loop
(`v.iter().map(f)`) apply to every element; the alternatives have the (element, forall, filtered) form of iters.alts and
Effects2 expands a call inside `for x in v` once per element exactly as the library does for literal tables."""
from .lib import iters as _iters
from .lib.guards import edge_dominates as _edge_dominates

BV_ADD = {'push': 1, 'push_back': 1, 'push_front': 1, 'insert': 2}
BV_ADD_MANY = {'extend': 1, 'extend_from_slice': 1}
BV_NEUTRAL = ('len', 'is_empty', 'capacity', 'reserve', 'reserve_exact', 'shrink_to_fit', 'sort', 'sort_unstable', 'reverse',
              'iter', 'as_slice', 'first', 'last', 'get', 'contains', 'into_iter', 'dedup', 'rotate_left', 'rotate_right', 'swap')
BV_CONSUME_DECL = ('std::iter::IntoIterator::into_iter',)
BV_EXTEND_DECL = ('std::iter::Extend::extend',)
BV_TYPES = ('std::vec::Vec<', 'std::collections::VecDeque<', 'std::collections::vec_deque::VecDeque<')


class BuiltVec:
    def __init__(self, fn, local):
        self.fn = fn
        self.local = local
        self.site = None      # creation call site when created empty
        self.init = None      # initial value otherwise
        self.adds = []        # (Call, index of the element / iterator argument, many?)
        self.faithful = False
        self.mutated_unknown = False

    def _scan(self, sl):
        """True when faithful; the adding calls that were seen are recorded either way (`opaque`: elements are added in
        place but the collection cannot be read — whoever iterates it may see anything)"""
        fn = self.fn
        if not _single_def(fn, self.local):
            return False
        d = fn.whole_defs(self.local)[0]
        if d[0] == 'call' and wl_role(d[3]) == 'create':
            self.site = (fn.path, d[3].bb)
        ok = True
        derived, work = {}, [(self.local, False)]

        def fail(via_mut):
            # a use that is not understood; through a `&mut` it may add or remove elements
            if via_mut:
                self.mutated_unknown = True
            return False
        while work:
            t, tm = work.pop()
            if t in derived and (derived[t] or not tm):
                continue
            derived[t] = tm or derived.get(t, False)
            if not _single_def(fn, t):
                ok = fail(tm)
                continue
            for bi, kind, idx, how, pl in fn.uses_of(t):
                if kind == 'drop':
                    continue
                if any(p != '*' for p in pl[1:]):
                    ok = fail(tm or t == self.local)
                    continue
                if kind == 'stmt':
                    st = fn.blocks[bi]['s'][idx]
                    if how not in ('ref', 'refmut', 'c', 'm', 'cfd') or len(st[1]) != 1 or st[1][0] == 0:
                        ok = fail(tm or how == 'refmut')
                        continue
                    work.append((st[1][0], tm or how == 'refmut'))
                elif kind == 'arg':
                    c = fn.call_at(bi)
                    if c is None or c.indirect or idx != 0:
                        ok = fail(tm)
                        continue
                    n = c.name or ''
                    last = n.rsplit('::', 1)[-1]
                    owned = n.startswith(WL_OWNERS)
                    if owned and last in BV_ADD and len(c.args) == BV_ADD[last] + 1:
                        self.adds.append((c, BV_ADD[last], False))
                    elif ((owned and last in BV_ADD_MANY) or c.decl in BV_EXTEND_DECL) and len(c.args) == 2:
                        self.adds.append((c, 1, True))
                    elif c.decl in BV_CONSUME_DECL or (owned and last in BV_NEUTRAL):
                        continue
                    elif _is_view(c) and c.dest and len(c.dest) == 1 and c.dest[0] != 0:
                        work.append((c.dest[0], tm))
                    else:
                        ok = fail(tm)
                else:
                    ok = fail(tm)
        if self.site is None and self.adds:
            self.init = sl.local(fn, self.local)
        self.faithful = ok
        return ok


def built_vecs(sl, fn):
    """{local: BuiltVec} of the faithful built collections of fn"""
    c = _cache(sl)
    key = ('built', fn.path)
    if key not in c:
        out = {}
        for x in range(fn.argc + 1, len(fn.locals)):
            if not (fn.local_ty(x) or '').startswith(BV_TYPES):
                continue
            bv = BuiltVec(fn, x)
            bv._scan(sl)
            if bv.adds or bv.mutated_unknown:
                out[x] = bv
        c[key] = out
    return {x: bv for x, bv in c[key].items() if bv.faithful and bv.adds}


def opaque_built(sl, fn, loop):
    """the loop iterates a local collection that has elements added in place but cannot be read as a built collection"""
    if loop is None or not loop.next_call.args:
        return False
    built_vecs(sl, fn)
    every = _cache(sl)[('built', fn.path)]
    pl = _op_place(loop.next_call.args[0])
    for _ in range(16):
        if pl is None or any(p != '*' for p in pl[1:]):
            return False
        x = pl[0]
        if x in every:
            return True
        defs = fn.whole_defs(x)
        if len(defs) != 1 or fn.partial_defs(x):
            return False
        d = defs[0]
        if d[0] == 'stmt' and d[3]['r'] in ('use', 'cast'):
            pl = _op_place(d[3]['o'])
        elif d[0] == 'stmt' and d[3]['r'] == 'ref':
            pl = d[3]['p']
        elif d[0] == 'call' and not d[3].indirect and d[3].args:
            pl = _op_place(d[3].args[0])      # any call: an adapter over the collection still yields its elements
        else:
            return False
    return False


UNKNOWN_ELEM = ('unknown', 'element of a collection built in place')


def _root_built(sl, fn, pl):
    """the built collection the iterator in place pl iterates: followed through moves, borrows and element-preserving views"""
    built = built_vecs(sl, fn)
    for _ in range(16):
        if pl is None or any(p != '*' for p in pl[1:]):
            return None
        x = pl[0]
        if x in built:
            return built[x]
        defs = fn.whole_defs(x)
        if len(defs) != 1 or fn.partial_defs(x):
            return None
        d = defs[0]
        if d[0] == 'stmt':
            rv = d[3]
            if rv['r'] in ('use', 'cast'):
                pl = _op_place(rv['o'])
            elif rv['r'] == 'ref':
                pl = rv['p']
            else:
                return None
        elif d[0] == 'call':
            c = d[3]
            n = c.name or ''
            ok = (not c.indirect and c.args and (c.decl in BV_CONSUME_DECL or _is_view(c) or c.decl in _iters.SAME or
                                                 (n.startswith(WL_OWNERS) and n.rsplit('::', 1)[-1] in ('iter', 'iter_mut', 'into_iter'))))
            if not ok:
                return None
            pl = _op_place(c.args[0])
        else:
            return None
    return None


def _replace_node(v, pred, new):
    """v with every sub-value satisfying pred replaced by new; (value, number of replacements)"""
    n = [0]

    def go(x):
        if not isinstance(x, tuple) or not x:
            return x
        if pred(x):
            n[0] += 1
            return new
        if isinstance(x[0], str) and x[0] in LEAF:
            return x
        out = tuple(go(y) if isinstance(y, tuple) else y for y in x)
        return x if out == x else out
    return go(v), n[0]


def _once(x):
    return ('call', 'std::iter::once', (x,), None)


def _bv_in_value(sl, fn, coll):
    built = built_vecs(sl, fn)
    sites = {bv.site: bv for bv in built.values() if bv.site is not None}
    for x in walk(coll):
        if isinstance(x, tuple) and len(x) == 4 and x[0] == 'call' and x[3] in sites:
            return sites[x[3]]
    return None


def built_alts(E, fn, coll, at_bb, loop=None, depth=0):
    """[(element, forall, filtered)] of the iterated expression `coll` of fn, used in block at_bb, when it iterates a built
    collection (found in the value by its creation site, or through the receiver of the loop's `next`); None when it does
    not (the library's alts apply)"""
    prog, sl = E.prog, E.slicer
    if coll is None or depth > 3:
        return None
    bv = _bv_in_value(sl, fn, coll)
    if bv is None and loop is not None and loop.next_call.args:
        bv = _root_built(sl, fn, _op_place(loop.next_call.args[0]))
    if bv is None:
        return None
    if bv.site is not None:
        pred = lambda x: isinstance(x, tuple) and len(x) == 4 and x[0] == 'call' and x[3] == bv.site
        sources = []
    else:
        ci = canon(bv.init)
        pred = lambda x: isinstance(x, tuple) and x and x[0] == bv.init[0] and canon(x) == ci
        sources = [(bv.init, None, False, None)]
    if _replace_node(coll, pred, ('unknown', 'probe'))[1] != 1:
        return None         # the collection is not (exactly once) what is iterated here
    for q, ai, many in bv.adds:
        if at_bb not in fn.reachable(q.bb):
            continue      # added on a path that never reaches the use
        x = sl.operand(fn, q.args[ai])
        loops = [L for L in E.loops(fn) if q.bb in L.body and q.bb != L.header and L.collection is not None]
        if loops:
            if len(loops) > 1 or any(at_bb in L.body for L in loops):
                return None     # nested loops / a push inside the consuming loop: not a plan-then-execute shape
            L = loops[0]
            definite = (getattr(L, 'exhaust', None) is not None and _edge_dominates(fn, L.exhaust[0], L.exhaust[1], at_bb)
                        and all(fn.dominates(q.bb, l) or q.bb == l for l in L.latches))
            la = built_alts(E, fn, L.collection, q.bb, L, depth + 1)
            if la is None:
                la = _iters.alts(sl, L.collection)
            key = _iters.loop_key(L.collection)
            for e2, f2, fl2 in la:
                xv = _subst_value(x, {'__repl__': [(key, e2)]}, sl)
                sources.append((xv if many else _once(xv), f2, _iters._fl(fl2, not definite), q))
        else:
            sources.append((x if many else _once(x), None, not fn.dominates(q.bb, at_bb), q))
    out = []
    for src, fa, fl, q in sources:
        v2 = _replace_node(coll, pred, src)[0] if src is not bv.init else coll
        inner = built_alts(E, fn, v2, q.bb if q is not None else at_bb, None, depth + 1) if _bv_in_value(sl, fn, v2) is not None else None
        if inner is None:
            inner = _iters.alts(sl, v2)
        for e, f, fl2 in inner:
            if fa is not None and f is not None:
                return None     # a collection per element of another collection: two quantifiers, not expressible
            out.append((e, f if f is not None else fa, _iters._fl(fl, fl2)))
    return out


# ---- round 4: decisions carried as data ---------------------------------------------------------------------------------
_DATA_DECISION_DOC = """`match callback()? { Delete => { delete(); create() } Keep => rewrite() }` and

        let plan = callback().map(|a| match a { Delete => Plan::Recreate(c), Keep => Plan::Keep(c) })?;  execute(plan)
        fn execute(p) { match p { Plan::Create(c) => create(), Plan::Recreate(c) => { delete(); create() } Plan::Keep(c) => rewrite() } }

take the same decisions: the private enum is a *name* for the callback's answer.  `refine_outcomes` reads the second
spelling as the first, from the outcomes' own path conditions:

  literal    a test `x is V` whose substituted subject is a literal of another variant (`execute(Plan::Create(..))` inside the
             Recreate arm) is contradicted: the outcome does not exist
  table      a test `x is V` whose subject is a table over another value s — ('select', s, E, rows), every row a literal of x's
             enum — *is* the test `s in {row names whose literal has variant V}`: that derived decision on s is added to the
             outcome (no such row: the outcome does not exist), located where the private enum is matched
  reduce     under the decisions of an outcome every table over a decided subject reduces to its row, in the returned value,
             in later subjects and in the effects' paths and arguments (`(plan as Recreate).0` becomes the cause)

A derived decision also remembers where the answer came into existence (`early`: the return of the callback whose result s
is) — obligations of the form "X must happen after the decision" use the place of the match (the later point: whatever is
found after it is after the decision), obligations "nothing but X may happen after the decision" use `region_wide`, which
starts at the earlier point."""


def _facts_key(s):
    # the value itself, with call-site identities: the same expression evaluated at two sites (a re-read after a write) is
    # two values, and `x` / `unwrap(x)` are two values as well
    return s


def _reduce_selects(sl, v, facts):
    """v with every table over a decided subject reduced to its row, re-normalised"""
    if not facts or not isinstance(v, tuple) or not v:
        return v
    hit = [False]

    def go(x):
        if not isinstance(x, tuple) or not x:
            return x
        if isinstance(x[0], str) and x[0] in LEAF:
            return x
        if x[0] == 'select' and len(x) == 4 and isinstance(x[1], tuple) and isinstance(x[3], tuple):
            f = facts.get(_facts_key(x[1]))
            if f is not None and f[0] == x[2]:
                rows = [val for names, val in x[3] if set(names) & f[1]]
                if len(rows) == 1:
                    hit[0] = True
                    return go(rows[0])
        out = tuple(go(y) if isinstance(y, tuple) else y for y in x)
        return x if out == x else out
    r = go(v)
    return norm(sl, r) if hit[0] else v


def _table_test(cd, s):
    """(select subject, its enum, names) when `s is cd.outcome` is a test on the subject of the table s; None when s is not a
    table of literals of cd.enum; names may be empty (contradiction)"""
    t = s
    if not (isinstance(t, tuple) and len(t) == 4 and t[0] == 'select' and isinstance(t[2], str) and t[2] != 'str'):
        return None
    names = set()
    for row_names, val in t[3]:
        pv = val
        if not (isinstance(pv, tuple) and len(pv) == 4 and pv[0] == 'agg' and pv[1] == cd.enum and pv[2] is not None):
            return None
        if pv[2] in cd.outcome:
            names |= set(row_names)
    return t[1], t[2], frozenset(names)


def _flag_test(cd, s):
    """(select subject, its enum, names) when the tested boolean s is a table of boolean literals over another value"""
    t = s
    if not (isinstance(t, tuple) and len(t) == 4 and t[0] == 'select' and isinstance(t[2], str) and t[2] != 'str'):
        return None
    names = set()
    for row_names, val in t[3]:
        pv = val
        if not (isinstance(pv, tuple) and len(pv) == 2 and pv[0] == 'const' and isinstance(pv[1], bool)):
            return None
        if pv[1] == cd.outcome:
            names |= set(row_names)
    return t[1], t[2], frozenset(names)


def _early_anchor(prog, o, s, outcome, enum):
    """(Cond, frame) at the return of the call whose result the decided value s is, when that call is one of the outcome's
    effects (the definition's callback)"""
    sites = [x[3] for x in walk(s) if isinstance(x, tuple) and len(x) == 4 and x[0] == 'call' and isinstance(x[3], tuple) and len(x[3]) == 2]
    for site in sites:
        for e in o.must + o.may:
            if e.call is None or e.level is None or (e.call.fn.path, e.call.bb) != site:
                continue
            fn = o._fn(e.level)
            c = fn.call_at(e.level_bb)
            if c is None or c.target is None:
                continue
            return Cond(fn, e.level_bb, c.target, 'variant', outcome, s, s, enum), e.level
    return None


def _copy_eff(sl, e, facts):
    np = _reduce_selects(sl, e.path, facts) if e.path is not None else None
    na = tuple(_reduce_selects(sl, a, facts) for a in e.args) if e.args is not None else None
    if np is e.path and (na is None or all(x is y for x, y in zip(na, e.args))):
        return e
    ne = Eff(e.kind, np, e.call, e.chain, e.must, e.forall, na)
    ne.level, ne.level_bb, ne.mapping, ne.implied = e.level, e.level_bb, e.mapping, e.implied
    return ne


def refine_outcomes(prog, sl, outs):
    """outcomes with decisions carried as data made explicit (see _DATA_DECISION_DOC); contradicted outcomes are dropped"""
    res = []
    for o in outs:
        facts, conds, feasible, derived = {}, [], True, False

        def learn(s, enum, names):
            k = _facts_key(s)
            old = facts.get(k)
            if old is not None and old[0] == enum:
                names = frozenset(names) & old[1]
            facts[k] = (enum, frozenset(names))
            return bool(names)
        for cd, subj, fr in o.conds:
            if cd.kind == 'bool' and isinstance(cd.outcome, bool) and subj is not None:
                # the same for a decision carried as a flag: `let wipe = match a { Delete => true, Keep => false }; if wipe ..`
                s = _reduce_selects(sl, subj, facts)
                t = s
                if isinstance(t, tuple) and len(t) == 2 and t[0] == 'const' and isinstance(t[1], bool):
                    if t[1] != cd.outcome:
                        feasible = False
                        break
                    conds.append((cd, s, fr))
                    continue
                tt = _flag_test(cd, s)
                conds.append((cd, s, fr))
                if tt is not None:
                    s2, enum2, names = tt
                    if not learn(s2, enum2, names):
                        feasible = False
                        break
                    names = facts[_facts_key(s2)][1]
                    dc = Cond(cd.fn, cd.sw_bb, cd.target, 'variant', names, s2, s2, enum2)
                    dc.early = _early_anchor(prog, o, s2, names, enum2)
                    dc.derived_from = cd
                    conds.append((dc, s2, fr))
                    derived = True
                continue
            if cd.kind != 'variant' or not isinstance(cd.outcome, frozenset) or subj is None:
                conds.append((cd, subj, fr))
                continue
            s = _reduce_selects(sl, subj, facts)
            if decided(sl, cd, s) is False:
                feasible = False
                break
            conds.append((cd, s, fr))
            if cd.enum == 'std::ops::ControlFlow':
                continue
            tt = _table_test(cd, s)
            if tt is not None:
                s2, enum2, names = tt
                if not learn(s2, enum2, names):
                    feasible = False
                    break
                names = facts[_facts_key(s2)][1]
                dc = Cond(cd.fn, cd.sw_bb, cd.target, 'variant', names, s2, s2, enum2)
                dc.early = _early_anchor(prog, o, s2, names, enum2)
                dc.derived_from = cd
                conds.append((dc, s2, fr))
                derived = True
            elif not learn(s, cd.enum, cd.outcome):
                feasible = False
                break
        if not feasible:
            continue
        if not derived:
            if any(a is not b for (_, a, _), (_, b, _) in zip(conds, o.conds)):
                o.conds = conds
            res.append(o)
            continue
        value = _reduce_selects(sl, o.value, facts)
        conds = [(cd, _reduce_selects(sl, s, facts) if s is not None else s, fr) for cd, s, fr in conds]
        must = [_copy_eff(sl, e, facts) for e in o.must]
        ids = {id(a): b for a, b in zip(o.must, must)}
        may = [ids.get(id(e)) or _copy_eff(sl, e, facts) for e in o.may]
        res.append(Outcome2(o.prog, o.entry, value, must, may, conds, o.sites))
    return res
