"""Helpers of C01: success outcomes of an entry function stated on *frames* and value normal forms.

`outcomes2` is `lib.effects.outcomes` with the case split generalised.  The library version follows tail calls and the one
shape `Ok(<payload of a private helper's result>)`.  Here a success site is split on **every** private helper whose
result the site's value or its dominating decisions depend on:

    match helper(..)? { Some(x) => Ok(x), None => again(..) }        helper(..).map(Some)        let x = helper(..)?; tail(x)

For each success outcome of the helper, its returned value is substituted for the call in the site's value, in the
site's conditions and in the arguments of later calls, the result is brought into normal form (`norm`), and outcomes whose
conditions are then contradicted (`Some` arm with a helper outcome `Ok(None)`) are dropped — only on a definite
contradiction, an undecided condition keeps the outcome.  The helper's own decisions and effects become part of the
outcome, so "which callback decision led here / what happened after it" does not depend on how the handler is cut into
functions.

Effects and decisions are located by *frame* — the chain of (caller, call block, callee) steps from the entry — instead of
a stack depth, so `region` ("can only happen after the decision") stays exact when the decision is taken inside a helper
that returns to its caller: the caller's later effects are after it, its earlier ones are not.
"""
from .lib.effects import Link
from .lib.guards import conditions
from .lib.value import walk, OK_PRESERVING

CALL_ONCE = ('std::ops::FnOnce::call_once', 'std::ops::Fn::call', 'std::ops::FnMut::call_mut')
MAP_LIKE = ('std::result::Result::<T, E>::map', 'std::option::Option::<T>::map')
AND_THEN = ('std::result::Result::<T, E>::and_then', 'std::option::Option::<T>::and_then')
RESULT_ID_ON_OK = ('std::result::Result::<T, E>::map_err', 'std::result::Result::<T, E>::inspect_err',
                   'std::result::Result::<T, E>::or_else', 'std::result::Result::<T, E>::inspect')
OPTION_TO_RESULT = ('std::option::Option::<T>::ok_or', 'std::option::Option::<T>::ok_or_else')
STD_ENUMS = ('std::result::Result', 'std::option::Option')
LEAF = ('const', 'param', 'fnitem', 'constitem', 'unknown', 'closure_env', 'upvar')
CTOR = {'Some': 'std::option::Option', 'Ok': 'std::result::Result', 'Err': 'std::result::Result'}


# ---- value normal forms ----------------------------------------------------------------------------------------------
def _std_variant(v):
    """'Ok' | 'Some' | 'Err' | 'None' when v is a literal of std Result / Option"""
    if isinstance(v, tuple) and len(v) == 4 and v[0] == 'agg' and v[1] in STD_ENUMS and v[2] in ('Ok', 'Some', 'Err', 'None'):
        return v[2]
    return None


def _payload(v):
    return v[3][0][1] if len(v[3]) == 1 else None


def apply_fn(sl, f, args):
    """value of calling closure / fn item f; enum constructors used as functions (`.map(Some)`) build the literal"""
    if f[0] == 'fnitem':
        last = f[1].rsplit('::', 1)[-1]
        if last in CTOR and f[1].startswith(('std::', 'core::')) and len(args) == 1:
            return ('agg', CTOR[last], last, (('0', args[0]),))
    return sl.apply_closure(f, tuple(args))


def norm(sl, v, d=0):
    """normal form of a value after substitution: closures that are called are applied, Option/Result combinators on
    literals are evaluated, payload / field / variant projections of literals are reduced"""
    if not isinstance(v, tuple) or not v:
        return v
    if isinstance(v[0], str) and v[0] in LEAF:
        return v
    out = tuple(norm(sl, x, d) if isinstance(x, tuple) else x for x in v)
    if out == v:
        out = v
    return _rewrite(sl, out, d)


def _rewrite(sl, v, d):
    k = v[0]
    if k == 'unwrap' and len(v) == 2 and isinstance(v[1], tuple):
        r = sl.mk_unwrap(v[1], 1)
        return norm(sl, r, d + 1) if (r != v and d < 6) else r
    if k == 'field' and len(v) == 3 and isinstance(v[1], tuple) and isinstance(v[2], str):
        return sl._field(v[1], v[2])
    if k == 'variant' and len(v) == 3 and isinstance(v[1], tuple) and isinstance(v[2], str):
        return sl._variant(v[1], v[2])
    if k == 'call' and len(v) == 4 and isinstance(v[2], tuple) and d < 6:
        name, args = v[1], v[2]
        if name in CALL_ONCE and len(args) == 2 and args[0][0] in ('closure', 'fnitem') and args[1][0] == 'tuple':
            r = apply_fn(sl, args[0], args[1][1])
            if r is not None:
                return norm(sl, r, d + 1)
        sv = _std_variant(args[0]) if args else None
        if sv is not None:
            recv = args[0]
            if name in MAP_LIKE + AND_THEN and len(args) == 2 and args[1][0] in ('closure', 'fnitem'):
                if sv in ('Err', 'None'):
                    return recv
                p = _payload(recv)
                r = apply_fn(sl, args[1], (p,)) if p is not None else None
                if r is not None:
                    r = norm(sl, r, d + 1)
                    return r if name in AND_THEN else ('agg', recv[1], recv[2], ((recv[3][0][0], r),))
            if name in RESULT_ID_ON_OK and sv == 'Ok':
                return recv
            if name in OPTION_TO_RESULT and sv == 'Some':
                return ('agg', 'std::result::Result', 'Ok', recv[3])
    return v


def replace_calls(sl, v, table):
    """v with the results of the call sites in `table` ({(fn path, bb): value}) replaced, re-normalised"""
    if not table or not isinstance(v, tuple) or not v:
        return v

    def go(x):
        if not isinstance(x, tuple) or not x:
            return x
        if isinstance(x[0], str) and x[0] in LEAF:
            return x
        if x[0] == 'call' and len(x) == 4 and x[3] in table:
            return table[x[3]]
        out = tuple(go(y) if isinstance(y, tuple) else y for y in x)
        return x if out == x else out
    r = go(v)
    return v if r is v else norm(sl, r)


def mentions(v, site):
    return any(x[0] == 'call' and len(x) == 4 and x[3] == site for x in walk(v))


def decided(sl, cond, subj):
    """True / False when the variant test `cond` is settled by the (normalised) subject, None otherwise"""
    if cond.kind != 'variant' or not isinstance(cond.outcome, frozenset) or subj is None:
        return None
    v = subj
    if cond.enum == 'std::ops::ControlFlow':
        # Try::branch(x): Continue iff x is Ok / Some
        if v[0] == 'call' and v[1] == 'std::ops::Try::branch' and v[2]:
            x = v[2][0]
            while x[0] == 'call' and x[1] in OK_PRESERVING and x[2]:
                x = x[2][0]
            sv = _std_variant(x)
            if sv is not None:
                return ('Continue' if sv in ('Ok', 'Some') else 'Break') in cond.outcome
        return None
    if v[0] == 'agg' and len(v) == 4 and v[2] is not None and v[1] == cond.enum:
        return v[2] in cond.outcome
    return None


# ---- outcomes on frames ---------------------------------------------------------------------------------------------
class Outcome2:
    """one leaf success outcome of the entry function.  `level` of an effect / decision is its frame: a tuple of
    (caller path, call block, callee path) steps from the entry function"""

    def __init__(self, prog, entry, value, must, may, conds, sites):
        self.prog = prog
        self.entry = entry
        self.value = value
        self.must = must
        self.may = may
        self.conds = conds      # [(Cond, substituted subject/value, frame)]
        self.sites = sites

    def decisions(self):
        return [(c, subj, lv) for c, subj, lv in self.conds if c.kind == 'variant']

    def _fn(self, frame):
        return self.prog.fns[frame[-1][2]] if frame else self.entry

    def after(self, e, cond, frame):
        """effect e can only happen after the branch decision `cond` taken in `frame`"""
        fe = e.level
        if fe is None:
            return False
        if fe == frame:
            return cond.fn.dominates(cond.target, e.level_bb)
        n = 0
        while n < len(fe) and n < len(frame) and fe[n] == frame[n]:
            n += 1
        if n == len(frame):
            # the effect is deeper: it is after the decision iff the call leading towards it is
            return cond.fn.dominates(cond.target, fe[n][1])
        if n == len(fe):
            # the decision was taken inside a callee of the effect's function: later calls of that function are after it
            cb = frame[n][1]
            return cb != e.level_bb and self._fn(fe).dominates(cb, e.level_bb)
        be, bc = fe[n][1], frame[n][1]
        return be != bc and self._fn(fe[:n]).dominates(bc, be)

    def region(self, cond, level, effs=None):
        effs = self.may if effs is None else effs
        return [e for e in effs if self.after(e, cond, level)]

    def before(self, cond, level, effs=None):
        effs = self.must if effs is None else effs
        return [e for e in effs if e.level is not None and not self.after(e, cond, level)]


def outcomes2(E, fn, through, mapping=None, chain=(), stack=(), frame=(), entry=None):
    """success outcomes of fn (see module doc).  `through(g)`: private helpers to split on"""
    sl, prog = E.slicer, E.prog
    mapping = mapping or {}
    entry = entry or fn
    res = []
    inner = stack + (fn.path,)

    def splittable(c):
        if c.indirect:
            return None
        gs = prog.callee_fns(c)
        if len(gs) != 1:
            return None
        g = gs[0]
        if g.path in inner or not through(g) or len(stack) > E.max_depth:
            return None
        return g

    for site in E.sites(fn):
        tail_call = site.call if site.kind == 'tail' else None
        tail_fns = prog.callee_fns(tail_call) if tail_call is not None else []
        # ---- own effects, one segment per call site ------------------------------------------------
        must_segs, may_segs = [], []
        for c, forall in E.must_calls(fn, [site.bb]):
            if c is tail_call:
                continue
            effs = []
            E._expand_call(fn, c, forall, 'must', mapping, chain, inner, effs)
            for e in effs:
                e.level, e.level_bb = frame, c.bb
            must_segs.append((c, effs))
        for c in E.may_calls(fn, [site.bb]):
            if c is tail_call:
                continue
            effs = []
            E._expand_call(fn, c, E._unrollable(fn, c), 'may', mapping, chain, inner, effs)
            for e in effs:
                e.level, e.level_bb = frame, c.bb
            may_segs.append((c, effs))
        conds = []
        for cd in conditions(fn, site.bb, sl):
            subj = cd.subject if cd.subject is not None else cd.value
            conds.append((cd, E.subst(subj, mapping), frame))
        # ---- value ---------------------------------------------------------------------------------
        if site.kind == 'tail' and tail_fns:
            value = None
        elif site.kind == 'tail':
            value = E.subst(sl._call_value(fn, tail_call, set(), 0), mapping)
        elif site.kind == 'ok':
            value = E.subst(sl._rvalue(fn, site.stmt, set(), 0, None), mapping)
        else:
            value = ('tuple', ())
        # ---- private helpers this site depends on ------------------------------------------------------
        helpers = []
        for c, _ in must_segs:
            if c.bb == site.bb or not fn.dominates(c.bb, site.bb):
                continue
            g = splittable(c)
            if g is None:
                continue
            sid = (fn.path, c.bb)
            used = (value is not None and mentions(value, sid)) or any(mentions(s, sid) for _, s, _ in conds)
            if not used and tail_call is not None:
                used = any(mentions(sl.operand(fn, a), sid) for a in tail_call.args)
            if used:
                helpers.append((c, g))
        # ---- case split ------------------------------------------------------------------------------------
        # partial: (value, conds, table of replaced call results, {id(call): must effects}, {id(call): may effects},
        #           decisions of helpers, sites of helpers)
        partials = [(value, conds, {}, {}, {}, [], ())]
        for c, g in helpers:
            sid = (fn.path, c.bb)
            nxt = []
            for pv, pc, table, mrep, yrep, hconds, hsites in partials:
                m = E.call_mapping(fn, c, g, mapping)
                m = {k: (replace_calls(sl, a, table) if isinstance(k, tuple) else a) for k, a in m.items()}
                sub_frame = frame + ((fn.path, c.bb, g.path),)
                for sub in outcomes2(E, g, through, m, chain + (Link(c, mapping),), inner, sub_frame, entry):
                    t2 = dict(table)
                    t2[sid] = sub.value
                    one = {sid: sub.value}
                    nv = replace_calls(sl, pv, one) if pv is not None else None
                    nc, feasible = [], True
                    for cd, subj, fr in pc:
                        if mentions(subj, sid):
                            subj = replace_calls(sl, subj, one)
                            if decided(sl, cd, subj) is False:
                                feasible = False
                                break
                        nc.append((cd, subj, fr))
                    if not feasible:
                        continue
                    m2 = dict(mrep)
                    m2[id(c)] = sub.must
                    y2 = dict(yrep)
                    y2[id(c)] = sub.may
                    nxt.append((nv, nc, t2, m2, y2, hconds + sub.conds, hsites + sub.sites))
            partials = nxt
        for pv, pc, table, mrep, yrep, hconds, hsites in partials:
            must, may = [], []
            for c, effs in must_segs:
                must.extend(mrep.get(id(c), effs))
            for c, effs in may_segs:
                may.extend(yrep.get(id(c), effs))
            all_conds = pc + hconds
            if site.kind == 'tail' and tail_fns:
                for g in tail_fns:
                    if g.path in inner or len(stack) > E.max_depth:
                        res.append(Outcome2(prog, entry, ('recursion', g.path), must, may, all_conds, (site,) + hsites))
                        continue
                    m = E.call_mapping(fn, tail_call, g, mapping)
                    m = {k: (replace_calls(sl, a, table) if isinstance(k, tuple) else a) for k, a in m.items()}
                    sub_frame = frame + ((fn.path, tail_call.bb, g.path),)
                    for sub in outcomes2(E, g, through, m, chain + (Link(tail_call, mapping),), inner, sub_frame, entry):
                        res.append(Outcome2(prog, entry, sub.value, must + sub.must, may + sub.may, all_conds + sub.conds,
                                            (site,) + hsites + sub.sites))
                continue
            res.append(Outcome2(prog, entry, norm(sl, pv) if table else pv, must, may, all_conds, (site,) + hsites))
    return res


# ---- frame of a serialised struct ---------------------------------------------------------------------------------------
def frame_of(sl, data, adt_suffix):
    """(base, {'.field': new value}) when `data` holds a value that is `base` with some fields replaced — spelled as an
    in-place update of the value read (`x.f = v`) or as a new literal taking every other field from one base value
    (`S { f: v, g: base.g }`, possibly built by a closure handed to a helper); None when it is neither"""
    from .lib.paths import strip
    for x in walk(data):
        if x[0] == 'updated' and len(x) == 3:
            return strip(x[1]), dict(x[2])
    for x in walk(data):
        if x[0] == 'agg' and len(x) == 4 and x[1] and x[1].endswith(adt_suffix):
            bases, repl = [], {}
            for name, fv in x[3]:
                s = strip(fv)
                if s[0] == 'field' and len(s) == 3 and s[2] == name:
                    b = strip(s[1])
                    if b not in bases:
                        bases.append(b)
                else:
                    repl['.' + name] = fv
            if len(bases) == 1:
                return bases[0], repl
            return None
    return None
