"""C15 — `cargo libcnb package` writes complete buildpack dirs, also over stale output.

Decided structurally (on interprocedural effects with substituted arguments, so that the wipe / re-creation / writes / builds
may live in `execute` resp. the packaging functions themselves, in private helpers, in local closures, in loops or in
iterator pipelines — see C15_helpers):
  R1 wipe-then-assemble  per packaged node: REMOVE_TREE(dest) before MKDIR(dest) before the packaging call,
                         all on the same destination value, and the removal's Result is not discarded at any level
                         it is handed up through (only NotFound may be tolerated; an `if dest.exists()` guard is allowed)
  R2 layout table        constants joined onto the destination: buildpack.toml <- fs::copy of the source
                         descriptor (byte-identical by construction), bin/build <- main binary, bin/detect
                         <- symlink with constant relative target "build", .libcnb-cargo/additional-bin/<target
                         name> <- every additional binary, package.toml
  R3 writer/reader       the two directory constants equal the literals in libcnb's
                         additional_buildpack_binary_path! macro (cross-crate sibling agreement)
  R4 binary selection    build_binary call sites as effects of build_buildpack_binaries: the one outside any iteration
                         builds the determined target under `names.contains(target)`; the iterated one runs once per
                         binary target name with the single per-element condition `name != main target`, and the map
                         returned as additional_target_binary_paths is keyed by that name; a missing main is an error.
                         "The determined target" / "the binary target names" are *values*: <projection of> g(<this function's
                         cargo metadata>) for the function(s) g that R10 decides on (H.find_roles: one function per value, or
                         one function returning both in a struct / tuple)
  R5 stdout discipline   in cargo-libcnb the only stdout print runs once per entry of the id -> packaged-dir map under the
                         single per-entry condition "some selected root node has this id" (filter stage or `if`), and
                         prints that entry's directory
  R6 package directory   --package-dir relative to the invocation directory, default <workspace root>/packaged
Deepening round (C15_helpers, second half) — the functions that carry the data, and end-to-end normal forms:
  R7 every node          the packaging call (and the wipe before it) runs for every element of the build order: no filter /
                         truncating stage, no per-node condition, no early `continue` / `break` on any path; every
                         additional binary of the map is copied; the id -> dir map handed to the packaging call is the
                         one the destinations are recorded in, once per node
  R8 end to end          in `execute`'s terms (helpers inlined, the resolver closure applied): destination = <package
                         dir>/../<id with every "/" replaced>; every mutation of the loop lies below it; buildpack.toml
                         comes from the same node's directory; `cargo build --target T` runs in that directory; bin/build
                         comes from <target dir of that directory's own manifest>/T/<profile dir>/<determined main target>
  R9 build_binary        Ok(path) only under ExitStatus::success(); path = target_directory/triple/<debug|release>/name;
                         `--release` passed exactly for the profile read from release/
  R10 cargo.rs           binary target names = names of *all* root-package targets with is_bin() (no truncation); the main
                         target is the only binary target or the one named like the package (membership checked) — decided on
                         the function(s) providing these two values to build_buildpack_binaries, per definition of the
                         (projected) success value with the branch decisions it is made under
  R11 buildpack kind     LibCnbRs <=> component descriptor + Cargo.toml, Composite <=> composite descriptor; dispatch
  R12 discovery          ignore-file honouring walk from the start directory, entries with buildpack.toml, no truncation —
                         whether the result is a collected iterator pipeline or a fresh Vec pushed to in one pass over the
                         walk (loop / for_each closure; every selected entry reaches the push, nothing else touches the Vec,
                         no success before the pass is over); the value kept per entry is the entry's own path;
                         workspace root by `cargo locate-project --workspace` in the invocation directory
Robustness round 4: every obligation above is read on normal forms (C15_helpers: path_nf / site_fix / deep_nf / reopen /
fails_otherwise / *_tolerance / membership / ok_gates / option_default / filled_form / fold_accumulator / binaries_fields), so
that layout structs, push-built paths, local closures, try_for_each / try_fold loops, collected intermediate Vecs, `or_else` /
match-expression error handling, gate helpers, renamed parameters / fields and an inlined assemble_buildpack_directory are
the same program; R5 also counts io::Write on a Stdout handle as stdout output.
Robustness round 5 (benign variants selftest/benign/C15-r5-*, mutants selftest/mutants/C15-r5-*): a zip with a never-ending
counter (`(1..).zip(order.iter())`, either position) is `enumerate` (C15_helpers.counter_nf: R7 / R4 / R5 iterations); R5's
per-entry test is "some root's buildpack_id == the entry's id" whether spelled `roots.iter().any(..)` or as membership of the
id in a collection derived element by element from the root nodes (`root_ids.contains(id)`, H.elementwise_base), also inside
a printing helper with an early `continue`; package.toml written by `File::create(p)?.write_all(data)?` is `fs::write(p, data)?`
(one write_all on that handle on every path to success, both failures reported); R7/dependencies-map is UNPROVEN, not
VIOLATED, when only the iteration around the record could not be read.
Not decided: cargo's build, contents of binaries, interrupted-run states beyond the wipe, the constant written as the
libcnb.rs package.toml.
"""
import re
from .lib.discard import result_fates, verdict
from .lib.effects import Effects, MUTATING, guards_of
from .lib.guards import conditions
from .lib.paths import strip
from .lib.value import vstr, walk
from . import layer_env_common as L
from . import C15_helpers as H

EX = 'cargo_libcnb::package::command::execute'
AS = 'libcnb_package::assemble_buildpack_directory'
PKG = 'libcnb_package::package::package_buildpack'
MAP_INSERT = 'std::collections::BTreeMap::<K, V, A>::insert'
BUILD = 'libcnb_package::build::build_binary'
SET_INSERT = 'std::collections::HashMap::<K, V, S, A>::insert'
NAMES = 'libcnb_package::cargo::cargo_binary_target_names'
DETERMINE = 'libcnb_package::cargo::determine_buildpack_cargo_target_name'
DEPS = 'libcnb_package::dependency_graph::get_dependencies'
EXISTS = ('std::path::Path::exists', 'std::path::Path::try_exists', 'std::path::Path::is_dir')


def run(ctx, rep):
    prog, sl = ctx.prog, H.subtype_slicer(ctx.slicer)
    for r, d in (('R1', 'destination wiped (error not ignored) before it is re-created and filled'), ('R2', 'packaged directory layout table'),
                 ('R3', 'additional-binary directory constants agree between packager and libcnb\'s runtime macro'),
                 ('R4', 'main / additional binary selection'), ('R5', 'stdout carries exactly the selected buildpacks\' output directories')):
        rep.rule(r, d)
    rep.not_decided = ['cargo build results and binary contents', 'states of an interrupted run beyond the wipe']
    E = Effects(prog, sl)
    ex = prog.fn(EX)
    rep.analysed(ex)
    w = lambda f: '%s:%d' % (f.file, f.line)
    # ---- R1 ------------------------------------------------------------------------------------------
    # stated on the effects of `execute` with the packaging call and the id -> dir map insert as vocabulary: the wipe and
    # the re-creation may live in `execute` or in private helpers, only their destination, order and error fate matter
    # (stdout is written by println! / print!, or through io::Write on a Stdout / StdoutLock handle: R5)
    out_writes = [(g, c) for g in prog.fns.values() if g.crate == 'cargo_libcnb' for c in g.calls
                  if not c.indirect and (c.decl or c.name or '').startswith('std::io::Write::') and c.args and H.op_place(c.args[0]) and
                  'std::io::Stdout' in str(g.local_ty(H.op_place(c.args[0])[0]))]
    vocab1 = {PKG: ('PACKAGE', 4), MAP_INSERT: ('RECORD', 2)}
    for g, c in out_writes:
        vocab1.setdefault(c.name, ('OUT_WRITE', 0))
    E1 = Effects(prog, sl, vocab=vocab1)
    may1 = H.expand(E1, ex, 'may')
    pk = [e for e in may1 if e.kind == 'PACKAGE']
    dest = None
    if len(pk) != 1 or not H.selection(E1, pk[0]).iterations:
        rep.unproven('R1', 'package-call', w(ex), 'expected one packaging call inside the build-order loop')
    else:
        p = pk[0]
        dest = strip(p.path)
        rm = [e for e in may1 if e.kind == 'REMOVE_TREE' and strip(e.path) == dest]
        mk = [e for e in may1 if e.kind == 'MKDIR' and e.call.is_('std::fs::create_dir_all', 'std::fs::create_dir') and strip(e.path) == dest]
        if not rm:
            rep.violated('R1', 'wipe', p.where(), 'the destination directory is not removed before packaging: stale files of an earlier run survive')
        else:
            r0 = rm[0]
            # the removal may be conditional on the destination existing (and on nothing else): per-iteration boolean
            # decisions at every level of its call chain
            # (a decision around the creation site of a closure that *is* the loop body — `order.iter().try_for_each(|n| ..)`
            # — is taken once, in the function that creates it: it counts when it lies in a loop of that function)
            rlv = H.levels(r0)
            per_iter = lambda lv, cd: (lv > 0 or ex.in_loop(cd.sw_bb)) if cd.fn is rlv[lv][0].fn else cd.fn.in_loop(cd.sw_bb)
            gds = [(lv, cd, views) for lv, cd, views, _ in H.guards_by_level(E1, r0) if cd.kind == 'bool' and per_iter(lv, cd)]
            only_exists = all(any(oc is True and strip(v)[0] == 'call' and strip(v)[1] in EXISTS and strip(strip(v)[2][0]) == dest for v, oc in views)
                              for lv, cd, views in gds)
            anchors = {}
            for lv, cd, views in gds:
                if cd.fn is rlv[lv][0].fn:
                    anchors.setdefault(lv, cd.sw_bb)
            order = (only_exists or not gds) and bool(mk) and H.always_before(E1, r0, p, anchors) and H.always_before(E1, r0, mk[0], anchors) and \
                H.always_before(E1, mk[0], p) and H.not_after(E1, r0, mk[0])
            rep.check(order, 'R1', 'order', r0.where(), 'remove_dir_all(dest) -> create_dir_all(dest) -> package into dest, on every iteration',
                      'wipe / create / package are not in this order on every path')
            flow = H.error_flow(prog, r0)
            bad = [x for x in flow if x[4] not in ('ok', 'panics')]
            fates = [ft for x in (bad or flow) for ft in x[3]]
            rep.check(not bad, 'R1', 'wipe-result', r0.where(), 'a failed wipe is reported',
                      'the Result of fs::remove_dir_all(<destination>) is discarded (%s): if the old output cannot be removed (e.g. a read-only sub-directory '
                      'left by an earlier run) packaging continues over stale content and exits 0' % '; '.join(x.detail or x.kind for x in fates),
                      {'fates': [repr(x) for x in fates]})
            # when the error is matched rather than `?`-propagated: only ErrorKind::NotFound may fall through
            # ... also when it is handed to a recovering combinator (`.or_else(..)`): only a closure that succeeds for
            # NotFound alone is a tolerance, anything else swallows the failure
            matched = [x for x in flow if x[4] == 'ok' and (any(ft.kind == 'matched' for ft in x[3]) or H.recovers(E1, x[1], x[2]))]
            if not bad and matched and mk:
                good = True
                for lv, f, c, fts, vd in matched:
                    # where work goes on after the wipe: the re-creation (or the packaging) when it is in the same function,
                    # else f's success exits
                    targets = [s.bb for s in E1.sites(f)]
                    for nxt in (mk[0], p):
                        if H.diverge(r0, nxt) == lv and H.levels(nxt)[lv][0].fn is f:
                            targets = [H.levels(nxt)[lv][0].bb]
                            break
                    good = good and (H.tolerates_only_not_found(E1, f, c, targets) or H.combinator_tolerance(E1, f, c, targets) or H.rebuilt_tolerance(E1, f, c, targets))
                rep.check(good, 'R1', 'wipe-tolerance', r0.where(), 'a failed wipe is tolerated only for ErrorKind::NotFound',
                          'a failed wipe can fall through to packaging for errors other than NotFound')
        # destination = resolver(node.buildpack_id) and is what gets recorded / printed
        rec = [e for e in may1 if e.kind == 'RECORD']
        okm = any(H.same_through_helpers(sl, e.path, dest) for e in rec)
        rep.check(okm, 'R1', 'recorded', p.where(), 'the packaged directory recorded for the id is the destination that was filled', 'the id -> packaged dir map does not record the destination')
    # ---- R7 ------------------------------------------------------------------------------------------
    rep.rule('R7', 'every node of the build order is wiped and packaged, every additional binary is copied, dependencies see the recorded directories')
    if len(pk) == 1:
        p = pk[0]
        vd, why, it = H.every_element(E1, p)
        # (the build order may reach the loop through a helper / local closure, also inside a tuple: H.deep_nf)
        base_ok = it is not None and it.base is not None and (any(x[0] == 'call' and x[1] == DEPS for x in walk(it.base)) or
                                                              any(x[0] == 'call' and x[1] == DEPS for x in walk(H.deep_nf(sl, it.base))))
        if vd == 'unproven' or (vd == 'ok' and not base_ok):
            rep.unproven('R7', 'every-node', p.where(), 'cannot show that every node of the build order is packaged: %s' % (why or 'the loop does not range over get_dependencies(..)'))
        else:
            rep.check(vd == 'ok', 'R7', 'every-node', p.where(), 'the packaging call runs for every node of get_dependencies(graph, selected)',
                      'not every node of the build order is packaged into a wiped directory: %s' % why)
        rec = [e for e in may1 if e.kind == 'RECORD' and dest is not None and H.same_through_helpers(sl, e.path, dest)]
        rvd = H.every_element(E1, rec[0]) if len(rec) == 1 else ('none', '', None)
        ok = len(rec) == 1 and len(p.args or ()) > 5 and H.same_object(sl, strip(p.args[5]), strip(rec[0].args[0])) and rvd[0] == 'ok' \
            and H.always_before(E1, p, rec[0])
        if not ok and len(rec) == 1 and rvd[0] == 'unproven' and len(p.args or ()) > 5 and H.same_object(sl, strip(p.args[5]), strip(rec[0].args[0])) and H.always_before(E1, p, rec[0]):
            # the right map, recorded after packaging — only the iteration it happens in could not be read: not a breach that was seen
            rep.unproven('R7', 'dependencies-map', p.where(), 'cannot show that every packaged node is recorded in the map handed to package_buildpack: %s' % rvd[1])
        else:
            rep.check(ok, 'R7', 'dependencies-map', p.where(), 'the id -> directory map handed to the packaging call is the one every packaged node is recorded in (once, after it was packaged)',
                  'the map of already packaged buildpacks handed to package_buildpack is not the map the destinations are recorded in (once per node, after packaging)')
    # ---- R2 ------------------------------------------------------------------------------------------
    # stated on assemble_buildpack_directory (destination = its first parameter, sources = its own parameters) — or, when
    # that private function has been inlined into its caller, on package_libcnb_buildpack itself (destination = its
    # `destination` parameter, sources in its terms: <buildpack dir>/buildpack.toml, the fields of what
    # build_buildpack_binaries handed back)
    pl = prog.fn('libcnb_package::package::package_libcnb_buildpack')
    try:
        af = prog.fn(AS)        # (also under its baseline name when it was renamed / moved)
    except Exception:
        af = None
    inlined = af is None
    if inlined:
        af = pl
    rep.analysed(af)
    root = L.param_pred(af, 4 if inlined else 0)
    table = {}
    # paths / sources are read in normal form: values reached through private helpers, private layout structs or tuples
    # (`Layout::new(dest).bin_dir`) are what those return, in this function's terms
    nf = lambda v: H.peel_path(H.path_nf(sl, v)) if v is not None else None
    comps = lambda v, is_root: H.comps_nf(sl, v, is_root)
    # a push-built path buffer is read as of the point where it is used for the effect (H.site_fix)
    fixed = {}

    def at_site(e, v):
        k = (id(e), id(v))
        if k not in fixed:
            fixed[k] = H.site_fix(E, e, v)
        return fixed[k]
    for e in H.expand(E, af, 'may'):
        if e.kind not in MUTATING:
            continue
        pv = at_site(e, e.path)
        if pv is None:
            rep.unproven('R2', 'layout/path-buffer', e.where(), 'a path buffer built by push is read at a point where the pushes that have happened cannot be ordered')
            continue
        cs = comps(pv, root)
        key = '?' if cs is None else '/'.join('<name>' if not isinstance(x, str) else x for x in cs)
        src = None
        if e.call.is_('std::fs::copy'):
            src = vstr(strip(nf(e.args[0])))
        elif e.call.is_('std::os::unix::fs::symlink'):
            src = 'symlink->' + vstr(strip(nf(e.args[0])))
        table[key or '.'] = (e.kind, src, e)
    must = set()
    for e in H.expand(E, af, 'must'):
        cs = comps(at_site(e, e.path), root) if e.kind in MUTATING else None
        if cs is not None and all(isinstance(x, str) for x in cs):
            must.add('/'.join(cs) or '.')
    rep.extra['layout'] = {k: [v[0], v[1]] for k, v in table.items()}
    want = {
        '.': ('MKDIR', None), 'buildpack.toml': ('WRITE', 'buildpack_descriptor_path'), 'bin': ('MKDIR', None),
        'bin/build': ('WRITE', 'buildpack_binaries.buildpack_target_binary_path'), 'bin/detect': ('WRITE', "symlink->'build'"),
        '.libcnb-cargo/additional-bin': ('MKDIR', None),
        '.libcnb-cargo/additional-bin/<name>': ('WRITE', 'unwrap(Iterator::next(buildpack_binaries.additional_target_binary_paths)).1'),
    }
    # sources are recognised by what they are (which parameter / which field by type), not by how they are named
    bty, f_main, f_add = H.binaries_fields(prog, prog.fn(H.BBB))
    bin_idx = [i for i, t in enumerate(af.args) if bty in str(t)]
    desc_idx = [i for i in range(1, len(af.args)) if i not in bin_idx]
    is_par = lambda v, idxs: v[0] == 'param' and v[1] == af.path and v[2] in idxs

    def src_is(g_, src_):
        if src_ is None or src_.startswith('symlink->'):
            return g_[1] == src_
        sv = nf(g_[2].args[0])
        if src_ == 'buildpack_descriptor_path':
            return len(desc_idx) == 1 and is_par(sv, desc_idx)
        if src_.startswith('unwrap('):
            coll, proj = L.loop_element(sv)
            coll = H.peel_path(coll) if coll is not None else None
            return coll is not None and proj == ('1',) and coll[0] == 'field' and coll[2] == f_add and is_par(H.peel_path(coll[1]), bin_idx)
        return sv[0] == 'field' and sv[2] == f_main and is_par(H.peel_path(sv[1]), bin_idx)
    if inlined:
        # the same sources in package_libcnb_buildpack's terms
        binaries = lambda v: any(x[0] == 'call' and x[1] == H.BBB for x in walk(v))

        def src_is(g_, src_):
            if src_ is None or src_.startswith('symlink->'):
                return g_[1] == src_
            sv = H.peel_path(H.path_nf(sl, g_[2].args[0], keep=(H.BBB,)))      # what build_buildpack_binaries hands back stays a name
            if src_ == 'buildpack_descriptor_path':
                return comps(g_[2].args[0], L.param_pred(pl, 0)) == ('buildpack.toml',)
            if src_.startswith('unwrap('):
                coll, proj = L.loop_element(sv)
                coll = strip(coll) if coll is not None else None
                return coll is not None and proj == ('1',) and coll[0] == 'field' and coll[2] == f_add and binaries(coll[1])
            return sv[0] == 'field' and sv[2] == f_main and binaries(sv[1])
        want['package.toml'] = ('WRITE', None)
    for k, (kind, src) in want.items():
        g = table.get(k)
        ok = g is not None and g[0] == kind and src_is(g, src)
        rep.check(ok, 'R2', 'layout/' + k, g[2].where() if g else w(af), '%s %s%s' % (kind, k, ' <- ' + src if src else ''),
                  'layout entry %s: expected %s <- %s, found %s' % (k, kind, src, g and (g[0], g[1])))
    for k in table:
        if k not in want:
            rep.violated('R2', 'layout/extra/' + k, table[k][2].where(), 'unexpected entry %s written into the buildpack directory' % k)
    for k in ('.', 'buildpack.toml', 'bin', 'bin/build', 'bin/detect'):
        rep.check(k in must, 'R2', 'unconditional/' + k, w(af), '%s is produced on every success path' % k, '%s is not produced on every success path' % k)
    # additional binaries: name of the file = key of the same map element
    g = table.get('.libcnb-cargo/additional-bin/<name>')
    if g:
        cs = comps(at_site(g[2], g[2].path), root)
        c1, p1 = L.loop_element(cs[-1])
        c2, p2 = L.loop_element(nf(g[2].args[0]))
        rep.check(c1 is not None and c1 == c2 and p1 == ('0',) and p2 == ('1',), 'R2', 'additional/name', g[2].where(), 'each additional binary copied to <dir>/<its target name>',
                  'additional binary file name is not the target name of the copied binary')
        vd, why, it = H.every_element(E, g[2])
        if vd == 'unproven':
            rep.unproven('R7', 'every-additional-binary', g[2].where(), 'cannot show that every additional binary is copied: %s' % why)
        else:
            rep.check(vd == 'ok' and it is not None and (H.same(it.base, c1) or H.same(nf(it.base), c1)), 'R7', 'every-additional-binary', g[2].where(), 'every entry of additional_target_binary_paths is copied',
                      'not every additional binary is copied: %s' % (why or 'the loop does not range over additional_target_binary_paths'))
    # package.toml / descriptor source / composite descriptor: on the effects of the two packaging functions (the writes may
    # sit in private helpers), with assemble_buildpack_directory as a vocabulary entry so that its call sites are enumerated
    rep.analysed(pl)
    Ep = Effects(prog, sl, vocab={AS: ('ASSEMBLE', 0), 'std::io::Write::write_all': ('WRITE_ALL', 0)})
    mayp = H.expand(Ep, pl, 'may')
    reported = lambda e: all(x[4] == 'ok' for x in H.error_flow(prog, e))
    wr = [(e, reported(e)) for e in mayp if e.call is not None and e.call.is_('std::fs::write')]
    # `File::create(p)?.write_all(data)?` is what `fs::write(p, data)?` is defined as: a truncating create whose handle gets
    # exactly one write_all, on every path from the creation to a success of that function, both failures reported
    for cr in mayp:
        if cr.call is None or not cr.call.is_('std::fs::File::create', 'std::fs::File::create_new', 'std::fs::OpenOptions::open'):
            continue
        wa = H.handle_writes(Ep, mayp, cr)
        wr.append((cr, cr.call.is_('std::fs::File::create') and len(wa) == 1 and reported(cr) and reported(wa[0]) and H.follows_on_success(Ep, cr, wa[0])))
    ok = len(wr) == 1 and comps(wr[0][0].path, L.param_pred(pl, 4)) == ('package.toml',) and wr[0][1]
    rep.check(ok, 'R2', 'layout/package.toml', w(pl), 'package.toml written into the destination, error propagated', 'package.toml is not written to <destination>/package.toml')
    asm = [e for e in mayp if e.kind == 'ASSEMBLE']
    ok = len(asm) == 1
    if inlined:
        g = table.get('buildpack.toml')
        ok = g is not None and src_is(g, 'buildpack_descriptor_path')
    elif ok:
        a = [strip(nf(x)) for x in asm[0].args]
        ok = a[0][0] == 'param' and a[0][1] == pl.path and a[0][2] == 4 and len(desc_idx) == 1 and comps(asm[0].args[desc_idx[0]], L.param_pred(pl, 0)) == ('buildpack.toml',)
    rep.check(ok, 'R2', 'layout/descriptor-source', w(pl), 'buildpack.toml copied from <buildpack dir>/buildpack.toml into the destination', 'descriptor source / destination arguments changed')
    pc = prog.fn('libcnb_package::package::package_composite_buildpack')
    cp = [e for e in H.expand(E, pc, 'may') if e.call is not None and e.call.is_('std::fs::copy')]
    ok = len(cp) == 1 and comps(cp[0].args[0], L.param_pred(pc, 0)) == ('buildpack.toml',) and \
        comps(cp[0].path, L.param_pred(pc, 1)) == ('buildpack.toml',) and reported(cp[0])
    rep.check(ok, 'R2', 'layout/composite-descriptor', w(pc), 'composite: buildpack.toml copied byte for byte', 'composite buildpack.toml is not a plain copy')
    # ---- R3 ------------------------------------------------------------------------------------------
    ms = [m for m in prog.macros if m['name'] == 'additional_buildpack_binary_path' and m['crate'] == 'libcnb']
    if len(ms) != 1:
        rep.unproven('R3', 'macro', '-', 'additional_buildpack_binary_path! not found in libcnb')
    else:
        lits = re.findall(r'\.\s*join\s*\(\s*"([^"]*)"\s*\)', ms[0]['body'])
        g = table.get('.libcnb-cargo/additional-bin')
        writer = list(comps(at_site(g[2], g[2].path), root)) if g else None
        rep.check(writer == lits[:2] and len(lits) >= 2, 'R3', 'dirs', '%s:%s' % (ms[0]['file'], ms[0]['line']), 'packager writes %s, runtime macro reads %s' % (writer, lits[:2]),
                  'packager places additional binaries in %s but libcnb looks them up in %s' % (writer, lits))
    # ---- R4 ------------------------------------------------------------------------------------------
    # every way build_binary is reached from build_buildpack_binaries (directly, through a local closure, from a loop or
    # from an iterator pipeline), with the target name in the entry function's terms and the selection it runs under
    bb = prog.fn('libcnb_package::build::build_buildpack_binaries')
    rep.analysed(bb)
    E4 = Effects(prog, sl, vocab={BUILD: ('BUILD', 5), SET_INSERT: ('PUT', 1)})
    may4 = H.expand(E4, bb, 'may')
    builds = [(e, H.selection_open(E4, e)) for e in may4 if e.kind == 'BUILD']
    # "the binary target names" / "the buildpack's own target" are the values provided by the functions R10 decides on
    # (one function each, or one function returning both: H.find_roles), applied to this function's cargo metadata
    roles = H.find_roles(prog, sl)
    is_md = lambda a: a[0] == 'param' and a[1] == bb.path and a[2] < len(bb.args) and 'cargo_metadata::Metadata' in str(bb.args[a[2]])
    is_names_v = lambda v: roles.names is not None and H.role_of(prog, v, is_md) == roles.names
    is_main_v = lambda v: roles.main is not None and H.role_of(prog, v, is_md) == roles.main
    main_build = [(e, s) for e, s in builds if not s.iterations]
    ok = len(main_build) == 1
    t_main = None
    if ok:
        e = main_build[0][0]
        t_main = strip(e.path)
        # membership decisions it runs under (`names.contains(&t)` / `names.iter().any(|n| n == &t)`)
        cds = [m for cd, views, _ in guards_of(E4, e) if cd.kind == 'bool' for v, oc in views for m in [H.membership(sl, v, oc)] if m is not None]
        # ... or that a gate call before it guarantees (`ensure_target_exists(&names, &t)?`)
        top = H.levels(e)[0][0]
        cds += [m for views in H.ok_gates(E4, top.fn, top.bb) for v, oc in views for m in [H.membership(sl, v, oc)] if m is not None]
        ok = bool(cds) and all(oc is True for _, _, oc in cds) and any(is_names_v(strip(coll)) and is_main_v(strip(item)) for coll, item, oc in cds)
        ok = ok and is_main_v(t_main)
    rep.check(ok, 'R4', 'main', w(bb), 'main binary = determined target, built only if it is among the binary targets', 'main binary selection changed')
    errs = [s for g in [bb] + prog.closures_of(bb) + [h for h in prog.reach([bb]).values() if h.crate == bb.crate] for b in g.blocks for s in b['s']
            if s[0] == '=' and s[2]['r'] == 'agg' and s[2].get('variant') == 'MissingBuildpackTarget']
    rep.check(bool(errs), 'R4', 'main/missing-error', w(bb), 'missing main target is an error', 'no MissingBuildpackTarget error')
    add_build = [(e, s) for e, s in builds if s.iterations]
    ok = len(add_build) == 1 and t_main is not None
    if ok:
        e, s = add_build[0]
        tv = strip(e.path)
        preds = H.predicates(s)
        it = s.iterations[0]
        # one pass over the binary target names, each element's own name handed to build_binary, the only per-element
        # condition being "differs from the main target"
        ok = len(s.iterations) == 1 and preds is not None and len(preds) == 1 and it.elem is not None and H.same(tv, it.elem) and is_names_v(it.base)
        if ok:
            ok = False
            for v, oc in H.open_views(sl, preds[0]):
                v = strip(v)
                if v[0] == 'call' and len(v[2]) == 2 and ((v[1].endswith('::ne') and oc is True) or (v[1].endswith('::eq') and oc is False)):
                    a, b = v[2]
                    ok = ok or (H.same(a, it.elem) and H.same(b, t_main)) or (H.same(b, it.elem) and H.same(a, t_main))
        # keyed by target name: entries put into the map that is returned as `additional_target_binary_paths`
        amap = [fv for x in walk(sl.inline_deep(sl.local(bb, 0), keep=tuple(H.KEEP) + roles.keep())) if x[0] == 'agg' and (x[1] or '').endswith(bty.rsplit('::', 1)[-1]) for fn_, fv in x[3] if fn_ == f_add]
        keys = []
        if len(amap) == 1:
            av = strip(amap[0])
            for pe in may4:
                if pe.kind == 'PUT' and H.same(pe.args[0], av):
                    ps = H.selection_open(E4, pe)
                    keys.append(strip(pe.path) if (len(ps.iterations) == 1 and H.same(ps.iterations[0].recv, it.recv)) else None)
            if not keys and any(x[0] == 'call' and x[1] in H.iters.COLLECTING for x in walk(av)):
                # built by collecting (key, value) pairs
                for el, coll, fl in H.iters.alts(sl, av):
                    pair = strip(sl.mk_unwrap(el, 1))
                    keys.append(strip(pair[1][0]) if (pair[0] == 'tuple' and len(pair[1]) == 2) else None)
        ok = ok and len(keys) == 1 and keys[0] is not None and H.same(keys[0], tv)
    rep.check(ok, 'R4', 'additional', w(bb), 'additional binaries = all binary targets != main, keyed by their target name', 'additional binary selection changed')
    # ---- R5 ------------------------------------------------------------------------------------------
    prints = [(g, c) for g in prog.fns.values() if g.crate == 'cargo_libcnb' for c in g.calls if c.is_('std::io::_print')] + out_writes
    rep.check(len(prints) == 1, 'R5', 'count', w(ex), 'exactly one stdout print in cargo-libcnb', 'stdout is written at %s' % [c.where() for g, c in prints])
    if len(prints) == 1:
        g, c = prints[0]
        # the print as an effect of `execute`: it runs once per entry of the id -> packaged dir map (a for loop or a
        # for_each closure), under exactly one per-entry condition: some selected root node has that id
        pe = [e for e in may1 if e.kind == 'PRINT_OUT' or (e.kind == 'OUT_WRITE' and any(e.call is oc_ for _, oc_ in out_writes))]
        ok = len(pe) == 1 and pe[0].call is c
        printed_ok = False
        unread = []
        if ok:
            e = pe[0]
            s = H.selection_open(E1, e)
            preds = H.predicates(s)
            maps = [strip(r.args[0]) for r in may1 if r.kind == 'RECORD' and dest is not None and H.same_through_helpers(sl, r.path, dest)]
            roots = [x[2][1] for x in L.walk_deep(sl, dest) if x[0] == 'call' and x[1] == DEPS and len(x[2]) > 1] if dest is not None else []
            if dest is not None and not roots:
                roots = [x[2][1] for x in walk(H.deep_nf(sl, dest)) if x[0] == 'call' and x[1] == DEPS and len(x[2]) > 1]
            ok = len(s.iterations) == 1 and preds is not None and len(preds) == 1 and len(maps) == 1 and bool(roots)
            if ok:
                it = s.iterations[0]
                # the iterated map is the one the destinations were recorded in, also when a private helper fills and returns it
                src_ok = H.same_collection(sl, it.base, maps[0])
                sel_ok = False
                id_test = []
                # "some selected root node has this id": `roots.iter().any(|r| r.buildpack_id == *id)`, or membership of the id in a
                # collection derived element by element from the root nodes (`root_ids.contains(&id)` with root_ids =
                # roots.iter().map(|r| &r.buildpack_id).collect()) — read as: for each root element, the test `<key of root> == <item>`
                for v, oc in H.open_views(sl, preds[0]):
                    v, oc = H._peel_not(strip(v), oc)
                    v = strip(v)
                    if not (v[0] == 'call' and oc is True and len(v[2]) == 2):
                        continue
                    if v[1].endswith('::any'):
                        test = lambda el_, v_=v: sl.apply_closure(v_[2][1], (el_,))
                    elif v[1].endswith('::contains'):
                        test = lambda el_, v_=v: ('call', 'std::cmp::PartialEq::eq', (el_, v_[2][1]), None)
                    else:
                        continue
                    mats = []
                    src = H.elementwise_base(v[2][0], mats)
                    over = H.decompose(sl, src) if src is not None else (None, True, True)
                    this = not over[1] and not over[2] and any(H.same(over[0], r) or H.same(H.deep_nf(sl, over[0]), H.deep_nf(sl, r)) for r in roots)
                    if this and not all(H.never_mutated(prog, m_) is True for m_ in mats):
                        # a collected id set that is (or may be) pushed to / extended afterwards is not "the root nodes' ids"
                        this = False
                        unread.append('the collection the id is looked up in is built from the root nodes but may be changed afterwards')
                    sel_ok = sel_ok or this
                    if this:
                        # ... and "has this id" is: root.buildpack_id == <id of the entry>
                        # (the root nodes may be several alternatives: `vec![node]` | all nodes | none — the test is read for each)
                        ra = H.iters.alts(sl, v[2][0])
                        rel = H.iters.alts(sl, src)
                        if not ra or len(ra) != len(rel) or any(fl for _, _, fl in ra):
                            id_test.append(False)
                            continue
                        for (el, _, _), (root_el, _, _) in zip(ra, rel):
                            r = test(el)
                            r, roc = H._peel_not(strip(r), True) if r is not None else (None, True)
                            r = strip(r) if r is not None else None
                            if r is not None and r[0] == 'call' and len(r[2]) == 2 and ((r[1].endswith('::eq') and roc is True) or (r[1].endswith('::ne') and roc is False)):
                                a, b = H.peel_path(r[2][0]), H.peel_path(r[2][1])
                                is_root_id = lambda x: x[0] == 'field' and x[2] == 'buildpack_id' and H.same(x[1], root_el)
                                is_entry_id = lambda x: x[0] == 'field' and x[2] == '0' and it.elem is not None and H.same(x[1], H.entry_of(it))
                                id_test.append((is_root_id(a) and is_entry_id(b)) or (is_root_id(b) and is_entry_id(a)))
                            else:
                                id_test.append(False)
                ok = src_ok and sel_ok
                # the printed value is the map value (packaged dir) of that entry
                for av in e.args or ():
                    for x in walk(av):
                        if x[0] == 'call' and x[1].endswith(('to_string_lossy', 'std::path::Path::display', 'std::path::PathBuf::display')) and x[2]:
                            coll, proj = L.loop_element(x[2][0])
                            printed_ok = printed_ok or (coll is not None and H.same_collection(sl, coll, maps[0]) and proj == ('1',))
        if not (ok and printed_ok) and unread:
            rep.unproven('R5', 'selection', c.where(), 'cannot show that exactly the selected root buildpacks\' directories are printed: %s' % unread[0])
        else:
            rep.check(ok and printed_ok, 'R5', 'selection', c.where(), 'prints the packaged directory of each selected root buildpack',
                      'the stdout print is not the for_each over the packaged dirs filtered by the selected root nodes')
        if ok:
            rep.check(bool(id_test) and all(id_test), 'R5', 'selection-test', c.where(), 'an entry is printed iff some selected root node\'s buildpack_id equals the entry\'s id',
                      'the per-entry test is not `root.buildpack_id == <entry id>`')
        # one directory per line and nothing else: the format is exactly "<dir>\n"
        if len(pe) == 1:
            fm = [x for a in (pe[0].args or ()) for x in walk(a) if x[0] == 'fmt']
            pieces = list(fm[0][1]) if len(fm) == 1 else None
            ok_fmt = pieces is not None and len([p_ for p_ in pieces if not isinstance(p_, str)]) == 1 and not isinstance(pieces[0], str) and \
                ''.join(p_ for p_ in pieces if isinstance(p_, str)) == '\n'
            rep.check(ok_fmt, 'R5', 'line-format', c.where(), 'each directory is printed as one line of its own', 'the stdout line is not exactly "<directory>\\n": %s' % (pieces,))
    # ---- R6 ------------------------------------------------------------------------------------------
    # where the output goes: a relative --package-dir is resolved against the invocation directory (not the workspace root);
    # the default is <workspace root>/packaged
    rep.rule('R6', 'package directory: --package-dir relative to the invocation directory, default <workspace root>/packaged')
    # stated on the effects of `execute` with absolutize_path as vocabulary: the call(s) may sit in `execute`, in a closure
    # or in a private helper; their arguments are read in `execute`'s terms and the `Some` / `None` decision on
    # args.package_dir may be an `unwrap_or(..)` value or a `match` / `if let` around two calls
    AP = 'libcnb_package::util::absolutize_path'
    WR = 'libcnb_package::find_cargo_workspace_root_dir'
    E6 = Effects(prog, sl, vocab={AP: ('ABSOLUTIZE', 0)})
    is_pd = lambda v: any(x[0] == 'field' and x[2] == 'package_dir' for x in walk(v))

    def is_pd_itself(v):
        # (a copy / borrow / the payload of) args.package_dir itself — not a path derived from it
        v = H.peel_path(v)
        for _ in range(6):
            if v[0] == 'call' and len(v[2]) == 1 and v[1].endswith(H._OPT_VIEW + ('::cloned', '::copied')):
                v = H.peel_path(v[2][0])
            elif v[0] == 'variant' and v[2] == 'Some':
                v = H.peel_path(v[1])
            else:
                break
        return v[0] == 'field' and v[2] == 'package_dir'

    def is_default(dflt):
        dflt = strip(dflt)
        if dflt[0] == 'closure':
            dflt = strip(sl.apply_closure(dflt, ()) or ('unknown',))
        return dflt[0] == 'call' and dflt[1] in ('std::path::Path::join', 'std::path::PathBuf::join') and strip(dflt[2][1]) == ('const', 'packaged') \
            and any(x[0] == 'call' and x[1] == WR for x in walk(dflt[2][0]))
    cands = []
    for e in H.expand(E6, ex, 'may'):
        if e.kind != 'ABSOLUTIZE' or not e.args or len(e.args) < 2:
            continue
        pv = sl.inline_deep(e.args[0], keep=(WR,))
        bv = sl.inline_deep(e.args[1], keep=(WR,))
        arm = H.option_arm(E6, e, is_pd)
        if is_pd(pv) or arm is not None:
            cands.append((e, pv, bv, arm))
    ok_base = bool(cands)
    detail = 'no absolutize_path call on the package directory reached from execute'
    whole, some_arm, none_arm = [], [], []
    for e, pv, bv, arm in cands:
        b = strip(bv)
        ok_base = ok_base and b[0] == 'call' and b[1] == 'std::env::current_dir' and bv[0] == 'unwrap'
        p0 = strip(pv)
        if arm is None:
            # default: args.package_dir.unwrap_or(<workspace root>.join("packaged")), the root found from the invocation directory
            od = H.option_default(sl, p0)
            arms = H.option_arms_of_value(E6, e, 0, is_pd) if od is None else None
            if arms is not None:
                # the value handed over is itself made by a decision on args.package_dir: one row per arm
                norm_ = lambda x: strip(sl.inline_deep(x, keep=(WR,)))
                whole.append(bool(arms['Some']) and bool(arms['None']) and all(is_pd_itself(norm_(x)) for x in arms['Some']) and all(is_default(norm_(x)) for x in arms['None']))
            else:
                whole.append(od is not None and is_pd_itself(od[0]) and is_default(od[1]))
        elif arm == 'None':
            none_arm.append(is_default(p0))
        elif arm == 'Some':
            some_arm.append(is_pd_itself(p0))
        else:
            whole.append(False)
        detail = '; '.join(x for x in (detail if detail.startswith('path=') else '', 'path=%s base=%s%s' % (vstr(pv)[:90], vstr(bv)[:60], ' [package_dir is %s]' % arm if arm else '')) if x)
    # either one call on the unwrap_or value, or one call per arm of the decision on args.package_dir
    ok_default = bool(cands) and all(whole) and all(some_arm) and all(none_arm) and (bool(whole) or (bool(some_arm) and bool(none_arm)))
    rep.check(ok_base, 'R6', 'package-dir/base', w(ex), 'a relative --package-dir is resolved against env::current_dir()',
              'the package directory is not made absolute against the invocation directory: ' + detail)
    rep.check(ok_default, 'R6', 'package-dir/default', w(ex), 'default package directory = <workspace root>/packaged',
              'the default package directory is not <workspace root>/packaged: ' + detail)
    # ---- deepening round: R8 .. R12 (C15_helpers) ------------------------------------------------------
    for rule, fn_, args in (('R8', H.rules_e2e, (ctx, rep, ex, dest)), ('R9', H.rules_build_binary, (ctx, rep)), ('R10', H.rules_cargo, (ctx, rep)),
                            ('R11', H.rules_kind, (ctx, rep)), ('R12', H.rules_discovery, (ctx, rep))):
        try:
            fn_(*args)
        except (IndexError, KeyError, TypeError, AttributeError, ValueError) as err:
            # a shape of the code the rule does not understand is never accepted silently
            rep.unproven(rule, 'shape', w(ex), 'the rule could not read the code it decides on (%s: %s)' % (type(err).__name__, err))
