"""C15 — `cargo libcnb package` writes complete buildpack dirs, also over stale output.

Decided structurally:
  R1 wipe-then-assemble  per packaged node: REMOVE_TREE(dest) before MKDIR(dest) before the packaging call,
                         all on the same destination value, and the removal's Result is not discarded
                         (only NotFound may be tolerated)
  R2 layout table        constants joined onto the destination: buildpack.toml <- fs::copy of the source
                         descriptor (byte-identical by construction), bin/build <- main binary, bin/detect
                         <- symlink with constant relative target "build", .libcnb-cargo/additional-bin/<target
                         name> <- every additional binary, package.toml
  R3 writer/reader       the two directory constants equal the literals in libcnb's
                         additional_buildpack_binary_path! macro (cross-crate sibling agreement)
  R4 binary selection    additional = binary targets filtered by != main target; main must be among the binary
                         targets, else an error
  R5 stdout discipline   in cargo-libcnb the only stdout print is inside the closure fed by the filter of the
                         packaged-dir map by the selected root nodes; it prints that directory
Not decided: cargo's build, contents of binaries, interrupted-run states beyond the wipe.
"""
import re
from .lib.discard import result_fates, verdict
from .lib.effects import Effects, MUTATING
from .lib.guards import conditions
from .lib.paths import strip
from .lib.value import vstr, walk
from . import layer_env_common as L

EX = 'cargo_libcnb::package::command::execute'
AS = 'libcnb_package::assemble_buildpack_directory'


def run(ctx, rep):
    prog, sl = ctx.prog, ctx.slicer
    for r, d in (('R1', 'destination wiped (error not ignored) before it is re-created and filled'), ('R2', 'packaged directory layout table'),
                 ('R3', 'additional-binary directory constants agree between packager and libcnb\'s runtime macro'),
                 ('R4', 'main / additional binary selection'), ('R5', 'stdout carries exactly the selected buildpacks\' output directories')):
        rep.rule(r, d)
    rep.not_decided = ['cargo build results and binary contents', 'states of an interrupted run beyond the wipe']
    E = Effects(prog, sl)
    ex = prog.fn(EX)
    rep.analysed(ex)
    w = lambda f: '%s:%d' % (f.file, f.line)
    # ---- R1 ------------------------------------------------------------------------------------------
    pk = [c for c in ex.calls if c.name == 'libcnb_package::package::package_buildpack']
    if len(pk) != 1 or not ex.in_loop(pk[0].bb):
        rep.unproven('R1', 'package-call', w(ex), 'expected one packaging call inside the build-order loop')
    else:
        p = pk[0]
        dest = strip(sl.operand(ex, p.args[4]))
        rm = [c for c in ex.calls if c.is_('std::fs::remove_dir_all') and strip(sl.operand(ex, c.args[0])) == dest]
        mk = [c for c in ex.calls if c.is_('std::fs::create_dir_all', 'std::fs::create_dir') and strip(sl.operand(ex, c.args[0])) == dest]
        if not rm:
            rep.violated('R1', 'wipe', p.where(), 'the destination directory is not removed before packaging: stale files of an earlier run survive')
        else:
            r0 = rm[0]
            # the removal may be conditional on the destination existing (and on nothing else)
            gds = [cd for cd in conditions(ex, r0.bb, sl) if cd.kind == 'bool' and ex.in_loop(cd.sw_bb)]
            only_exists = all(cd.outcome is True and cd.value[0] == 'call' and cd.value[1] in ('std::path::Path::exists', 'std::path::Path::try_exists', 'std::path::Path::is_dir')
                              and strip(cd.value[2][0]) == dest for cd in gds)
            anchor = gds[0].sw_bb if (gds and only_exists) else r0.bb
            before = lambda a, b: ex.dominates(a, b) and a != b
            order = (only_exists or not gds) and before(anchor, p.bb) and (not mk or (before(anchor, mk[0].bb) and before(mk[0].bb, p.bb))) and \
                (not mk or r0.bb not in ex.reachable(mk[0].bb, stop=[l for L_ in [x for x in __import__('rules.lib.effects', fromlist=['find_loops']).find_loops(ex, sl)] for l in [L_.header]]))
            rep.check(order and bool(mk), 'R1', 'order', r0.where(), 'remove_dir_all(dest) -> create_dir_all(dest) -> package into dest, on every iteration',
                      'wipe / create / package are not in this order on every path')
            fates = result_fates(prog, ex, r0)
            vd = verdict(fates)
            rep.check(vd in ('ok', 'panics'), 'R1', 'wipe-result', r0.where(), 'a failed wipe is reported',
                      'the Result of fs::remove_dir_all(<destination>) is discarded (%s): if the old output cannot be removed (e.g. a read-only sub-directory '
                      'left by an earlier run) packaging continues over stale content and exits 0' % '; '.join(x.detail or x.kind for x in fates),
                      {'fates': [repr(x) for x in fates]})
            # when the error is matched rather than `?`-propagated: only ErrorKind::NotFound may fall through
            if vd == 'ok' and any(x.kind == 'matched' for x in fates) and mk:
                arm = None
                sw = None
                for bi, blk in enumerate(ex.blocks):
                    t = blk['t']
                    if t['t'] == 'switch' and t.get('oty') == 'bool':
                        v = strip(sl.operand(ex, t['o']))
                        if v[0] == 'call' and v[1] in ('std::cmp::PartialEq::ne', 'std::cmp::PartialEq::eq') and strip(v[2][1])[0] == 'agg' and strip(v[2][1])[2] == 'NotFound' \
                                and strip(v[2][0])[0] == 'call' and strip(v[2][0])[1] == 'std::io::Error::kind':
                            sw = (bi, v[1].endswith('::ne'), t)
                            for cd in conditions(ex, bi, sl):
                                if cd.kind == 'variant' and cd.outcome == frozenset({'Err'}) and strip(cd.subject)[0] == 'call' and strip(cd.subject)[1] == 'std::fs::remove_dir_all':
                                    arm = cd.target
                good = False
                if arm is not None and sw is not None:
                    bi, is_ne, t = sw
                    through = mk[0].bb not in ex.reachable(arm, stop=[bi]) or arm == bi
                    # the fall-through edge is the "kind == NotFound" edge
                    fall = [tb for val, tb in t['targets'] if val == 0] if is_ne else [t['else']]
                    other = t['else'] if is_ne else [tb for val, tb in t['targets'] if val == 0][0]
                    good = through and bool(fall) and mk[0].bb in ex.reachable(fall[0]) and mk[0].bb not in ex.reachable(other)
                rep.check(good, 'R1', 'wipe-tolerance', r0.where(), 'a failed wipe is tolerated only for ErrorKind::NotFound',
                          'a failed wipe can fall through to packaging for errors other than NotFound')
        # destination = resolver(node.buildpack_id) and is what gets recorded / printed
        ins = [c for c in ex.calls if c.name and c.name.endswith('BTreeMap::<K, V, A>::insert')]
        okm = any(strip(sl.operand(ex, c.args[2])) == dest for c in ins)
        rep.check(okm, 'R1', 'recorded', p.where(), 'the packaged directory recorded for the id is the destination that was filled', 'the id -> packaged dir map does not record the destination')
    # ---- R2 ------------------------------------------------------------------------------------------
    af = prog.fn(AS)
    rep.analysed(af)
    root = L.param_pred(af, 0)
    table = {}
    for e in E.expand(af, 'may'):
        if e.kind not in MUTATING:
            continue
        cs = L.comps(e.path, root)
        key = '?' if cs is None else '/'.join('<name>' if not isinstance(x, str) else x for x in cs)
        src = None
        if e.call.is_('std::fs::copy'):
            src = vstr(strip(e.args[0]))
        elif e.call.is_('std::os::unix::fs::symlink'):
            src = 'symlink->' + vstr(strip(e.args[0]))
        table[key or '.'] = (e.kind, src, e)
    must = set()
    for e in E.expand(af, 'must'):
        cs = L.comps(e.path, root) if e.kind in MUTATING else None
        if cs is not None and all(isinstance(x, str) for x in cs):
            must.add('/'.join(cs) or '.')
    rep.extra['layout'] = {k: [v[0], v[1]] for k, v in table.items()}
    want = {
        '.': ('MKDIR', None), 'buildpack.toml': ('WRITE', 'buildpack_descriptor_path'), 'bin': ('MKDIR', None),
        'bin/build': ('WRITE', 'buildpack_binaries.buildpack_target_binary_path'), 'bin/detect': ('WRITE', "symlink->'build'"),
        '.libcnb-cargo/additional-bin': ('MKDIR', None),
        '.libcnb-cargo/additional-bin/<name>': ('WRITE', 'unwrap(Iterator::next(buildpack_binaries.additional_target_binary_paths)).1'),
    }
    for k, (kind, src) in want.items():
        g = table.get(k)
        ok = g is not None and g[0] == kind and g[1] == src
        rep.check(ok, 'R2', 'layout/' + k, g[2].where() if g else w(af), '%s %s%s' % (kind, k, ' <- ' + src if src else ''),
                  'layout entry %s: expected %s <- %s, found %s' % (k, kind, src, g and (g[0], g[1])))
    for k in table:
        if k not in want:
            rep.violated('R2', 'layout/extra/' + k, table[k][2].where(), 'unexpected entry %s written into the buildpack directory' % k)
    for k in ('.', 'buildpack.toml', 'bin', 'bin/build', 'bin/detect'):
        rep.check(k in must, 'R2', 'unconditional/' + k, w(af), '%s is produced on every success path' % k, '%s is not produced on every success path' % k)
    # additional binaries: name of the file = key of the same map element
    g = table.get('.libcnb-cargo/additional-bin/<name>')
    if g:
        cs = L.comps(g[2].path, root)
        c1, p1 = L.loop_element(cs[-1])
        c2, p2 = L.loop_element(g[2].args[0])
        rep.check(c1 is not None and c1 == c2 and p1 == ('0',) and p2 == ('1',), 'R2', 'additional/name', g[2].where(), 'each additional binary copied to <dir>/<its target name>',
                  'additional binary file name is not the target name of the copied binary')
    pl = prog.fn('libcnb_package::package::package_libcnb_buildpack')
    rep.analysed(pl)
    wr = [c for c in pl.calls if c.is_('std::fs::write')]
    ok = len(wr) == 1 and L.comps(sl.operand(pl, wr[0].args[0]), L.param_pred(pl, 4)) == ('package.toml',) and verdict(result_fates(prog, pl, wr[0])) == 'ok'
    rep.check(ok, 'R2', 'layout/package.toml', w(pl), 'package.toml written into the destination, error propagated', 'package.toml is not written to <destination>/package.toml')
    asm = [c for c in pl.calls if c.name == AS]
    ok = len(asm) == 1
    if ok:
        a = [strip(sl.operand(pl, x)) for x in asm[0].args]
        ok = a[0][0] == 'param' and a[0][2] == 4 and L.comps(a[1], L.param_pred(pl, 0)) == ('buildpack.toml',)
    rep.check(ok, 'R2', 'layout/descriptor-source', w(pl), 'buildpack.toml copied from <buildpack dir>/buildpack.toml into the destination', 'descriptor source / destination arguments changed')
    pc = prog.fn('libcnb_package::package::package_composite_buildpack')
    cp = [c for c in pc.calls if c.is_('std::fs::copy')]
    ok = len(cp) == 1 and L.comps(sl.operand(pc, cp[0].args[0]), L.param_pred(pc, 0)) == ('buildpack.toml',) and \
        L.comps(sl.operand(pc, cp[0].args[1]), L.param_pred(pc, 1)) == ('buildpack.toml',) and verdict(result_fates(prog, pc, cp[0])) == 'ok'
    rep.check(ok, 'R2', 'layout/composite-descriptor', w(pc), 'composite: buildpack.toml copied byte for byte', 'composite buildpack.toml is not a plain copy')
    # ---- R3 ------------------------------------------------------------------------------------------
    ms = [m for m in prog.macros if m['name'] == 'additional_buildpack_binary_path' and m['crate'] == 'libcnb']
    if len(ms) != 1:
        rep.unproven('R3', 'macro', '-', 'additional_buildpack_binary_path! not found in libcnb')
    else:
        lits = re.findall(r'\.\s*join\s*\(\s*"([^"]*)"\s*\)', ms[0]['body'])
        g = table.get('.libcnb-cargo/additional-bin')
        writer = list(L.comps(g[2].path, root)) if g else None
        rep.check(writer == lits[:2] and len(lits) >= 2, 'R3', 'dirs', '%s:%s' % (ms[0]['file'], ms[0]['line']), 'packager writes %s, runtime macro reads %s' % (writer, lits[:2]),
                  'packager places additional binaries in %s but libcnb looks them up in %s' % (writer, lits))
    # ---- R4 ------------------------------------------------------------------------------------------
    bb = prog.fn('libcnb_package::build::build_buildpack_binaries')
    rep.analysed(bb)
    main_build = [c for c in bb.calls if c.name == 'libcnb_package::build::build_binary' and not bb.in_loop(c.bb)]
    ok = len(main_build) == 1
    if ok:
        cds = [cd for cd in conditions(bb, main_build[0].bb, sl) if cd.kind == 'bool' and cd.value[0] == 'call' and cd.value[1].endswith('::contains')]
        ok = bool(cds) and cds[-1].outcome is True and any(x[0] == 'call' and x[1] == 'libcnb_package::cargo::cargo_binary_target_names' for x in walk(cds[-1].value[2][0])) and \
            any(x[0] == 'call' and x[1] == 'libcnb_package::cargo::determine_buildpack_cargo_target_name' for x in walk(cds[-1].value[2][1]))
        tv = strip(sl.operand(bb, main_build[0].args[5]))
        ok = ok and any(x[0] == 'call' and x[1] == 'libcnb_package::cargo::determine_buildpack_cargo_target_name' for x in walk(tv))
    rep.check(ok, 'R4', 'main', w(bb), 'main binary = determined target, built only if it is among the binary targets', 'main binary selection changed')
    errs = [s for b in bb.blocks for s in b['s'] if s[0] == '=' and s[2]['r'] == 'agg' and s[2].get('variant') == 'MissingBuildpackTarget']
    rep.check(bool(errs), 'R4', 'main/missing-error', w(bb), 'missing main target is an error', 'no MissingBuildpackTarget error')
    add_build = [c for c in bb.calls if c.name == 'libcnb_package::build::build_binary' and bb.in_loop(c.bb)]
    ok = len(add_build) == 1
    if ok:
        tv = strip(sl.operand(bb, add_build[0].args[5]))
        coll, proj = L.loop_element(tv)
        ok = coll is not None and coll[0] == 'call' and coll[1] == 'std::iter::Iterator::filter'
        if ok:
            src = strip(coll[2][0])
            fcl = strip(coll[2][1])
            body = prog.fns.get(fcl[1]) if fcl[0] == 'closure' else None
            bv = strip(sl.local(body, 0)) if body else ('unknown',)
            ok = bv[0] == 'call' and bv[1].endswith('::ne') and any(x[0] == 'call' and x[1] == 'libcnb_package::cargo::cargo_binary_target_names' for x in walk(src))
        ins = [c for c in bb.calls if c.name and c.name.endswith('HashMap::<K, V, S, A>::insert') and bb.in_loop(c.bb)]
        ok = ok and len(ins) == 1 and strip(sl.operand(bb, ins[0].args[1])) == tv
    rep.check(ok, 'R4', 'additional', w(bb), 'additional binaries = all binary targets != main, keyed by their target name', 'additional binary selection changed')
    # ---- R5 ------------------------------------------------------------------------------------------
    prints = [(g, c) for g in prog.fns.values() if g.crate == 'cargo_libcnb' for c in g.calls if c.is_('std::io::_print')]
    rep.check(len(prints) == 1, 'R5', 'count', w(ex), 'exactly one stdout print in cargo-libcnb', 'stdout is written at %s' % [c.where() for g, c in prints])
    if len(prints) == 1:
        g, c = prints[0]
        ok = g.parent == EX and g.kind == 'Closure'
        fe = [x for x in ex.calls if x.name == 'std::iter::Iterator::for_each' and any(y[0] == 'closure' and y[1] == g.path for y in walk(sl.operand(ex, x.args[1])))]
        ok = ok and len(fe) == 1
        if ok:
            it = strip(sl.operand(ex, fe[0].args[0]))
            ok = it[0] == 'call' and it[1] == 'std::iter::Iterator::filter'
            if ok:
                src = strip(it[2][0])
                fcl = strip(it[2][1])
                src_ok = any(x[0] == 'call' and x[1].endswith('BTreeMap::<K, V>::new') for x in walk(src))
                body = prog.fns.get(fcl[1]) if fcl[0] == 'closure' else None
                bv = strip(sl.local(body, 0)) if body else ('unknown',)
                sel_ok = bv[0] == 'call' and bv[1].endswith('::any') and any(x[0] == 'call' and x[1].endswith('unwrap_or_default') for x in walk(bv))
                ok = src_ok and sel_ok
        # the printed value is the map value (packaged dir)
        pv = [sl.operand(g, a) for a in c.args]
        printed_ok = any(x[0] == 'call' and x[1].endswith('to_string_lossy') and strip(x[2][0])[0] in ('field', 'param') for v in pv for x in walk(v))
        rep.check(ok and printed_ok, 'R5', 'selection', c.where(), 'prints the packaged directory of each selected root buildpack',
                  'the stdout print is not the for_each over the packaged dirs filtered by the selected root nodes')
