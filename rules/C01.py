"""C01 — struct-API layer state machine (cached_layer / uncached_layer).

Decided structurally (each a necessary condition of the behaviour):
  R1 types-flow      the LayerTypes written on every success path are exactly (definition.launch,
                     definition.build, cache = true|false constant)
  R3 decision table  per callback decision: effects that must have happened, effects that must not
                     happen after the decision, and the returned LayerState variant + cause provenance
  R4 keep-frame      the keep path re-serialises the value it read from the same file with only
                     `.types` replaced
  R5 delete-coverage every artifact class a layer writer can create (DIR, TOML, SBOM per format,
                     DIR/env*, DIR/exec.d) is removed on the paths that report an empty layer after a
                     previous one existed
  R6 sbom formats    the format list used for removal contains every variant of SbomFormat
  R7 confinement     every mutating effect reachable from the two entry points is on a path lexically
                     inside this layer's (layers_dir, layer_name) classes
  R9 uncached        uncached_layer passes constant DeleteLayer callbacks and cache = false
  R8 tolerated stat  on a delete row no fallible symlink-following stat of an entry below the layer directory has its
                     error absorbed (a dangling link would end the removal silently)
  R10 reader/gates   "newly created" is only reported behind the reader's None, the reader returns None only when the
                     layer directory does not exist, and a layer it reports present has a content-metadata file (read
                     successfully or written: normalisation of a directory without TOML)
  R12 writers        LayerRef::write_sboms removes the SBOM file of every format before it writes the new ones
  (R4 also: the keep path re-reads the file as a type that holds every metadata table)
Not decided: what the file-system calls do on disk; the lifecycle's restore model.

The rows of R3 are the success outcomes of cached_layer split on every private helper of the handler's module that the
returned value or a dominating decision depends on (C01_helpers.outcomes2), located by call frame; written values are read
in normal form (C01_helpers.norm / frame_of), the dispatch into the handler is read as an effect of the entry points.  None
of it depends on how the handler is cut into functions or on which of `x.f = v` / `S { f: v, ..rest of x }` is written
(also inside a closure handed to a shared read-transform-write helper: `|mut x| { x.f = v; x }`, C01_helpers.apply_fn).
"Re-dispatch" is the handler calling itself *or* the handler's body being a loop whose back edge is equivalent to that
call — nothing but the unmodified arguments is live at the loop header (C01_helpers.restart_loops, checked on the facts);
the back edge is then a success site with the value of the recursive call and every row is read within one iteration.

Effects are taken from C01_helpers.Effects2 and path classes from C01_helpers.WorklistPaths: a directory traversal driven
by an explicit stack (a local work-list that is drained before the function succeeds) yields the same MUST effects and
the same path classes as the recursive spelling — by the work-list's drain theorem and its inductive element invariant,
both checked on the facts — and private helpers / constructors that only compute paths are transparent wherever they
occur in a path value (inline_deep normal form).

Round 4 (each stated on a normal form, see the section comments of C01_helpers):
  * "the value read from this layer's TOML" (R4 base, R1 types-preserved, lossless re-read) is the success payload
    `toml::from_str(read_to_string(P))` after inlining, whichever function spells it out (toml_source); the type it is read as
    is the payload type where the value enters the function that uses it.
  * a success site of the reader may be the last combinator of a chain (`parse(..).map_err(E).map(|m| Some(..))`): its
    None / Some kind is read from the chain's success payload.
  * a callback decision handed on as a private enum and matched in another function ("plan, then execute") is the same
    decision (refine_outcomes): contradicted arms are no outcomes, a match on a table over the callback's answer is a
    decision on that answer; "must happen after the decision" is checked from the place of the match, "must not happen
    after the decision" from the return of the callback on (Outcome2.region_wide).
  * a loop over a local Vec / VecDeque that was filled in place (push / extend / pushes in an exhaustive loop, also on top of
    a `vec![..]` literal) runs its body for exactly those elements (built_alts); a collection that is also modified in a way
    that is not followed is opaque — no MUST effect, an unknown element for MAY — and the rows depending on it are UNPROVEN.

Round 5 (again on normal forms; helpers documented in C01_helpers: _READER_DOC, _READ_BUFFER_DOC, _NESTED_DOC, _OPEN_MODE_DOC):
  * the layer reader (R10) is read by its leaf outcomes split on every helper of its crate that a returned value or a
    dominating test depends on — a generic shell over a non-generic helper returning Option<(path, text)>, a private
    Presence enum, an `io::Result<bool>` "exists after normalising" helper in another module, `opt.map(parse).transpose()`;
    a contradicted boolean answer of a helper is no outcome (C01_helpers.decided).
  * "the text of file P" is `fs::read_to_string(P)`, `io::read_to_string(File::open(P)?)`, `String::from_utf8(fs::read(P)?)`
    or a local buffer filled by one checked `Read::read_to_string(&mut buf)` on `File::open(P)?` (also through a BufReader /
    a read-only OpenOptions, also when the `&mut buf` is reborrowed); helpers exposed by applying a closure are inlined again.
    When the layer's TOML is visibly read but the value is not reduced to `parse(text)`, R4 / R1 are UNPROVEN, not VIOLATED.
  * the type a value is read as is followed through tuple components and fields of a private, non-generic carrier struct;
    assignments through nested fields of such a carrier (`c.content.types = t; write(&c.content)`) are re-attached to the
    written value (repair_nested_updates).
  * `OpenOptions::new().write(true).create(true).truncate(true).open(p)` + write_all is File::create / fs::write (Effects2).
  * LayerTypes may be put together by a literal, a private constructor, functional update over one, or field assignments
    on `LayerTypes::default()`; `!CONST` is a constant (types_fields / types_ok).
  * "the handler" is found through private forwarders shared by the two entry points (handler_chain).
  * an outcome whose success site lies behind a join of several decision paths (cause = phi) is not separated into rows:
    whatever fails on it is UNPROVEN (JoinedRep) — wanted: a split of success sites at joins in outcomes2.
"""
from .lib.effects import Effects, MUTATING, REMOVING, vocab_lookup
from .C01_helpers import outcomes2, refine_outcomes, norm, frame_of, Effects2, WorklistPaths, UNKNOWN_ELEM, repair_nested_updates
from .C01_helpers import readers_of, gated_by_none, reader_contexts, reader_report, nested_follow_stats, toml_source, lossless_type, toml_read_hint
from .lib.paths import LayerPaths, cls_str, strip, sbom_formats_covered
from .lib.value import vstr, walk

CL = r'^libcnb::build::BuildContext::<B>::cached_layer$'
UL = r'^libcnb::build::BuildContext::<B>::uncached_layer$'
RESTORED = 'libcnb::layer::struct_api::RestoredLayerAction'
INVALID = 'libcnb::layer::struct_api::InvalidMetadataAction'
LAYER_REF_WRITERS = r'^libcnb::layer::struct_api::LayerRef::<B, MAC, RAC>::(write_metadata|write_env|write_sboms|write_exec_d_programs)$'


def entry_paths(entry, E=None):
    """LayerPaths for BuildContext::{cached,uncached}_layer(&self, layer_name, layer_definition); with E, paths taken from
    the elements of a work-list (an explicit-stack traversal) are classified by the work-list's invariant"""
    def is_ld(v):
        return v[0] == 'field' and v[2] == 'layers_dir' and v[1][0] == 'param' and v[1][1] == entry.path and v[1][2] == 0

    def is_ln(v):
        if v[0] == 'param' and v[1] == entry.path and v[2] == 1:
            return True
        return False
    return WorklistPaths(is_ld, is_ln, (), E)


def layer_ref_paths(fn, E=None):
    """LayerPaths for LayerRef methods: LD = self.layers_dir, LN = self.name, DIR also = self.path()"""
    def is_self(v):
        return v[0] == 'param' and v[1] == fn.path and v[2] == 0

    def is_ld(v):
        return v[0] == 'field' and v[2] == 'layers_dir' and is_self(v[1])

    def is_ln(v):
        return v[0] == 'field' and v[2] == 'name' and is_self(v[1])

    def is_dir(v):
        return v[0] == 'call' and v[1].endswith('LayerRef::<B, MAC, RAC>::path') and is_self(v[2][0])
    return WorklistPaths(is_ld, is_ln, (is_dir,), E)


def handler_chain(prog, start):
    """[start, .., handler]: `start` followed through pure forwarders — functions whose body makes one workspace call (three
    or more arguments, one callee), no call of the effect vocabulary and no indirect call (nothing is decided or done there)"""
    chain = [start] if start else []
    f = prog.fns.get(start) if start else None
    for _ in range(4):
        if f is None:
            break
        ws = [c for c in f.calls if not c.indirect and c.name in prog.fns and prog.fns[c.name].kind != 'Closure']
        if len(ws) != 1 or len(ws[0].args) < 3:
            break
        if any(c.indirect or vocab_lookup(c) or (c.decl or '') in ('std::ops::Fn::call', 'std::ops::FnMut::call_mut', 'std::ops::FnOnce::call_once')
               for c in f.calls):
            break
        gs = prog.callee_fns(ws[0])
        if len(gs) != 1 or gs[0].path in chain or gs[0].crate != f.crate:
            break
        chain.append(gs[0].path)
        f = gs[0]
    return chain


def definition_field(entry, v, name):
    v = strip(v)
    return v[0] == 'field' and v[2] == name and v[1][0] == 'param' and v[1][1] == entry.path and v[1][2] == 2


def types_fields(tv, sl=None):
    """{field: value} of a LayerTypes value in whichever way it is put together: a literal, a private constructor
    (`layer_types(definition, true)`), a literal with functional update (`LayerTypes { cache: true, ..uncached(..) }`: the
    compiler copies the remaining fields out of the base), or a value whose fields are assigned afterwards
    (`let mut t = LayerTypes::default(); t.launch = ..; t.build = ..; t.cache = true`) — an assigned field hides what the
    base had in it; None with a reason when a field is assigned twice or through a nested place"""
    ups = {}
    v = tv
    for _ in range(8):
        if v[0] == 'unwrap' and len(v) == 2:
            v = v[1]
        elif v[0] == 'updated':
            here = {}
            for proj, uv in v[2]:
                name = proj.lstrip('.')
                if not proj.startswith('.') or '.' in name or '[' in name or '*' in name:
                    return None, 'assignment through %s' % proj
                if name in here and here[name] != uv:
                    return None, 'field %s is assigned more than once' % name
                here[name] = uv
            for k, uv in here.items():
                ups.setdefault(k, uv)       # an outer update is the later one
            v = v[1]
        else:
            break
    base = {}
    if v[0] != 'agg' and sl is not None and not all(k in ups for k in ('launch', 'build', 'cache')):
        v = strip(sl.inline_deep(v))
    if v[0] == 'agg' and (v[1] or '').endswith('LayerTypes'):
        base = dict(v[3])
    elif not all(k in ups for k in ('launch', 'build', 'cache')):
        return None, 'not a LayerTypes literal: ' + vstr(v)[:120]
    base.update(ups)
    return base, ''


def types_ok(entry, tv, cache_const, sl=None):
    """tv must be LayerTypes{launch: def.launch, build: def.build, cache: const}"""
    f, why = types_fields(tv, sl)
    if f is None:
        # a construction that is not followed (assigned twice / through a nested place) is undecided, not wrong
        return (None if why.startswith(('assignment through', 'field ')) else False), why

    def fv(name):
        x = f.get(name, ('unknown',))
        if sl is not None and not definition_field(entry, x, name) and strip(x)[0] != 'const':
            # a field copied out of a private constructor's result: `helper(d.launch, d.build).launch`
            x = sl.inline_deep(x)
        return x
    if not definition_field(entry, fv('launch'), 'launch'):
        return False, 'launch <- ' + vstr(f.get('launch'))
    if not definition_field(entry, fv('build'), 'build'):
        return False, 'build <- ' + vstr(f.get('build'))
    cv = strip(fv('cache'))
    neg = False
    while cv[0] == 'un' and len(cv) == 3 and cv[1] == 'Not':
        # `!CACHED` on a constant is a constant
        cv, neg = strip(cv[2]), not neg
    if cv[0] == 'const' and isinstance(cv[1], bool) and neg:
        cv = ('const', not cv[1])
    if cv != ('const', cache_const):
        return False, 'cache <- %s (expected constant %s)' % (vstr(f.get('cache')), cache_const)
    return True, 'launch <- definition.launch, build <- definition.build, cache <- %s' % cache_const


def check_types(rep, ok, rule, subject, where, why, bad_msg):
    if ok is None:
        rep.unproven(rule, subject, where, 'cannot read the LayerTypes value that is written: ' + why)
    else:
        rep.check(ok, rule, subject, where, why, bad_msg)


def joined_outcome(o):
    """the state returned by this outcome names a cause that is a join of several definitions (phi)"""
    st = find_agg(o.value, 'LayerState') if o.value is not None else None
    if st is None:
        return False
    cause = dict(st[3]).get('cause')
    return cause is not None and strip(cause)[0] == 'phi'


class JoinedRep:
    """reporter for an outcome that joins several decision paths: failures are undecided, not breaches"""
    NOTE = ' — this success site lies behind a join of several decision paths (its cause is chosen per path); the rule does not separate rows at joins'

    def __init__(self, rep):
        self._rep = rep

    def __getattr__(self, name):
        return getattr(self._rep, name)

    def check(self, ok, rule, subject, where, ok_msg, bad_msg, detail=None):
        if ok:
            return self._rep.check(ok, rule, subject, where, ok_msg, bad_msg, detail) if detail is not None else \
                self._rep.check(ok, rule, subject, where, ok_msg, bad_msg)
        return self._rep.unproven(rule, subject, where, bad_msg + self.NOTE)

    def violated(self, rule, subject, where, msg, *a):
        return self._rep.unproven(rule, subject, where, msg + self.NOTE)


def find_agg(v, suffix):
    for x in walk(v):
        if x[0] == 'agg' and x[1] and x[1].endswith(suffix):
            return x
    return None


def some_payload(v):
    v = strip(v)
    if v[0] == 'agg' and v[2] == 'Some':
        return dict(v[3]).get('0')
    return None


def row_of(o):
    decs = [(c, s, lv) for c, s, lv in o.decisions() if c.enum in (RESTORED, INVALID)]
    if not decs:
        return 'absent', None
    c, s, lv = decs[-1]
    if len(c.outcome) != 1:
        return 'ambiguous', decs[-1]
    v = next(iter(c.outcome))
    if c.enum == RESTORED:
        return {'DeleteLayer': 'restored-delete', 'KeepLayer': 'restored-keep'}.get(v, 'ambiguous'), decs[-1]
    return {'DeleteLayer': 'invalid-delete', 'ReplaceMetadata': 'invalid-replace'}.get(v, 'ambiguous'), decs[-1]


def callback_field_of(subj):
    """which field of the layer definition the decision's callback came from"""
    for x in walk(subj):
        if x[0] == 'call' and x[1] in ('std::ops::Fn::call',) and x[2]:
            cb = strip(x[2][0])
            if cb[0] == 'field':
                return cb[2]
    return None


def run(ctx, rep):
    prog, sl = ctx.prog, ctx.slicer
    rep.rule('R1', 'LayerTypes written on success paths = (definition.launch, definition.build, cache constant)')
    rep.rule('R3', 'decision table per callback decision: must effects, forbidden effects after the decision, returned state and cause provenance')
    rep.rule('R4', 'keep path rewrites the value read from the same TOML with only .types replaced')
    rep.rule('R5', 'every artifact class a layer writer can create is removed on delete paths')
    rep.rule('R6', 'SBOM format list used for removal covers every SbomFormat variant')
    rep.rule('R7', 'all mutating effects reachable from the entry points stay inside this layer\'s path classes')
    rep.rule('R9', 'uncached_layer: constant DeleteLayer callbacks, cache = false')
    rep.rule('R8', 'delete rows: no fallible symlink-following stat below the layer directory whose error is absorbed')
    rep.rule('R10', 'row gates: newly-created only behind the reader\'s None; reader: None only without layer directory, Some only with a content-metadata file')
    rep.rule('R12', 'LayerRef::write_sboms replaces: the SBOM file of every format is removed before the new ones are written')
    rep.not_decided = ['disk contents after the file-system calls', 'the lifecycle restore model', 'concurrent modification']
    from . import layer_roles
    from .lib.paths import LayerPaths as _LP
    ROLES = dict(layer_roles.roles(prog, sl))
    _LP.sbom_path_fn = ROLES['SBOM_PATH'] or _LP.sbom_path_fn
    # "the handler" is where the layer is handled, not the first function the entry point calls: a private method both
    # entry points share (`self.request_layer(name, (launch, build, cache), callbacks..)`) that only forwards is looked through
    HL_CHAIN = handler_chain(prog, ROLES['STRUCT_HL'])
    ROLES['STRUCT_HL'] = HL_CHAIN[-1] if HL_CHAIN else ROLES['STRUCT_HL']
    E = Effects2(prog, sl)
    cl = prog.find_one(CL)
    ul = prog.find_one(UL)
    rep.analysed(cl)
    rep.analysed(ul)
    LP = entry_paths(cl, E)
    # private helpers of the handler's own module whose Option/Result payload is handed on count as part of the handler
    hmod = (ROLES['STRUCT_HL'] or '').rsplit('::', 1)[0]
    # (outcomes2: case split on every such helper the returned value or the dominating decisions depend on, so the rows
    # below are the same whether the handler is one function or one function per case)
    outs = outcomes2(E, cl, lambda g: g.crate == 'libcnb' and g.path.startswith(hmod + '::') and g.kind != 'Closure')
    # a callback decision handed on as a value of a private enum and matched elsewhere ("plan, then execute") is the same
    # decision: contradicted arms are dropped, the match on the private enum becomes a decision on the callback's answer
    outs = refine_outcomes(prog, sl, outs)
    rows = {}
    for o in outs:
        r, dec = row_of(o)
        rows.setdefault(r, []).append((o, dec))
        for e in o.must + o.may:
            if e.call is not None:
                rep.analysed(e.call.fn)
    rep.extra['decision_table'] = {}
    expected_rows = ['absent', 'restored-delete', 'restored-keep', 'invalid-delete', 'invalid-replace']
    for r in expected_rows:
        if r not in rows:
            rep.unproven('R3', 'row:' + r, cl.file, 'no success outcome found for decision row %s' % r)
    for r in rows:
        if r not in expected_rows:
            rep.unproven('R3', 'row:' + r, cl.file, 'success outcome with unrecognised decision shape (%d outcome(s))' % len(rows[r]))

    readers = readers_of(prog, outs, (RESTORED, INVALID))

    def klass(e):
        return LP.classify_effect(e) if e.path is not None else None

    def has(effs, kinds, cls_pred):
        return [e for e in effs if e.kind in kinds and cls_pred(klass(e))]

    is_dir = lambda c: c == ('DIR',)
    is_toml = lambda c: c == ('TOML',)
    is_sbom = lambda c: c is not None and c[0] == 'SBOM'
    where = '%s:%d' % (cl.file, cl.line)

    real_rep = rep
    for r in expected_rows:
        for idx, (o, dec) in enumerate(rows.get(r, [])):
            tag = '%s#%d' % (r, idx)
            # a success site behind a join (`let cause = match .. { arm => { delete(..)?; Cause::A }, arm => Cause::B }; create(cause)`)
            # is one outcome here although it ends several decision paths: what is demanded of one row is then tested
            # against the union of those paths.  Rows are not separated at joins (not understood) — nothing found on such
            # an outcome is a proven breach
            rep = JoinedRep(real_rep) if joined_outcome(o) else real_rep
            site_where = '%s:%s' % (o.sites[-1].fn.file, o.sites[-1].fn.line)
            must = o.must
            summary = {'must': [('%s(%s)%s' % (e.kind, cls_str(klass(e)), ' forall ' + vstr(e.forall)[:60] if e.forall else ''))
                                for e in must if e.kind in MUTATING or e.kind == 'CALLBACK'],
                       'returns': vstr(o.value)[:200]}
            rep.extra['decision_table'][tag] = summary
            # ---- returned state ------------------------------------------------------------------
            if r == 'invalid-replace':
                rep.check(o.value[0] == 'recursion' and o.value[1] in HL_CHAIN,
                          'R3', tag + '/returns', site_where, 're-dispatches after replacing the metadata',
                          'ReplaceMetadata does not re-dispatch: returns ' + vstr(o.value)[:120])
            else:
                st = find_agg(o.value, 'LayerState')
                want_variant = 'Restored' if r == 'restored-keep' else 'Empty'
                if st is None:
                    rep.unproven('R3', tag + '/returns', site_where, 'returned LayerState not found in ' + vstr(o.value)[:160])
                else:
                    okv = st[2] == want_variant
                    cause = dict(st[3]).get('cause')
                    msg = 'state = %s' % st[2]
                    if okv and r != 'restored-keep':
                        want_cause = {'absent': 'NewlyCreated', 'restored-delete': 'RestoredLayerAction',
                                      'invalid-delete': 'InvalidMetadataAction'}[r]
                        cv = strip(cause) if cause else ('unknown',)
                        okv = cv[0] == 'agg' and cv[2] == want_cause
                        msg += ', cause variant = %s (want %s)' % (cv[2] if cv[0] == 'agg' else vstr(cv)[:60], want_cause)
                        cause = dict(cv[3]).get('cause') if okv and want_cause != 'NewlyCreated' else None
                    rep.check(okv, 'R3', tag + '/state', site_where, msg, 'wrong reported state for %s: %s' % (r, msg))
                    if r != 'absent' and okv:
                        # cause provenance: second tuple component of into_action(callback(..))'s Ok payload
                        c, subj, lv = dec
                        exp_field = 'restored_layer_action' if c.enum == RESTORED else 'invalid_metadata_action'
                        cv = strip(cause) if cause is not None else ('unknown', 'no cause')
                        good = (cv[0] == 'field' and cv[2] == '1' and
                                any(x[0] == 'call' and x[1].endswith('IntoAction::into_action') for x in walk(cv)) and
                                callback_field_of(cv) == exp_field)
                        rep.check(good, 'R3', tag + '/cause', site_where,
                                  'cause <- .1 of into_action(definition.%s(..))' % exp_field,
                                  'reported cause is not the callback\'s cause: ' + vstr(cv)[:200])
                        # the decision itself is taken on .0 of the same value, from the right callback
                        sv = strip(subj)
                        rep.check(sv[0] == 'field' and sv[2] == '0' and callback_field_of(sv) == exp_field, 'R3', tag + '/decision',
                                  site_where, 'decision <- .0 of into_action(definition.%s(..))' % exp_field,
                                  'decision value does not come from definition.%s: %s' % (exp_field, vstr(sv)[:160]))
            # ---- effects -------------------------------------------------------------------------
            if r == 'absent':
                rep.check(bool(has(must, {'MKDIR'}, is_dir)) and bool(has(must, {'WRITE'}, is_toml)), 'R3', tag + '/must', site_where,
                          'MKDIR(DIR) and WRITE(TOML) on every path', 'a new layer is reported without MKDIR(DIR)+WRITE(TOML): %s' % summary['must'])
                cb = [e for e in o.may if e.kind == 'CALLBACK' and e.path is not None and strip(e.path)[0] == 'field']
                rep.check(not cb, 'R3', tag + '/no-callback', site_where, 'no definition callback runs for an absent layer',
                          'a definition callback can run on the absent-layer path')
                bad = [e for e in o.may if e.kind in ('REMOVE_DIR', 'REMOVE_TREE', 'CHMOD')]
                rep.check(not bad, 'R3', tag + '/must-not', site_where, 'no directory removal on the absent path',
                          'directory removal on the absent-layer path: %s' % bad[:2])
                # R10: nothing is reported as newly created while a layer is present — the row lies behind the reader's None
                if not readers:
                    rep.unproven('R10', tag + '/gate', site_where, 'cannot find the function whose Option result separates "no layer" from "layer present"')
                else:
                    rep.check(gated_by_none(prog, o, readers), 'R10', tag + '/gate', site_where,
                              'reported as newly created only when %s found no layer' % readers[0].rsplit('::', 1)[-1],
                              'a layer is reported as newly created on a path where the reader did not report it absent: no callback '
                              'is consulted and nothing of the previous layer is removed (conditions: %s)'
                              % [vstr(sj)[:70] + '==' + str(sorted(cd.outcome) if isinstance(cd.outcome, frozenset) else cd.outcome) for cd, sj, _ in o.conds][:6])
            elif r in ('restored-delete', 'invalid-delete'):
                c, subj, lv = dec
                after = o.region(c, lv, must)
                # removals driven by a local collection whose content cannot be read (elements added in place, then modified
                # in a way that is not followed): what is removed is undecided, not absent
                opaque_rm = [e for e in o.region(c, lv, o.may) if e.kind in REMOVING and e.path is not None
                             and any(x == UNKNOWN_ELEM for x in walk(e.path))]

                def check_rm(ok, rule, subject, wh, ok_msg, bad_msg, detail=None):
                    if not ok and opaque_rm:
                        rep.unproven(rule, subject, wh, bad_msg + ' — but %s removes the elements of a collection whose content cannot be read' % opaque_rm[0].via())
                    elif detail is not None:
                        rep.check(ok, rule, subject, wh, ok_msg, bad_msg, detail)
                    else:
                        rep.check(ok, rule, subject, wh, ok_msg, bad_msg)
                rm_dir = has(after, {'REMOVE_DIR', 'REMOVE_TREE', 'REMOVE_FILE'}, is_dir)
                rm_toml = has(after, {'REMOVE_FILE'}, is_toml)
                mk = has(after, {'MKDIR'}, is_dir)
                wr = has(after, {'WRITE'}, is_toml)
                check_rm(bool(rm_dir) and bool(rm_toml), 'R3', tag + '/must-remove', site_where,
                          'layer dir and TOML are removed after the delete decision',
                          'delete decision without removing DIR and TOML: %s' % summary['must'])
                rep.check(bool(mk) and bool(wr), 'R3', tag + '/must-create', site_where, 'MKDIR(DIR), WRITE(TOML) follow',
                          'layer is not recreated after delete: %s' % summary['must'])
                if rm_dir and rm_toml and mk:
                    order = [id(e) for e in must]
                    last_rm = max(order.index(id(e)) for e in rm_dir + rm_toml)
                    first_mk = min(order.index(id(e)) for e in mk + wr)
                    rep.check(last_rm < first_mk, 'R3', tag + '/order', site_where, 'removal precedes re-creation',
                              're-creation happens before the removal is complete')
                # R5: SBOM files of every format
                rm_sbom = has(after, {'REMOVE_FILE'}, is_sbom)
                all_variants = sorted(v['name'] for v in prog.adt('libcnb_data::sbom::SbomFormat')['variants'])
                got = sorted(sbom_formats_covered(rm_sbom, lambda pv: LP.classify(pv) if pv is not None else None))
                covered = got == all_variants
                detail = ('REMOVE_FILE on <layer>.sbom.* for formats %s' % got) if rm_sbom else 'no REMOVE_FILE on <layer>.sbom.* after the decision'
                check_rm(covered, 'R5', tag + '/SBOM', site_where, 'SBOM files removed for all formats (%s)' % detail,
                         'a layer reported empty keeps the SBOM files of the previous build: %s' % detail,
                         {'row': r, 'must': summary['must']})
                for cname, ok in (('DIR (incl. env*, exec.d, files)', bool(rm_dir)), ('TOML', bool(rm_toml))):
                    check_rm(ok, 'R5', tag + '/' + cname.split(' ')[0], site_where, cname + ' removed', cname + ' not removed')
                # R8: tolerated errors of the removal must not be able to come from entries below the layer directory
                nfs = nested_follow_stats(prog, sl, o.region_wide(c, lv, o.may), klass, E)
                for e, verdict, msg in nfs:
                    (rep.violated if verdict == 'violated' else rep.unproven)('R8', tag + '/nested-follow-stat', e.where(), msg)
                if not nfs:
                    rep.holds('R8', tag + '/nested-follow-stat', site_where,
                              'no fallible symlink-following stat of an entry below the layer directory is absorbed after the delete decision')
            elif r == 'restored-keep':
                c, subj, lv = dec
                rep.check(bool(has(o.region(c, lv, must), {'WRITE'}, is_toml)), 'R3', tag + '/must', site_where,
                          'types are rewritten (WRITE(TOML)) on every keep path', 'keep path does not rewrite the layer types')
                reg = o.region_wide(c, lv, o.may)
                bad = [e for e in reg if e.kind in MUTATING and not (e.kind == 'WRITE' and is_toml(klass(e)))]
                rep.check(not bad, 'R3', tag + '/must-not', site_where, 'nothing but the TOML is written after a keep decision',
                          'keep path mutates more than the TOML: %s' % [(e.kind, cls_str(klass(e)), e.via()) for e in bad[:3]])
            elif r == 'invalid-replace':
                c, subj, lv = dec
                reg_must = o.region(c, lv, must)
                rep.check(bool(has(reg_must, {'WRITE'}, is_toml)), 'R3', tag + '/must', site_where, 'metadata rewritten (WRITE(TOML))',
                          'ReplaceMetadata does not write the TOML')
                reg = [e for e in o.region_wide(c, lv, o.may) if e.kind in REMOVING or e.kind in ('MKDIR', 'CHMOD')]
                rep.check(not reg, 'R3', tag + '/must-not', site_where, 'no removal before re-dispatch',
                          'ReplaceMetadata path removes/creates entries: %s' % [(e.kind, e.via()) for e in reg[:3]])
            # ---- R1 / R4: data written to the TOML ---------------------------------------------------
            # (`File::create(p)?.write_all(data)` carries its data as a second argument, like `fs::write(p, data)`)
            seen_writes = [e for e in must if e.kind == 'WRITE' and is_toml(klass(e)) and len(e.args) >= 2 and
                           (e.call.is_('std::fs::write', 'std::fs::File::create', 'std::fs::File::create_new') or
                            # (a WRITE by OpenOptions::open is a builder chain equal to File::create / create_new: Effects2)
                            e.call.is_('std::fs::OpenOptions::open'))]
            if not seen_writes:
                # fail closed: a row whose TOML write carries no visible data has no R1 / R4 instance at all
                rep.unproven('R1', tag + '/types', site_where, 'no write of the content metadata file with visible data on this row: the types written cannot be checked')
            for e in seen_writes:
                # normal form of the serialised value: closures handed to a shared read-update-write helper are applied
                data = norm(sl, repair_nested_updates(E, e, e.args[1]))
                lcm = find_agg(data, 'LayerContentMetadata')
                via = e.via()
                if r == 'restored-keep' or 'replace_layer_types' in via or (lcm is None and any(x[0] == 'updated' for x in walk(data))):
                    # R4 on the frame of the written value: base value + replaced fields, for `x.types = t; write(x)` as
                    # well as `write(S { types: t, metadata: x.metadata })`
                    fr = frame_of(sl, data, 'LayerContentMetadata')
                    if fr is None:
                        rep.unproven('R4', tag + '/keep-frame', e.where(), 'keep rewrite is not a read-modify-write: ' + vstr(data)[:160])
                        continue
                    base, repl = fr
                    # the base is "the parsed contents of this layer's TOML" in normal form — whichever function reads it
                    src = toml_source(prog, sl, base)
                    same_file = src is not None and LP.classify(src[0]) == ('TOML',)
                    fields = sorted(repl)
                    hint = toml_read_hint(prog, sl, base, LP.classify) if src is None and fields == ['.types'] else None
                    if hint is not None:
                        # the value visibly comes from this layer's TOML, through a way of reading that is not reduced to
                        # `parse(text of the file)`: undecided, not a breach
                        rep.unproven('R4', tag + '/keep-frame', e.where(), 'the keep path rewrites a value obtained from this layer\'s TOML via %s, but how '
                                     'the file becomes that value is not understood (not `toml::from_str(text of the file)` in normal form): base=%s'
                                     % (hint, vstr(base)[:100]))
                    else:
                        rep.check(same_file and fields == ['.types'], 'R4', tag + '/keep-frame', e.where(),
                                  'serialises the value read from the same TOML with only .types replaced',
                                  'keep rewrite is not frame-preserving: base=%s updated=%s' % (vstr(base)[:100], fields))
                    if same_file:
                        ll, why = lossless_type(src[1])
                        if ll is None:
                            rep.unproven('R4', tag + '/lossless', e.where(), 'cannot tell whether the keep path re-reads the metadata without loss: ' + why)
                        else:
                            rep.check(ll, 'R4', tag + '/lossless', e.where(), 'the file is re-' + why, why)
                    tv = some_payload(repl.get('.types', ('unknown',)))
                    ok, why = types_ok(cl, tv, True, sl) if tv is not None else (False, 'types not Some(..)')
                    check_types(rep, ok, 'R1', tag + '/types', e.where(), why, 'wrong types on keep: ' + why)
                elif lcm is not None:
                    f = dict(lcm[3])
                    if r == 'invalid-replace':
                        tv = strip(f.get('types', ('unknown',)))
                        src = toml_source(prog, sl, strip(tv[1])) if tv[0] == 'field' and tv[2] == 'types' else None
                        good = src is not None and LP.classify(src[0]) == ('TOML',)
                        hint = toml_read_hint(prog, sl, strip(tv[1]), LP.classify) if src is None and tv[0] == 'field' and tv[2] == 'types' else None
                        if hint is not None:
                            rep.unproven('R1', tag + '/types-preserved', e.where(), 'the types written come from a value obtained from this layer\'s TOML via %s, '
                                         'but how the file becomes that value is not understood: %s' % (hint, vstr(tv)[:120]))
                        else:
                            rep.check(good, 'R1', tag + '/types-preserved', e.where(), 'types <- existing file',
                                      'ReplaceMetadata does not preserve the existing types: ' + vstr(tv)[:120])
                        mv = strip(f.get('metadata', ('unknown',)))
                        good = any(x[0] == 'variant' and x[2] == 'ReplaceMetadata' for x in walk(mv))
                        rep.check(good, 'R3', tag + '/metadata', e.where(), 'metadata <- ReplaceMetadata payload',
                                  'written metadata is not the callback\'s replacement: ' + vstr(mv)[:120])
                    else:
                        tv = some_payload(f.get('types', ('unknown',)))
                        ok, why = types_ok(cl, tv, True, sl) if tv is not None else (False, 'types not Some(..): ' + vstr(f.get('types'))[:80])
                        check_types(rep, ok, 'R1', tag + '/types', e.where(), why, 'wrong types written for %s: %s' % (r, why))
                else:
                    rep.unproven('R1', tag + '/types', e.where(), 'cannot see the value written to the TOML: ' + vstr(data)[:200])

    rep = real_rep
    # ---- R6 ---------------------------------------------------------------------------------------
    fmts = prog.adt('libcnb_data::sbom::SbomFormat')
    variants = [v['name'] for v in fmts['variants']]
    init = sl.const_init('libcnb_data::sbom::SBOM_FORMATS')
    listed = [x[2] for x in walk(init) if x[0] == 'agg' and (x[1] or '').endswith('SbomFormat')] if init else []
    rep.check(sorted(listed) == sorted(variants), 'R6', 'SBOM_FORMATS', 'libcnb-data/src/sbom.rs',
              'SBOM_FORMATS lists all %d SbomFormat variants' % len(variants),
              'SBOM_FORMATS %s does not cover the SbomFormat variants %s' % (listed, variants))
    # the removal loop in replace_layer_sboms / delete path iterates that constant (checked where used)
    if ROLES['SBOM_PATH']:
        rep.analysed(prog.fns[ROLES['SBOM_PATH']])

    # ---- R7 confinement ---------------------------------------------------------------------------
    n_mut = 0
    for entry in (cl, ul):
        lp = entry_paths(entry, E)
        seen = set()
        for e in E.expand(entry, 'may'):
            if e.kind not in MUTATING:
                continue
            n_mut += 1
            k = lp.classify_effect(e)
            key = (e.call.fn.path, e.call.name, cls_str(k))
            if key in seen:
                continue
            seen.add(key)
            rep.sites()
            subj = '%s/%s/%s@%s' % (entry.path.split('::')[-1], e.call.fn.path, e.call.name, cls_str(k))
            if lp.inside_layer(k):
                rep.holds('R7', subj, e.where(), '%s on %s' % (e.kind, cls_str(k)))
            elif e.path is not None and any(x == UNKNOWN_ELEM for x in walk(e.path)):
                rep.unproven('R7', subj, e.where(), '%s on an element of a local collection that has elements added in place and is then '
                             'modified in a way that cannot be followed (via %s): what it holds when it is iterated is unknown' % (e.kind, e.via()))
            else:
                rep.violated('R7', subj, e.where(), '%s on a path that is not lexically inside this layer: %s (via %s)'
                             % (e.kind, vstr(e.path)[:160], e.via()))
    rep.floor('R7', 'mutating_effects', n_mut)

    # ---- R5: artifact classes from all layer writers ------------------------------------------------
    classes = set()
    for f in prog.find(LAYER_REF_WRITERS):
        rep.analysed(f)
        lp = layer_ref_paths(f, E)
        for e in E.expand(f, 'may'):
            if e.kind in ('WRITE', 'MKDIR'):
                k = lp.classify_effect(e)
                top = k
                while top is not None and top[0] in ('SUB', 'CHILD'):
                    top = top[1]
                classes.add(top[0] if top else 'UNKNOWN:' + vstr(e.path)[:80])
                if top is None:
                    rep.violated('R7', 'LayerRef/%s/%s' % (f.path.split('::')[-1], e.call.name), e.where(),
                                 'layer writer touches a path outside the layer: ' + vstr(e.path)[:160])
            elif e.kind in MUTATING and e.path is not None:
                # removals / permission changes / renames of a writer are confined like its writes
                if not lp.inside_layer(lp.classify_effect(e)):
                    rep.violated('R7', 'LayerRef/%s/%s' % (f.path.split('::')[-1], e.call.name), e.where(),
                                 'layer writer removes / alters a path outside the layer: ' + vstr(e.path)[:160])
    rep.check(classes <= {'DIR', 'TOML', 'SBOM'} and classes >= {'DIR', 'TOML', 'SBOM'}, 'R5', 'artifact-classes', '-',
              'layer writers create exactly the classes DIR/*, TOML, SBOM — all three are demanded of the delete rows',
              'layer writers create classes %s; the delete table knows DIR, TOML, SBOM' % sorted(classes))

    # ---- R10: the reader -----------------------------------------------------------------------------
    if not readers:
        rep.unproven('R10', 'reader/none-gate', cl.file, 'no function found whose Option result separates "no layer" from "layer present" on the rows with a callback decision')
    for rname in readers:
        reader = prog.fns[rname]
        rep.analysed(reader)
        ctxs = reader_contexts(prog, sl, cl, reader)
        if not ctxs:
            rep.unproven('R10', 'reader/context', cl.file, 'no call of %s found from cached_layer' % rname)
        done = set()
        for e, m in ctxs:
            for subject, status, wh, msg in reader_report(prog, sl, E, reader, m, LP):
                if (subject, status, msg) in done:
                    continue
                done.add((subject, status, msg))
                {'holds': rep.holds, 'violated': rep.violated, 'unproven': rep.unproven}[status]('R10', 'reader/' + subject, wh, msg)

    # ---- R12: replace semantics of the SBOM writer ----------------------------------------------------
    ws = [f for f in prog.find(LAYER_REF_WRITERS) if f.path.endswith('::write_sboms')]
    if len(ws) != 1:
        rep.unproven('R12', 'write_sboms/replaces', '-', 'LayerRef::write_sboms not found')
    else:
        f = ws[0]
        lp = layer_ref_paths(f, E)
        must = E.expand(f, 'must')
        rm = [e for e in must if e.kind == 'REMOVE_FILE' and e.path is not None and (lp.classify_effect(e) or ('',))[0] == 'SBOM']
        wr = [e for e in must + E.expand(f, 'may') if e.kind == 'WRITE' and e.path is not None and (lp.classify_effect(e) or ('',))[0] == 'SBOM']
        all_variants = sorted(v['name'] for v in prog.adt('libcnb_data::sbom::SbomFormat')['variants'])
        got = sorted(sbom_formats_covered(rm, lambda pv: lp.classify(pv) if pv is not None else None))
        order = [id(e) for e in must]
        wr_must = [e for e in wr if id(e) in order]
        in_order = not rm or not wr_must or max(order.index(id(e)) for e in rm) < min(order.index(id(e)) for e in wr_must)
        rep.check(got == all_variants and bool(wr) and in_order, 'R12', 'write_sboms/replaces', '%s:%d' % (f.file, f.line),
                  'every success path removes <layer>.sbom.* of all formats %s before writing the given SBOMs' % got,
                  'write_sboms does not replace: SBOM files removed on every success path only for formats %s of %s (stale SBOMs of '
                  'an earlier write survive), writes found: %d, removal before the writes: %s' % (got, all_variants, len(wr), in_order))

    # ---- R9 uncached ------------------------------------------------------------------------------
    # the dispatch into the handler is an effect of the entry point: its arguments are read in the entry's own terms
    # whether the call is written in the entry or in a private helper between the two
    E9 = Effects2(prog, sl, vocab={ROLES['STRUCT_HL']: ('DISPATCH', None)}) if ROLES['STRUCT_HL'] else E

    def dispatches(entry):
        return [e for e in E9.expand(entry, 'may') if e.kind == 'DISPATCH' and e.args is not None and len(e.args) >= 5]

    def constant_action(cv, want):
        """callback value that ignores its arguments and returns the literal `want`::DeleteLayer"""
        if cv[0] in ('closure', 'fnitem') and cv[1] in prog.fns and not (cv[0] == 'closure' and cv[2]):
            body = prog.fns[cv[1]]
            rv = strip(sl.local(body, 0))
            if rv[0] != 'agg':
                rv = strip(sl.inline_deep(rv))
            return rv[0] == 'agg' and (rv[1] or '').endswith(want) and rv[2] == 'DeleteLayer', 'callback returns ' + vstr(rv)[:80]
        return False, vstr(cv)[:100]

    hl = dispatches(ul)
    if len(hl) != 1:
        rep.unproven('R9', 'dispatch', ul.file, 'uncached_layer does not call handle_layer exactly once')
    else:
        d = hl[0]
        ok, why = types_ok(ul, d.args[0], False, sl)
        check_types(rep, ok, 'R9', 'types', d.where(), why, 'uncached_layer requests wrong types: ' + why)
        for i, want in ((1, 'InvalidMetadataAction'), (2, 'RestoredLayerAction')):
            good, why = constant_action(strip(d.args[i]), want)
            rep.check(good, 'R9', 'callback%d' % i, d.where(), 'constant %s::DeleteLayer' % want,
                      'uncached_layer callback %d is not the constant DeleteLayer: %s' % (i, why))
        ln, ld = strip(d.args[3]), strip(d.args[4])
        lpu = entry_paths(ul)
        rep.check(lpu.is_ln(ln) and lpu.is_ld(ld), 'R9', 'target', d.where(), 'operates on (self.layers_dir, layer_name)',
                  'uncached_layer dispatches on a different layer: %s / %s' % (vstr(ld), vstr(ln)))
    # cached_layer dispatch arguments
    hl = dispatches(cl)
    if len(hl) == 1:
        d = hl[0]
        ln, ld = strip(d.args[3]), strip(d.args[4])
        rep.check(LP.is_ln(ln) and LP.is_ld(ld), 'R9', 'cached-target', d.where(), 'operates on (self.layers_dir, layer_name)',
                  'cached_layer dispatches on a different layer: %s / %s' % (vstr(ld), vstr(ln)))
    else:
        rep.unproven('R9', 'cached-dispatch', cl.file, 'cached_layer does not call handle_layer exactly once')
